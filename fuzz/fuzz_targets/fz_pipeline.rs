#![no_main]
// C01 / C16: whole pipeline (load, evaluate, manifest, render diagnostics) with span-containment monitors.
libfuzzer_sys::fuzz_target!(|data: &[u8]| {
    verif_fuzz::pipeline(data);
});

#![no_main]
// C14: in-process lexer monitors under coverage-guided input generation.
libfuzzer_sys::fuzz_target!(|data: &[u8]| {
    verif_fuzz::lex_monitors(data);
});

//! In-process monitors for the coverage-guided legs (C14: `fz_lex`; C01/C16: `fz_pipeline`).
//!
//! A monitor failure panics with a message that starts with `VERIF-MONITOR <Cxx>:` (libFuzzer turns a
//! panic into a crash artifact; the Python driver re-runs every artifact through the same binary and
//! classifies by that message).  Any other panic / abort is rsjsonnet's own.

use rsjsonnet_front::Session;
use rsjsonnet_lang::arena::Arena;
use rsjsonnet_lang::interner::{InternedStr, StrInterner};
use rsjsonnet_lang::lexer::{LexError, Lexer};
use rsjsonnet_lang::parser::ParseError;
use rsjsonnet_lang::program::{
    AnalyzeError, Callbacks, EvalError, EvalErrorKind, EvalStackTraceItem, ImportError, LoadError,
    NativeError, Program, Thunk, Value,
};
use rsjsonnet_lang::span::{SpanContext, SpanContextId, SpanId, SpanManager};
use rsjsonnet_lang::token::TokenKind;

fn lex_error_span(e: &LexError) -> SpanId {
    match *e {
        LexError::InvalidChar { span, .. }
        | LexError::InvalidUtf8 { span, .. }
        | LexError::UnfinishedMultilineComment { span }
        | LexError::LeadingZeroInNumber { span }
        | LexError::MissingFracDigits { span }
        | LexError::MissingExpDigits { span }
        | LexError::MissingDigitAfterUnderscore { span }
        | LexError::ExpOverflow { span }
        | LexError::InvalidEscapeInString { span, .. }
        | LexError::IncompleteUnicodeEscape { span }
        | LexError::InvalidUtf16EscapeSequence { span, .. }
        | LexError::UnfinishedString { span }
        | LexError::MissingLineBreakAfterTextBlockStart { span }
        | LexError::MissingWhitespaceTextBlockStart { span }
        | LexError::InvalidTextBlockTermination { span } => span,
    }
}

fn analyze_error_spans(e: &AnalyzeError) -> Vec<SpanId> {
    match *e {
        AnalyzeError::UnknownVariable { span, .. } => vec![span],
        AnalyzeError::SelfOutsideObject { self_span } => vec![self_span],
        AnalyzeError::SuperOutsideObject { super_span } => vec![super_span],
        AnalyzeError::DollarOutsideObject { dollar_span } => vec![dollar_span],
        AnalyzeError::RepeatedLocalName { original_span, repeated_span, .. }
        | AnalyzeError::RepeatedFieldName { original_span, repeated_span, .. }
        | AnalyzeError::RepeatedParamName { original_span, repeated_span, .. } => vec![repeated_span, original_span],
        AnalyzeError::PositionalArgAfterNamed { arg_span } => vec![arg_span],
        AnalyzeError::TextBlockAsImportPath { span } => vec![span],
        AnalyzeError::ComputedImportPath { span } => vec![span],
    }
}

fn eval_kind_spans(k: &EvalErrorKind) -> Vec<SpanId> {
    use EvalErrorKind as K;
    match *k {
        K::InvalidIndexedType { span, .. }
        | K::InvalidSlicedType { span, .. }
        | K::SliceIndexOrStepIsNotNumber { span, .. }
        | K::StringIndexIsNotNumber { span, .. }
        | K::ArrayIndexIsNotNumber { span, .. }
        | K::NumericIndexIsNotValid { span, .. }
        | K::NumericIndexOutOfRange { span, .. }
        | K::ObjectIndexIsNotString { span, .. }
        | K::RepeatedFieldName { span, .. }
        | K::FieldNameIsNotString { span, .. }
        | K::UnknownObjectField { span, .. }
        | K::FieldOfNonObject { span }
        | K::SuperWithoutSuperObject { span }
        | K::ForSpecValueIsNotArray { span, .. }
        | K::CondIsNotBool { span, .. }
        | K::InvalidUnaryOpType { span, .. }
        | K::AssertFailed { span, .. }
        | K::ExplicitError { span, .. }
        | K::ImportFailed { span, .. } => vec![span],
        K::CalleeIsNotFunction { span, .. }
        | K::TooManyCallArgs { span, .. }
        | K::UnknownCallParam { span, .. }
        | K::RepeatedCallParam { span, .. }
        | K::CallParamNotBound { span, .. }
        | K::InvalidBinaryOpTypes { span, .. }
        | K::NumberNotBitwiseSafe { span }
        | K::NumberOverflow { span }
        | K::NumberNan { span }
        | K::DivByZero { span }
        | K::ShiftByNegative { span }
        | K::Other { span, .. } => span.into_iter().collect(),
        _ => Vec::new(),
    }
}

fn stack_item_span(item: &EvalStackTraceItem) -> Option<SpanId> {
    match *item {
        EvalStackTraceItem::Expr { span } => Some(span),
        EvalStackTraceItem::Call { span, .. } => span,
        EvalStackTraceItem::Variable { span, .. } => Some(span),
        EvalStackTraceItem::ArrayItem { span, .. } => span,
        EvalStackTraceItem::ObjectField { span, .. } => span,
        EvalStackTraceItem::Import { span } => Some(span),
        _ => None,
    }
}

/// C14: tiling, end-of-file token, filtered == full minus whitespace/comments, one located error.
pub fn lex_monitors(data: &[u8]) {
    let arena = Arena::new();
    let ast_arena = Arena::new();
    let interner = StrInterner::new();
    let mut span_mgr = SpanManager::new();
    let (ctx, _) = span_mgr.insert_source_context(data.len());
    let full = Lexer::new(&arena, &ast_arena, &interner, &mut span_mgr, ctx, data).lex_to_eof(true);
    let filt = Lexer::new(&arena, &ast_arena, &interner, &mut span_mgr, ctx, data).lex_to_eof(false);
    match (&full, &filt) {
        (Ok(full), Ok(filt)) => {
            let mut pos = 0usize;
            for (i, t) in full.iter().enumerate() {
                let (tctx, s, e) = span_mgr.get_span(t.span);
                if tctx != ctx {
                    panic!("VERIF-MONITOR C14: token {i} belongs to another context");
                }
                if s != pos || e < s {
                    panic!("VERIF-MONITOR C14: token {i} spans {s}..{e}, expected to start at {pos}");
                }
                let last = i + 1 == full.len();
                if (t.kind == TokenKind::EndOfFile) != last {
                    panic!("VERIF-MONITOR C14: end-of-file token at position {i} of {}", full.len());
                }
                if !last && e == s {
                    panic!("VERIF-MONITOR C14: empty token {i} at {s}");
                }
                pos = e;
            }
            if pos != data.len() || full.is_empty() {
                panic!("VERIF-MONITOR C14: tokens end at {pos}, input has {} bytes", data.len());
            }
            let kept: Vec<_> = full
                .iter()
                .filter(|t| !matches!(t.kind, TokenKind::Whitespace | TokenKind::Comment))
                .collect();
            if kept.len() != filt.len() {
                panic!("VERIF-MONITOR C14: filtered list has {} tokens, full minus trivia has {}", filt.len(), kept.len());
            }
            for (i, (a, b)) in kept.iter().zip(filt.iter()).enumerate() {
                if a.kind != b.kind || span_mgr.get_span(a.span) != span_mgr.get_span(b.span) {
                    panic!("VERIF-MONITOR C14: filtered token {i} differs from the full list's");
                }
            }
        }
        (Err(a), Err(b)) => {
            let (sa, sb) = (span_mgr.get_span(lex_error_span(a)), span_mgr.get_span(lex_error_span(b)));
            if format!("{a:?}").split('{').next() != format!("{b:?}").split('{').next() || (sa.1, sa.2) != (sb.1, sb.2) {
                panic!("VERIF-MONITOR C14: error differs with/without trivia: {a:?} vs {b:?}");
            }
            if sa.0 != ctx || sa.1 > sa.2 || sa.2 > data.len() {
                panic!("VERIF-MONITOR C14: error span {}..{} outside the {}-byte input", sa.1, sa.2, data.len());
            }
        }
        _ => panic!(
            "VERIF-MONITOR C14: acceptance depends on keeping trivia: full ok={} filtered ok={}",
            full.is_ok(),
            filt.is_ok()
        ),
    }
}

struct Cb {
    traces: usize,
}

impl<'p> Callbacks<'p> for Cb {
    fn import(&mut self, _p: &mut Program<'p>, _from: SpanId, _path: &str) -> Result<Thunk<'p>, ImportError> {
        Err(ImportError)
    }
    fn import_str(&mut self, _p: &mut Program<'p>, _from: SpanId, _path: &str) -> Result<String, ImportError> {
        Err(ImportError)
    }
    fn import_bin(&mut self, _p: &mut Program<'p>, _from: SpanId, _path: &str) -> Result<Vec<u8>, ImportError> {
        Err(ImportError)
    }
    fn trace(&mut self, _p: &mut Program<'p>, _message: &str, _stack: &[EvalStackTraceItem]) {
        self.traces += 1;
    }
    fn native_call(&mut self, _p: &mut Program<'p>, _name: InternedStr<'p>, _args: &[Value<'p>]) -> Result<Value<'p>, NativeError> {
        Err(NativeError)
    }
}

fn check_span(span_mgr: &SpanManager, span: SpanId, user_ctx: SpanContextId, user_len: usize, std_len: usize, what: &str) {
    let (ctx, s, e) = span_mgr.get_span(span);
    let SpanContext::Source(_) = *span_mgr.get_context(ctx);
    let len = if ctx == user_ctx { user_len } else { std_len };
    if s > e || e > len {
        panic!("VERIF-MONITOR C16: {what} span {s}..{e} outside its {len}-byte source");
    }
}

fn check_eval_error(p: &Program<'_>, e: &EvalError, ctx: SpanContextId, len: usize, std_len: usize) {
    for s in eval_kind_spans(&e.kind) {
        check_span(p.span_manager(), s, ctx, len, std_len, "run-time error");
    }
    for item in e.stack_trace.iter() {
        if let Some(s) = stack_item_span(item) {
            check_span(p.span_manager(), s, ctx, len, std_len, "stack-trace");
        }
    }
}

/// Programs that are obviously unbounded (huge ranges, repeats) only cost time; the frame limit bounds
/// recursion.  libFuzzer's -timeout / -rss_limit_mb handle the rest (ignored by the driver as inconclusive).
const MAX_STACK: usize = 120;

/// C01 + C16: load, evaluate, manifest through `Program` (structured errors: every span inside its
/// source) and again through `Session` (rendered diagnostics, plain and coloured, cropped traces).
/// The one open known finding that a byte-level fuzzer re-discovers every few seconds (known_findings.json,
/// C01-/C16-sourceannot-zero-width-span).  When the driver says that entry is still open
/// (VERIF_FUZZ_SWALLOW_KNOWN=1) a panic with exactly this location and message is allowed to unwind and is
/// swallowed by `pipeline`; every other panic aborts as usual and becomes an artifact.
fn install_hook_once() {
    use std::sync::Once;
    static ONCE: Once = Once::new();
    ONCE.call_once(|| {
        if std::env::var("VERIF_FUZZ_SWALLOW_KNOWN").as_deref() != Ok("1") {
            return;
        }
        let prev = std::panic::take_hook();
        std::panic::set_hook(Box::new(move |info| {
            let msg = if let Some(s) = info.payload().downcast_ref::<&str>() {
                (*s).to_string()
            } else if let Some(s) = info.payload().downcast_ref::<String>() {
                s.clone()
            } else {
                String::new()
            };
            let known = info.location().is_some_and(|l| l.file().contains("sourceannot-") && l.file().ends_with("/src/annots.rs"))
                && msg.contains("annot.span.end_col > annot.span.start_col");
            if !known {
                prev(info);
            }
        }));
    });
}

pub fn pipeline(data: &[u8]) {
    install_hook_once();
    // a generous native stack: inputs are at most a few KiB, so nesting depth is bounded by the input length and
    // the known finding "native stack overflow of the recursive-descent parser on 5000+ levels" stays out of reach
    let data: Vec<u8> = data.to_vec();
    let h = std::thread::Builder::new()
        .stack_size(std::env::var("VERIF_FUZZ_STACK_MB").ok().and_then(|s| s.parse::<usize>().ok()).unwrap_or(48) << 20)
        .spawn(move || pipeline_inner(&data))
        .expect("spawn");
    // only the swallowed known finding can get here: any other panic aborted inside the hook
    let _ = h.join();
}

fn pipeline_inner(data: &[u8]) {
    {
        let arena = Arena::new();
        let mut p = Program::new(&arena);
        p.set_max_stack(MAX_STACK);
        let std_len = p.get_stdlib_source().1.len();
        let (ctx, _) = p.span_manager_mut().insert_source_context(data.len());
        let mut cb = Cb { traces: 0 };
        match p.load_source(ctx, data, true, "<fuzz>") {
            Err(LoadError::Lex(e)) => check_span(p.span_manager(), lex_error_span(&e), ctx, data.len(), std_len, "lexical error"),
            Err(LoadError::Parse(ParseError::Expected { span, .. })) => {
                check_span(p.span_manager(), span, ctx, data.len(), std_len, "syntax error")
            }
            Err(LoadError::Analyze(e)) => {
                for s in analyze_error_spans(&e) {
                    check_span(p.span_manager(), s, ctx, data.len(), std_len, "static error");
                }
            }
            Ok(thunk) => match p.eval_value(&thunk, &mut cb) {
                Err(e) => check_eval_error(&p, &e, ctx, data.len(), std_len),
                Ok(v) => {
                    if let Err(e) = p.manifest_json(&v, true) {
                        check_eval_error(&p, &e, ctx, data.len(), std_len);
                    }
                }
            },
        }
    }
    // rendered diagnostics (stderr is discarded by the driver: -close_fd_mask=2)
    let crop = match data.len() % 4 {
        0 => None,
        1 => Some(0),
        2 => Some(1),
        _ => Some(3),
    };
    let arena = Arena::new();
    let mut s = Session::new(&arena);
    s.program_mut().set_max_stack(MAX_STACK);
    s.set_colored_output(data.len() % 2 == 1);
    if let Some(n) = crop {
        s.set_max_trace(n);
    }
    if let Some(t) = s.load_virt_file("<fuzz>", data.to_vec()) {
        if let Some(v) = s.eval_value(&t) {
            let _ = s.manifest_json(&v, false);
        }
    }
}

//! Batch evaluation server: the boundary at which the Python monitors observe
//! rsjsonnet.  Reads scripts of operations on stdin, answers one record per
//! operation on stdout.  See DESIGN.md (Appendix A) for the protocol.

use std::collections::HashMap;
use std::fmt::Write as _;
use std::io::{BufRead, Write};
use std::panic::{AssertUnwindSafe, catch_unwind};

use rsjsonnet_front::Session;
use rsjsonnet_lang::arena::Arena;
use rsjsonnet_lang::ast;
use rsjsonnet_lang::interner::{InternedStr, StrInterner};
use rsjsonnet_lang::lexer::{LexError, Lexer};
use rsjsonnet_lang::parser::{ParseError, Parser};
use rsjsonnet_lang::program::{
    AnalyzeError, Callbacks, EvalError, EvalErrorKind, EvalStackTraceItem, ImportError, LoadError,
    NativeError, Program, Thunk, Value, ValueKind, VerifGcMode,
};
use rsjsonnet_lang::span::{SourceId, SpanContext, SpanId, SpanManager};
use rsjsonnet_lang::token::{Token, TokenKind};
use verif_harness::{Rng, hex_decode, hex_encode, install_quiet_panic_hook, take_last_panic};

// ---------------------------------------------------------------------------------------------
// Span resolution

struct Sources {
    list: Vec<(SourceId, String, usize)>,
}

impl Sources {
    fn resolve(&self, span_mgr: &SpanManager, span: SpanId) -> String {
        let (ctx, start, end) = span_mgr.get_span(span);
        let SpanContext::Source(sid) = *span_mgr.get_context(ctx);
        match self.list.iter().position(|e| e.0 == sid) {
            Some(i) => format!("{}:{}:{}:{}", i, start, end, self.list[i].2),
            None => format!("?:{start}:{end}:?"),
        }
    }

    fn is_bad(&self, span_mgr: &SpanManager, span: SpanId) -> bool {
        let (ctx, start, end) = span_mgr.get_span(span);
        let SpanContext::Source(sid) = *span_mgr.get_context(ctx);
        match self.list.iter().position(|e| e.0 == sid) {
            Some(i) => !(start <= end && end <= self.list[i].2),
            None => true,
        }
    }
}

fn lex_error_spans(e: &LexError) -> Vec<SpanId> {
    match *e {
        LexError::InvalidChar { span, .. }
        | LexError::InvalidUtf8 { span, .. }
        | LexError::UnfinishedMultilineComment { span }
        | LexError::LeadingZeroInNumber { span }
        | LexError::MissingFracDigits { span }
        | LexError::MissingExpDigits { span }
        | LexError::MissingDigitAfterUnderscore { span }
        | LexError::ExpOverflow { span }
        | LexError::InvalidEscapeInString { span, .. }
        | LexError::IncompleteUnicodeEscape { span }
        | LexError::InvalidUtf16EscapeSequence { span, .. }
        | LexError::UnfinishedString { span }
        | LexError::MissingLineBreakAfterTextBlockStart { span }
        | LexError::MissingWhitespaceTextBlockStart { span }
        | LexError::InvalidTextBlockTermination { span } => vec![span],
    }
}

fn parse_error_spans(e: &ParseError) -> Vec<SpanId> {
    match *e {
        ParseError::Expected { span, .. } => vec![span],
    }
}

fn analyze_error_spans(e: &AnalyzeError) -> Vec<SpanId> {
    match *e {
        AnalyzeError::UnknownVariable { span, .. } => vec![span],
        AnalyzeError::SelfOutsideObject { self_span } => vec![self_span],
        AnalyzeError::SuperOutsideObject { super_span } => vec![super_span],
        AnalyzeError::DollarOutsideObject { dollar_span } => vec![dollar_span],
        AnalyzeError::RepeatedLocalName {
            original_span,
            repeated_span,
            ..
        }
        | AnalyzeError::RepeatedFieldName {
            original_span,
            repeated_span,
            ..
        }
        | AnalyzeError::RepeatedParamName {
            original_span,
            repeated_span,
            ..
        } => vec![repeated_span, original_span],
        AnalyzeError::PositionalArgAfterNamed { arg_span } => vec![arg_span],
        AnalyzeError::TextBlockAsImportPath { span } => vec![span],
        AnalyzeError::ComputedImportPath { span } => vec![span],
    }
}

fn eval_kind_spans(k: &EvalErrorKind) -> Vec<SpanId> {
    use EvalErrorKind as K;
    match *k {
        K::InvalidIndexedType { span, .. }
        | K::InvalidSlicedType { span, .. }
        | K::SliceIndexOrStepIsNotNumber { span, .. }
        | K::StringIndexIsNotNumber { span, .. }
        | K::ArrayIndexIsNotNumber { span, .. }
        | K::NumericIndexIsNotValid { span, .. }
        | K::NumericIndexOutOfRange { span, .. }
        | K::ObjectIndexIsNotString { span, .. }
        | K::RepeatedFieldName { span, .. }
        | K::FieldNameIsNotString { span, .. }
        | K::UnknownObjectField { span, .. }
        | K::FieldOfNonObject { span }
        | K::SuperWithoutSuperObject { span }
        | K::ForSpecValueIsNotArray { span, .. }
        | K::CondIsNotBool { span, .. }
        | K::InvalidUnaryOpType { span, .. }
        | K::AssertFailed { span, .. }
        | K::ExplicitError { span, .. }
        | K::ImportFailed { span, .. } => vec![span],
        K::CalleeIsNotFunction { span, .. }
        | K::TooManyCallArgs { span, .. }
        | K::UnknownCallParam { span, .. }
        | K::RepeatedCallParam { span, .. }
        | K::CallParamNotBound { span, .. }
        | K::InvalidBinaryOpTypes { span, .. }
        | K::NumberNotBitwiseSafe { span }
        | K::NumberOverflow { span }
        | K::NumberNan { span }
        | K::DivByZero { span }
        | K::ShiftByNegative { span }
        | K::Other { span, .. } => span.into_iter().collect(),
        _ => Vec::new(),
    }
}

fn eval_kind_message(k: &EvalErrorKind) -> Option<String> {
    use EvalErrorKind as K;
    match k {
        K::ExplicitError { message, .. } => Some(message.clone()),
        K::AssertFailed { message, .. } => message.clone(),
        K::Other { message, .. } => Some(message.clone()),
        K::UnknownObjectField { field_name, .. } => Some(field_name.clone()),
        K::AssertEqualFailed { lhs, rhs } => Some(format!("{lhs}\u{0}{rhs}")),
        K::UnknownExtVar { name } => Some(name.clone()),
        K::ImportFailed { path, .. } => Some(path.clone()),
        K::UnknownCallParam { param_name, .. }
        | K::RepeatedCallParam { param_name, .. }
        | K::CallParamNotBound { param_name, .. } => Some(param_name.clone()),
        K::InvalidStdFuncArgType { func_name, .. } => Some(func_name.clone()),
        K::RepeatedFieldName { name, .. } => Some(name.clone()),
        _ => None,
    }
}

fn stack_item_span(item: &EvalStackTraceItem) -> Option<SpanId> {
    match *item {
        EvalStackTraceItem::Expr { span } => Some(span),
        EvalStackTraceItem::Call { span, .. } => span,
        EvalStackTraceItem::Variable { span, .. } => Some(span),
        EvalStackTraceItem::ArrayItem { span, .. } => span,
        EvalStackTraceItem::ObjectField { span, .. } => span,
        EvalStackTraceItem::Import { span } => Some(span),
        _ => None,
    }
}

fn variant_name(dbg: &str) -> &str {
    let end = dbg
        .find(|c: char| !c.is_ascii_alphanumeric() && c != '_')
        .unwrap_or(dbg.len());
    &dbg[..end]
}

fn fnv1a(data: &[u8]) -> u64 {
    let mut h: u64 = 0xcbf29ce484222325;
    for &b in data {
        h ^= b as u64;
        h = h.wrapping_mul(0x100000001b3);
    }
    h
}

fn spans_field(sources: &Sources, span_mgr: &SpanManager, spans: &[SpanId]) -> String {
    if spans.is_empty() {
        return "-".into();
    }
    let v: Vec<String> = spans.iter().map(|&s| sources.resolve(span_mgr, s)).collect();
    v.join(",")
}

fn load_error_record(sources: &Sources, span_mgr: &SpanManager, e: &LoadError) -> String {
    let (fam, dbg, spans) = match e {
        LoadError::Lex(e) => ("lex", format!("{e:?}"), lex_error_spans(e)),
        LoadError::Parse(e) => ("parse", format!("{e:?}"), parse_error_spans(e)),
        LoadError::Analyze(e) => ("analyze", format!("{e:?}"), analyze_error_spans(e)),
    };
    let bad = spans.iter().filter(|&&s| sources.is_bad(span_mgr, s)).count();
    let msg = match e {
        LoadError::Analyze(
            AnalyzeError::UnknownVariable { name, .. }
            | AnalyzeError::RepeatedLocalName { name, .. }
            | AnalyzeError::RepeatedFieldName { name, .. }
            | AnalyzeError::RepeatedParamName { name, .. },
        ) => hex_encode(name.as_bytes()),
        _ => "-".into(),
    };
    format!(
        "ERR fam={fam} kind={} msg={msg} spans={} badspans={bad} stack=0 dbg={}",
        variant_name(&dbg),
        spans_field(sources, span_mgr, &spans),
        hex_encode(dbg.as_bytes()),
    )
}

fn eval_error_record(sources: &Sources, span_mgr: &SpanManager, e: &EvalError) -> String {
    let dbg = format!("{:?}", e.kind);
    let spans = eval_kind_spans(&e.kind);
    let mut bad = spans.iter().filter(|&&s| sources.is_bad(span_mgr, s)).count();
    let mut stack_spans = Vec::new();
    for item in e.stack_trace.iter() {
        if let Some(s) = stack_item_span(item) {
            if sources.is_bad(span_mgr, s) {
                bad += 1;
            }
            stack_spans.push(s);
        }
    }
    let stack_dbg = format!("{:?}", e.stack_trace);
    let n = e.stack_trace.len();
    let mut sample = Vec::new();
    for (i, item) in e.stack_trace.iter().enumerate() {
        if i < 4 || i + 4 >= n {
            sample.push(hex_encode(format!("{item:?}").as_bytes()));
        }
    }
    let shown: Vec<SpanId> = if stack_spans.len() > 40 {
        let mut v = stack_spans[..20].to_vec();
        v.extend_from_slice(&stack_spans[stack_spans.len() - 20..]);
        v
    } else {
        stack_spans.clone()
    };
    let msg = match eval_kind_message(&e.kind) {
        Some(m) => hex_encode(m.as_bytes()),
        None => "-".into(),
    };
    format!(
        "ERR fam=eval kind={} msg={msg} spans={} badspans={bad} stack={n} stackhash={:016x} stackspans={} stacksample={} dbg={}",
        variant_name(&dbg),
        spans_field(sources, span_mgr, &spans),
        fnv1a(stack_dbg.as_bytes()),
        spans_field(sources, span_mgr, &shown),
        if sample.is_empty() {
            "-".to_string()
        } else {
            sample.join(",")
        },
        hex_encode(dbg.as_bytes()),
    )
}

// ---------------------------------------------------------------------------------------------
// Value walk (independent of the manifest code)

fn walk_value(v: &Value<'_>, depth: usize, out: &mut String, nonfinite: &mut bool) {
    if depth > 200 {
        out.push('D');
        return;
    }
    match v.kind() {
        ValueKind::Null => out.push('z'),
        ValueKind::Bool(true) => out.push('t'),
        ValueKind::Bool(false) => out.push('f'),
        ValueKind::Number(n) => {
            if !n.is_finite() {
                *nonfinite = true;
            }
            write!(out, "n{:016x}", n.to_bits()).unwrap();
        }
        ValueKind::String(s) => {
            write!(out, "s{}:", s.len()).unwrap();
            out.push_str(&hex_encode(s.as_bytes())[1..]);
        }
        ValueKind::Array(items) => {
            write!(out, "a{}:", items.len()).unwrap();
            for item in items.iter() {
                walk_value(item, depth + 1, out, nonfinite);
            }
        }
        ValueKind::Object(fields) => {
            write!(out, "o{}:", fields.len()).unwrap();
            for (name, item) in fields.iter() {
                let name = name.value();
                write!(out, "s{}:", name.len()).unwrap();
                out.push_str(&hex_encode(name.as_bytes())[1..]);
                walk_value(item, depth + 1, out, nonfinite);
            }
        }
        ValueKind::Function => out.push('F'),
    }
}

// ---------------------------------------------------------------------------------------------
// Callbacks for plain `Program` states

struct Cb<'p> {
    sources: Sources,
    traces: Vec<String>,
    imports: Vec<String>,
    vfiles: HashMap<String, Vec<u8>>,
    import_cache: HashMap<String, Thunk<'p>>,
}

impl<'p> Callbacks<'p> for Cb<'p> {
    fn import(
        &mut self,
        program: &mut Program<'p>,
        _from: SpanId,
        path: &str,
    ) -> Result<Thunk<'p>, ImportError> {
        self.imports.push(format!("import:{path}"));
        if let Some(t) = self.import_cache.get(path) {
            return Ok(t.clone());
        }
        let data = self.vfiles.get(path).ok_or(ImportError)?.clone();
        let (ctx, sid) = program.span_manager_mut().insert_source_context(data.len());
        self.sources.list.push((sid, path.to_string(), data.len()));
        match program.load_source(ctx, &data, true, path) {
            Ok(t) => {
                self.import_cache.insert(path.to_string(), t.clone());
                Ok(t)
            }
            Err(_) => Err(ImportError),
        }
    }

    fn import_str(
        &mut self,
        _program: &mut Program<'p>,
        _from: SpanId,
        path: &str,
    ) -> Result<String, ImportError> {
        self.imports.push(format!("importstr:{path}"));
        let data = self.vfiles.get(path).ok_or(ImportError)?;
        Ok(String::from_utf8_lossy(data).into_owned())
    }

    fn import_bin(
        &mut self,
        _program: &mut Program<'p>,
        _from: SpanId,
        path: &str,
    ) -> Result<Vec<u8>, ImportError> {
        self.imports.push(format!("importbin:{path}"));
        self.vfiles.get(path).cloned().ok_or(ImportError)
    }

    fn trace(&mut self, _program: &mut Program<'p>, message: &str, _stack: &[EvalStackTraceItem]) {
        self.traces.push(message.to_string());
    }

    fn native_call(
        &mut self,
        _program: &mut Program<'p>,
        name: InternedStr<'p>,
        args: &[Value<'p>],
    ) -> Result<Value<'p>, NativeError> {
        // "vid": identity on one argument, "vfail": always fails.
        match name.value() {
            "vid" => Ok(args[0].clone()),
            _ => Err(NativeError),
        }
    }
}

// ---------------------------------------------------------------------------------------------
// Program / Session states

enum Kind<'p> {
    Prog(Box<Program<'p>>, Box<Cb<'p>>),
    Sess(Box<Session<'p>>),
}

struct St<'p> {
    kind: Kind<'p>,
    thunks: HashMap<u32, Thunk<'p>>,
    values: HashMap<u32, Value<'p>>,
}

impl<'p> St<'p> {
    fn program_mut(&mut self) -> &mut Program<'p> {
        match &mut self.kind {
            Kind::Prog(p, _) => p,
            Kind::Sess(s) => s.program_mut(),
        }
    }

    fn take_side_effects(&mut self) -> String {
        match &mut self.kind {
            Kind::Prog(_, cb) => {
                let t: Vec<String> = cb.traces.drain(..).map(|m| hex_encode(m.as_bytes())).collect();
                let i: Vec<String> = cb.imports.drain(..).map(|m| hex_encode(m.as_bytes())).collect();
                format!(
                    " trace={} imports={}",
                    if t.is_empty() { "-".into() } else { t.join(",") },
                    if i.is_empty() { "-".into() } else { i.join(",") }
                )
            }
            Kind::Sess(_) => String::new(),
        }
    }
}

fn parse_gc_mode(s: &str) -> Option<VerifGcMode> {
    let parts: Vec<&str> = s.split(':').collect();
    match parts.as_slice() {
        ["default"] => Some(VerifGcMode::Default),
        ["never"] => Some(VerifGcMode::Never),
        ["every", n] => Some(VerifGcMode::Every(n.parse().ok()?)),
        ["sched", seed, period] => Some(VerifGcMode::Schedule {
            seed: seed.parse().ok()?,
            period: period.parse().ok()?,
        }),
        _ => None,
    }
}

fn arg_str(tok: Option<&&str>) -> Result<String, String> {
    let t = tok.ok_or("missing argument")?;
    let b = hex_decode(t).ok_or("bad hex")?;
    String::from_utf8(b).map_err(|_| "argument not utf-8".to_string())
}

fn arg_bytes(tok: Option<&&str>) -> Result<Vec<u8>, String> {
    let t = tok.ok_or("missing argument")?;
    hex_decode(t).ok_or_else(|| "bad hex".to_string())
}

fn arg_num<T: std::str::FromStr>(tok: Option<&&str>) -> Result<T, String> {
    tok.ok_or("missing argument")?
        .parse()
        .map_err(|_| "bad number".to_string())
}

/// Executes one operation on a state.  `Err` = harness-level error (bad
/// request), reported as `HERR`.
fn state_op<'p>(st: &mut St<'p>, toks: &[&str]) -> Result<String, String> {
    let op = toks[0];
    let a = &toks[1..];
    match op {
        "STACK" => {
            let n: usize = arg_num(a.first())?;
            st.program_mut().set_max_stack(n);
            Ok("OK".into())
        }
        "GCMODE" => {
            let m = parse_gc_mode(a.first().ok_or("missing mode")?).ok_or("bad mode")?;
            st.program_mut().verif_set_gc_mode(m);
            Ok("OK".into())
        }
        "MAXTRACE" => {
            let n: usize = arg_num(a.first())?;
            match &mut st.kind {
                Kind::Sess(s) => s.set_max_trace(n),
                _ => return Err("MAXTRACE needs a session".into()),
            }
            Ok("OK".into())
        }
        "JPATH" => {
            let p = arg_bytes(a.first())?;
            match &mut st.kind {
                Kind::Sess(s) => {
                    use std::os::unix::ffi::OsStringExt;
                    s.add_search_path(std::ffi::OsString::from_vec(p).into())
                }
                _ => return Err("JPATH needs a session".into()),
            }
            Ok("OK".into())
        }
        "VFILE" => {
            let path = arg_str(a.first())?;
            let data = arg_bytes(a.get(1))?;
            match &mut st.kind {
                Kind::Prog(_, cb) => {
                    cb.vfiles.insert(path, data);
                }
                _ => return Err("VFILE needs a program".into()),
            }
            Ok("OK".into())
        }
        "NATIVE" => {
            // registers natives "vid(x)" and "vfail(x)"
            let p = st.program_mut();
            let x = p.intern_str("x");
            let vid = p.intern_str("vid");
            let vfail = p.intern_str("vfail");
            p.register_native_func(vid, &[x]);
            p.register_native_func(vfail, &[x]);
            Ok("OK".into())
        }
        "STRTHUNK" => {
            let slot: u32 = arg_num(a.first())?;
            let s = arg_str(a.get(1))?;
            let t = st.program_mut().value_to_thunk(&Value::string(&s));
            st.thunks.insert(slot, t);
            Ok("OK".into())
        }
        "EXTVAR" => {
            // EXTVAR name thunk_slot
            let name = arg_str(a.first())?;
            let slot: u32 = arg_num(a.get(1))?;
            let Some(t) = st.thunks.get(&slot).cloned() else {
                return Ok("SKIP".into());
            };
            let p = st.program_mut();
            let name = p.intern_str(&name);
            p.add_ext_var(name, &t);
            Ok("OK".into())
        }
        "LOAD" => {
            // LOAD thunk_slot path source with_std
            let slot: u32 = arg_num(a.first())?;
            let path = arg_str(a.get(1))?;
            let src = arg_bytes(a.get(2))?;
            let with_std: u32 = arg_num(a.get(3))?;
            match &mut st.kind {
                Kind::Prog(p, cb) => {
                    let (ctx, sid) = p.span_manager_mut().insert_source_context(src.len());
                    cb.sources.list.push((sid, path.clone(), src.len()));
                    match p.load_source(ctx, &src, with_std != 0, &path) {
                        Ok(t) => {
                            st.thunks.insert(slot, t);
                            Ok(format!("OK src={}", cb.sources.list.len() - 1))
                        }
                        Err(e) => Ok(load_error_record(&cb.sources, p.span_manager(), &e)),
                    }
                }
                Kind::Sess(s) => match s.load_virt_file(&path, src) {
                    Some(t) => {
                        st.thunks.insert(slot, t);
                        Ok("OK".into())
                    }
                    None => Ok("ERR fam=load rendered=1".into()),
                },
            }
        }
        "LOADFILE" => {
            let slot: u32 = arg_num(a.first())?;
            let path = arg_bytes(a.get(1))?;
            match &mut st.kind {
                Kind::Sess(s) => {
                    use std::os::unix::ffi::OsStringExt;
                    let path: std::path::PathBuf = std::ffi::OsString::from_vec(path).into();
                    match s.load_real_file(&path) {
                        Some(t) => {
                            st.thunks.insert(slot, t);
                            Ok("OK".into())
                        }
                        None => Ok("ERR fam=load rendered=1".into()),
                    }
                }
                _ => Err("LOADFILE needs a session".into()),
            }
        }
        "EVAL" | "CALL" => {
            // EVAL thunk value [walk]
            // CALL thunk value walk npos t.. nnamed (name t)..
            let tslot: u32 = arg_num(a.first())?;
            let vslot: u32 = arg_num(a.get(1))?;
            let walk: u32 = if a.len() > 2 { arg_num(a.get(2))? } else { 0 };
            let Some(thunk) = st.thunks.get(&tslot).cloned() else {
                return Ok("SKIP".into());
            };
            let mut pos = Vec::new();
            let mut named = Vec::new();
            if op == "CALL" {
                let mut i = 3;
                let npos: usize = arg_num(a.get(i))?;
                i += 1;
                for _ in 0..npos {
                    let s: u32 = arg_num(a.get(i))?;
                    i += 1;
                    match st.thunks.get(&s) {
                        Some(t) => pos.push(t.clone()),
                        None => return Ok("SKIP".into()),
                    }
                }
                let nnamed: usize = arg_num(a.get(i))?;
                i += 1;
                for _ in 0..nnamed {
                    let name = arg_str(a.get(i))?;
                    let s: u32 = arg_num(a.get(i + 1))?;
                    i += 2;
                    let name = st.program_mut().intern_str(&name);
                    match st.thunks.get(&s) {
                        Some(t) => named.push((name, t.clone())),
                        None => return Ok("SKIP".into()),
                    }
                }
            }
            let result = match &mut st.kind {
                Kind::Prog(p, cb) => {
                    let r = if op == "CALL" {
                        p.eval_call(&thunk, &pos, &named, &mut **cb)
                    } else {
                        p.eval_value(&thunk, &mut **cb)
                    };
                    match r {
                        Ok(v) => Ok(v),
                        Err(e) => Err(eval_error_record(&cb.sources, p.span_manager(), &e)),
                    }
                }
                Kind::Sess(s) => {
                    let r = if op == "CALL" {
                        s.eval_call(&thunk, &pos, &named)
                    } else {
                        s.eval_value(&thunk)
                    };
                    r.ok_or_else(|| "ERR fam=eval rendered=1".to_string())
                }
            };
            match result {
                Ok(v) => {
                    let mut rec = String::from("OK");
                    if walk != 0 {
                        let mut w = String::new();
                        let mut nonfinite = false;
                        walk_value(&v, 0, &mut w, &mut nonfinite);
                        write!(rec, " nonfinite={} walk={}", nonfinite as u8, w).unwrap();
                    }
                    st.values.insert(vslot, v);
                    Ok(rec)
                }
                Err(rec) => Ok(rec),
            }
        }
        "MANI" => {
            // MANI value multiline
            let vslot: u32 = arg_num(a.first())?;
            let multi: u32 = arg_num(a.get(1))?;
            let Some(v) = st.values.get(&vslot).cloned() else {
                return Ok("SKIP".into());
            };
            match &mut st.kind {
                Kind::Prog(p, cb) => match p.manifest_json(&v, multi != 0) {
                    Ok(s) => Ok(format!("OK out={}", hex_encode(s.as_bytes()))),
                    Err(e) => Ok(eval_error_record(&cb.sources, p.span_manager(), &e)),
                },
                Kind::Sess(s) => match s.manifest_json(&v, multi != 0) {
                    Some(s) => Ok(format!("OK out={}", hex_encode(s.as_bytes()))),
                    None => Ok("ERR fam=eval rendered=1".into()),
                },
            }
        }
        "VTYPE" => {
            let vslot: u32 = arg_num(a.first())?;
            let Some(v) = st.values.get(&vslot) else {
                return Ok("SKIP".into());
            };
            let t = if v.is_null() {
                "null"
            } else if v.is_bool() {
                "boolean"
            } else if v.is_number() {
                "number"
            } else if v.is_string() {
                "string"
            } else if v.is_array() {
                "array"
            } else if v.is_object() {
                "object"
            } else {
                "function"
            };
            Ok(format!("OK type={t}"))
        }
        "THUNKOF" => {
            let vslot: u32 = arg_num(a.first())?;
            let tslot: u32 = arg_num(a.get(1))?;
            let Some(v) = st.values.get(&vslot).cloned() else {
                return Ok("SKIP".into());
            };
            let t = st.program_mut().value_to_thunk(&v);
            st.thunks.insert(tslot, t);
            Ok("OK".into())
        }
        "DROP" => {
            let which = *a.first().ok_or("missing argument")?;
            match which {
                "t" => {
                    let slot: u32 = arg_num(a.get(1))?;
                    st.thunks.remove(&slot);
                }
                "v" => {
                    let slot: u32 = arg_num(a.get(1))?;
                    st.values.remove(&slot);
                }
                "allv" => st.values.clear(),
                "all" => {
                    st.values.clear();
                    st.thunks.clear();
                    if let Kind::Prog(_, cb) = &mut st.kind {
                        cb.import_cache.clear();
                    }
                }
                _ => return Err("bad DROP".into()),
            }
            Ok("OK".into())
        }
        "GC" => {
            st.program_mut().gc();
            Ok("OK".into())
        }
        "COUNT" => {
            let p = st.program_mut();
            Ok(format!(
                "OK objs={} gcs={} steps={}",
                p.verif_num_objects(),
                p.verif_num_collections(),
                p.verif_num_steps()
            ))
        }
        _ => Err(format!("unknown op {op}")),
    }
}

struct Io<R: BufRead, W: Write> {
    input: R,
    out: W,
    line: String,
}

impl<R: BufRead, W: Write> Io<R, W> {
    fn next_line(&mut self) -> Option<Vec<String>> {
        self.line.clear();
        match self.input.read_line(&mut self.line) {
            Ok(0) | Err(_) => None,
            Ok(_) => Some(
                self.line
                    .split_ascii_whitespace()
                    .map(|s| s.to_string())
                    .collect(),
            ),
        }
    }
}

/// Runs the operations of one program/session state until `DEL` (or `END`,
/// which also ends the state).  Returns `true` if `END` was consumed.
fn run_state<R: BufRead, W: Write>(io: &mut Io<R, W>, head: &[String], idx: &mut usize) -> bool {
    let arena = Arena::new();
    let created = catch_unwind(AssertUnwindSafe(|| {
        if head[0] == "NEW" {
            let program = Program::new(&arena);
            let (sid, data) = program.get_stdlib_source();
            let cb = Cb {
                sources: Sources {
                    list: vec![(sid, "<stdlib>".into(), data.len())],
                },
                traces: Vec::new(),
                imports: Vec::new(),
                vfiles: HashMap::new(),
                import_cache: HashMap::new(),
            };
            Kind::Prog(Box::new(program), Box::new(cb))
        } else {
            let colour = head.get(1).map(|s| s == "1").unwrap_or(false);
            let mut session = Session::new(&arena);
            session.set_colored_output(colour);
            if let Some(mt) = head.get(2) {
                if let Ok(n) = mt.parse::<usize>() {
                    session.set_max_trace(n);
                }
            }
            Kind::Sess(Box::new(session))
        }
    }));
    let mut st = match created {
        Ok(kind) => Some(St {
            kind,
            thunks: HashMap::new(),
            values: HashMap::new(),
        }),
        Err(_) => None,
    };
    if st.is_some() {
        writeln!(io.out, "R {} OK", *idx).unwrap();
    } else {
        let (msg, loc) = take_last_panic();
        writeln!(
            io.out,
            "R {} PANIC msg={} loc={}",
            *idx,
            hex_encode(msg.as_bytes()),
            hex_encode(loc.as_bytes())
        )
        .unwrap();
    }
    *idx += 1;
    let is_sess = head[0] == "SESS";

    loop {
        let Some(toks) = io.next_line() else {
            return true;
        };
        if toks.is_empty() {
            continue;
        }
        let ended = toks[0] == "END";
        if toks[0] == "DEL" || ended {
            // dropping the state may itself panic; observe that too
            let r = catch_unwind(AssertUnwindSafe(|| drop(st.take())));
            if toks[0] == "DEL" {
                match r {
                    Ok(()) => writeln!(io.out, "R {} OK", *idx).unwrap(),
                    Err(_) => {
                        let (msg, loc) = take_last_panic();
                        writeln!(
                            io.out,
                            "R {} PANIC msg={} loc={}",
                            *idx,
                            hex_encode(msg.as_bytes()),
                            hex_encode(loc.as_bytes())
                        )
                        .unwrap();
                    }
                }
                *idx += 1;
            }
            return ended;
        }
        let toks_ref: Vec<&str> = toks.iter().map(|s| s.as_str()).collect();
        if is_sess {
            eprint!("\x1e{}\n", *idx);
        }
        let rec = match st.as_mut() {
            None => "SKIP".to_string(),
            Some(state) => {
                let r = catch_unwind(AssertUnwindSafe(|| {
                    let r = state_op(state, &toks_ref);
                    let side = state.take_side_effects();
                    (r, side)
                }));
                match r {
                    Ok((Ok(rec), side)) => format!("{rec}{side}"),
                    Ok((Err(msg), _)) => format!("HERR msg={}", hex_encode(msg.as_bytes())),
                    Err(_) => {
                        let (msg, loc) = take_last_panic();
                        // the state may be inconsistent now: abandon it
                        let _ = catch_unwind(AssertUnwindSafe(|| drop(st.take())));
                        st = None;
                        format!(
                            "PANIC msg={} loc={}",
                            hex_encode(msg.as_bytes()),
                            hex_encode(loc.as_bytes())
                        )
                    }
                }
            }
        };
        writeln!(io.out, "R {} {}", *idx, rec).unwrap();
        *idx += 1;
    }
}

// ---------------------------------------------------------------------------------------------
// Lexer monitor

/// Payloads above 1 MiB are reported as `#<len>:<crc32>` instead of their hex text.
fn payload(bytes: &[u8]) -> String {
    if bytes.len() > (1 << 20) {
        let mut table = [0u32; 256];
        for (i, slot) in table.iter_mut().enumerate() {
            let mut c = i as u32;
            for _ in 0..8 {
                c = if c & 1 != 0 { 0xEDB88320 ^ (c >> 1) } else { c >> 1 };
            }
            *slot = c;
        }
        let mut crc = 0xFFFF_FFFFu32;
        for &b in bytes {
            crc = table[((crc ^ u32::from(b)) & 0xFF) as usize] ^ (crc >> 8);
        }
        format!("#{}:{:08x}", bytes.len(), crc ^ 0xFFFF_FFFF)
    } else {
        hex_encode(bytes)
    }
}

fn token_record(span_mgr: &SpanManager, tok: &Token<'_, '_>, out: &mut String) {
    let (_, s, e) = span_mgr.get_span(tok.span);
    match tok.kind {
        TokenKind::EndOfFile => write!(out, "E:{s}:{e}").unwrap(),
        TokenKind::Whitespace => write!(out, "W:{s}:{e}").unwrap(),
        TokenKind::Comment => write!(out, "C:{s}:{e}").unwrap(),
        TokenKind::Simple(k) => write!(out, "S{k:?}:{s}:{e}").unwrap(),
        TokenKind::OtherOp(op) => write!(out, "O:{s}:{e}:{}", hex_encode(op.as_bytes())).unwrap(),
        TokenKind::Ident(id) => {
            write!(out, "I:{s}:{e}:{}", payload(id.value().as_bytes())).unwrap()
        }
        TokenKind::Number(n) => write!(
            out,
            "N:{s}:{e}:{}:{}",
            hex_encode(n.digits.as_bytes()),
            n.exp
        )
        .unwrap(),
        TokenKind::String(v) => write!(out, "Q:{s}:{e}:{}", payload(v.as_bytes())).unwrap(),
        TokenKind::TextBlock(v) => write!(out, "B:{s}:{e}:{}", payload(v.as_bytes())).unwrap(),
    }
}

struct Pre {
    count: usize,
    len: usize,
}

fn parse_pre(tok: Option<&&str>) -> Pre {
    // "count:len" dummy contexts registered before the real one
    if let Some(t) = tok {
        if let Some((c, l)) = t.split_once(':') {
            if let (Ok(count), Ok(len)) = (c.parse(), l.parse()) {
                return Pre { count, len };
            }
        }
    }
    Pre { count: 0, len: 0 }
}

fn lex_op(toks: &[&str]) -> Result<String, String> {
    let src = arg_bytes(toks.get(1))?;
    let pre = parse_pre(toks.get(2));
    let arena = Arena::new();
    let ast_arena = Arena::new();
    let interner = StrInterner::new();
    let mut span_mgr = SpanManager::new();
    let mut sources = Sources { list: Vec::new() };
    for i in 0..pre.count {
        let (_, sid) = span_mgr.insert_source_context(pre.len);
        sources.list.push((sid, format!("<pre{i}>"), pre.len));
    }
    let (ctx, sid) = span_mgr.insert_source_context(src.len());
    sources.list.push((sid, "<src>".into(), src.len()));
    let src_index = sources.list.len() - 1;

    let mut rec = format!("OK src={src_index}");
    for (label, with_ws) in [("full", true), ("filt", false)] {
        let lexer = Lexer::new(&arena, &ast_arena, &interner, &mut span_mgr, ctx, &src);
        match lexer.lex_to_eof(with_ws) {
            Ok(tokens) => {
                let mut s = String::new();
                for (i, t) in tokens.iter().enumerate() {
                    if i != 0 {
                        s.push(',');
                    }
                    token_record(&span_mgr, t, &mut s);
                    let (tctx, _, _) = span_mgr.get_span(t.span);
                    if tctx != ctx {
                        s.push_str(":WRONGCTX");
                    }
                }
                write!(rec, " {label}={s}").unwrap();
            }
            Err(e) => {
                let dbg = format!("{e:?}");
                let spans = lex_error_spans(&e);
                write!(
                    rec,
                    " {label}=ERR {label}kind={} {label}spans={} {label}dbg={}",
                    variant_name(&dbg),
                    spans_field(&sources, &span_mgr, &spans),
                    hex_encode(dbg.as_bytes())
                )
                .unwrap();
            }
        }
    }
    Ok(rec)
}

// ---------------------------------------------------------------------------------------------
// Parser monitor: AST dump as S-expression with node extents

struct Dumper<'a> {
    sm: &'a SpanManager,
    out: String,
}

impl Dumper<'_> {
    fn sp(&mut self, span: SpanId) {
        let (_, s, e) = self.sm.get_span(span);
        write!(self.out, "@{s}:{e}").unwrap();
    }

    fn ident(&mut self, id: &ast::Ident<'_>) {
        self.out.push_str("(id");
        self.sp(id.span);
        write!(self.out, " {})", hex_encode(id.value.value().as_bytes())).unwrap();
    }

    fn opt_expr(&mut self, e: Option<&ast::Expr<'_, '_>>) {
        match e {
            Some(e) => self.expr(e),
            None => self.out.push('_'),
        }
    }

    fn params(&mut self, params: &[ast::Param<'_, '_>], span: Option<SpanId>) {
        self.out.push_str("(params");
        if let Some(s) = span {
            self.sp(s);
        }
        for p in params {
            self.out.push_str(" (param ");
            self.ident(&p.name);
            self.out.push(' ');
            self.opt_expr(p.default_value.as_ref());
            self.out.push(')');
        }
        self.out.push(')');
    }

    fn bind(&mut self, b: &ast::Bind<'_, '_>) {
        self.out.push_str("(bind ");
        self.ident(&b.name);
        self.out.push(' ');
        match b.params {
            Some((params, span)) => self.params(params, Some(span)),
            None => self.out.push('_'),
        }
        self.out.push(' ');
        self.expr(&b.value);
        self.out.push(')');
    }

    fn assert(&mut self, a: &ast::Assert<'_, '_>) {
        self.out.push_str("(a");
        self.sp(a.span);
        self.out.push(' ');
        self.expr(&a.cond);
        self.out.push(' ');
        self.opt_expr(a.msg.as_ref());
        self.out.push(')');
    }

    fn vis(&mut self, v: ast::Visibility) {
        self.out.push_str(match v {
            ast::Visibility::Default => "1",
            ast::Visibility::Hidden => "2",
            ast::Visibility::ForceVisible => "3",
        });
    }

    fn field_name(&mut self, n: &ast::FieldName<'_, '_>) {
        match n {
            ast::FieldName::Ident(id) => self.ident(id),
            ast::FieldName::String(s, span) => {
                self.out.push_str("(sname");
                self.sp(*span);
                write!(self.out, " {})", hex_encode(s.value().as_bytes())).unwrap();
            }
            ast::FieldName::Expr(e, span) => {
                self.out.push_str("(ename");
                self.sp(*span);
                self.out.push(' ');
                self.expr(e);
                self.out.push(')');
            }
        }
    }

    fn comp_spec(&mut self, spec: &[ast::CompSpecPart<'_, '_>]) {
        self.out.push_str("(spec");
        for part in spec {
            match part {
                ast::CompSpecPart::For(f) => {
                    self.out.push_str(" (for ");
                    self.ident(&f.var);
                    self.out.push(' ');
                    self.expr(&f.inner);
                    self.out.push(')');
                }
                ast::CompSpecPart::If(i) => {
                    self.out.push_str(" (if ");
                    self.expr(&i.cond);
                    self.out.push(')');
                }
            }
        }
        self.out.push(')');
    }

    fn obj_inside(&mut self, inside: &ast::ObjInside<'_, '_>, span: SpanId) {
        match inside {
            ast::ObjInside::Members(members) => {
                self.out.push_str("(obj");
                self.sp(span);
                for m in members.iter() {
                    self.out.push(' ');
                    match m {
                        ast::Member::Local(l) => {
                            self.out.push_str("(mlocal ");
                            self.bind(&l.bind);
                            self.out.push(')');
                        }
                        ast::Member::Assert(a) => {
                            self.out.push_str("(massert ");
                            self.assert(a);
                            self.out.push(')');
                        }
                        ast::Member::Field(ast::Field::Value(name, plus, vis, e)) => {
                            self.out.push_str("(field ");
                            self.field_name(name);
                            self.out.push_str(if *plus { " 1 " } else { " 0 " });
                            self.vis(*vis);
                            self.out.push(' ');
                            self.expr(e);
                            self.out.push(')');
                        }
                        ast::Member::Field(ast::Field::Func(name, params, pspan, vis, e)) => {
                            self.out.push_str("(ffunc ");
                            self.field_name(name);
                            self.out.push(' ');
                            self.params(params, Some(*pspan));
                            self.out.push(' ');
                            self.vis(*vis);
                            self.out.push(' ');
                            self.expr(e);
                            self.out.push(')');
                        }
                    }
                }
                self.out.push(')');
            }
            ast::ObjInside::Comp {
                locals1,
                name,
                plus,
                body,
                locals2,
                comp_spec,
            } => {
                self.out.push_str("(objcomp");
                self.sp(span);
                self.out.push_str(" (l1");
                for l in locals1.iter() {
                    self.out.push(' ');
                    self.bind(&l.bind);
                }
                self.out.push_str(") ");
                self.expr(name);
                self.out.push_str(if *plus { " 1 " } else { " 0 " });
                self.expr(body);
                self.out.push_str(" (l2");
                for l in locals2.iter() {
                    self.out.push(' ');
                    self.bind(&l.bind);
                }
                self.out.push_str(") ");
                self.comp_spec(comp_spec);
                self.out.push(')');
            }
        }
    }

    fn node(&mut self, name: &str, span: SpanId) {
        self.out.push('(');
        self.out.push_str(name);
        self.sp(span);
    }

    fn expr(&mut self, e: &ast::Expr<'_, '_>) {
        use ast::ExprKind as K;
        match &e.kind {
            K::Null => {
                self.node("null", e.span);
            }
            K::Bool(true) => self.node("true", e.span),
            K::Bool(false) => self.node("false", e.span),
            K::SelfObj => self.node("self", e.span),
            K::Dollar => self.node("$", e.span),
            K::String(s) => {
                self.node("str", e.span);
                write!(self.out, " {}", payload(s.as_bytes())).unwrap();
            }
            K::TextBlock(s) => {
                self.node("tb", e.span);
                write!(self.out, " {}", payload(s.as_bytes())).unwrap();
            }
            K::Number(n) => {
                self.node("num", e.span);
                write!(self.out, " {} {}", n.digits, n.exp).unwrap();
            }
            K::Paren(inner) => {
                self.node("paren", e.span);
                self.out.push(' ');
                self.expr(inner);
            }
            K::Object(inside) => {
                self.obj_inside(inside, e.span);
                return;
            }
            K::Array(items) => {
                self.node("arr", e.span);
                for it in items.iter() {
                    self.out.push(' ');
                    self.expr(it);
                }
            }
            K::ArrayComp(body, spec) => {
                self.node("arrcomp", e.span);
                self.out.push(' ');
                self.expr(body);
                self.out.push(' ');
                self.comp_spec(spec);
            }
            K::Field(obj, id) => {
                self.node("dot", e.span);
                self.out.push(' ');
                self.expr(obj);
                self.out.push(' ');
                self.ident(id);
            }
            K::Index(obj, idx) => {
                self.node("index", e.span);
                self.out.push(' ');
                self.expr(obj);
                self.out.push(' ');
                self.expr(idx);
            }
            K::Slice(obj, a, b, c) => {
                self.node("slice", e.span);
                self.out.push(' ');
                self.expr(obj);
                for part in [a, b, c] {
                    self.out.push(' ');
                    self.opt_expr(part.as_deref());
                }
            }
            K::SuperField(sspan, id) => {
                self.node("superdot", e.span);
                self.out.push_str(" (super");
                self.sp(*sspan);
                self.out.push_str(") ");
                self.ident(id);
            }
            K::SuperIndex(sspan, idx) => {
                self.node("superidx", e.span);
                self.out.push_str(" (super");
                self.sp(*sspan);
                self.out.push_str(") ");
                self.expr(idx);
            }
            K::Call(callee, args, tailstrict) => {
                self.node("call", e.span);
                self.out.push(' ');
                self.expr(callee);
                self.out.push_str(if *tailstrict { " 1" } else { " 0" });
                for arg in args.iter() {
                    match arg {
                        ast::Arg::Positional(x) => {
                            self.out.push_str(" (pos ");
                            self.expr(x);
                            self.out.push(')');
                        }
                        ast::Arg::Named(id, x) => {
                            self.out.push_str(" (named ");
                            self.ident(id);
                            self.out.push(' ');
                            self.expr(x);
                            self.out.push(')');
                        }
                    }
                }
            }
            K::Ident(id) => {
                self.node("var", e.span);
                write!(self.out, " {}", hex_encode(id.value.value().as_bytes())).unwrap();
                let (_, s1, e1) = self.sm.get_span(id.span);
                let (_, s2, e2) = self.sm.get_span(e.span);
                if (s1, e1) != (s2, e2) {
                    self.out.push_str(" IDSPANDIFF");
                }
            }
            K::Local(binds, body) => {
                self.node("local", e.span);
                self.out.push_str(" (binds");
                for b in binds.iter() {
                    self.out.push(' ');
                    self.bind(b);
                }
                self.out.push_str(") ");
                self.expr(body);
            }
            K::If(c, t, f) => {
                self.node("if", e.span);
                self.out.push(' ');
                self.expr(c);
                self.out.push(' ');
                self.expr(t);
                self.out.push(' ');
                self.opt_expr(f.as_deref());
            }
            K::Binary(l, op, r) => {
                self.node("bin", e.span);
                write!(self.out, " {op:?} ").unwrap();
                self.expr(l);
                self.out.push(' ');
                self.expr(r);
            }
            K::Unary(op, x) => {
                self.node("un", e.span);
                write!(self.out, " {op:?} ").unwrap();
                self.expr(x);
            }
            K::ObjExt(obj, inside, ispan) => {
                self.node("objext", e.span);
                self.out.push(' ');
                self.expr(obj);
                self.out.push(' ');
                self.obj_inside(inside, *ispan);
            }
            K::Func(params, body) => {
                self.node("func", e.span);
                self.out.push(' ');
                self.params(params, None);
                self.out.push(' ');
                self.expr(body);
            }
            K::Assert(a, body) => {
                self.node("assert", e.span);
                self.out.push(' ');
                self.assert(a);
                self.out.push(' ');
                self.expr(body);
            }
            K::Import(x) => {
                self.node("import", e.span);
                self.out.push(' ');
                self.expr(x);
            }
            K::ImportStr(x) => {
                self.node("importstr", e.span);
                self.out.push(' ');
                self.expr(x);
            }
            K::ImportBin(x) => {
                self.node("importbin", e.span);
                self.out.push(' ');
                self.expr(x);
            }
            K::Error(x) => {
                self.node("error", e.span);
                self.out.push(' ');
                self.expr(x);
            }
            K::InSuper(x, sspan) => {
                self.node("insuper", e.span);
                self.out.push(' ');
                self.expr(x);
                self.out.push_str(" (super");
                self.sp(*sspan);
                self.out.push(')');
            }
        }
        self.out.push(')');
    }
}

fn parse_op(toks: &[&str]) -> Result<String, String> {
    let src = arg_bytes(toks.get(1))?;
    let pre = parse_pre(toks.get(2));
    let arena = Arena::new();
    let ast_arena = Arena::new();
    let interner = StrInterner::new();
    let mut span_mgr = SpanManager::new();
    let mut sources = Sources { list: Vec::new() };
    for i in 0..pre.count {
        let (_, sid) = span_mgr.insert_source_context(pre.len);
        sources.list.push((sid, format!("<pre{i}>"), pre.len));
    }
    let (ctx, sid) = span_mgr.insert_source_context(src.len());
    sources.list.push((sid, "<src>".into(), src.len()));

    let lexer = Lexer::new(&arena, &ast_arena, &interner, &mut span_mgr, ctx, &src);
    let tokens = match lexer.lex_to_eof(false) {
        Ok(t) => t,
        Err(e) => {
            return Ok(load_error_record(&sources, &span_mgr, &LoadError::Lex(e)));
        }
    };
    let mut tokrec = String::new();
    for (i, t) in tokens.iter().enumerate() {
        if i != 0 {
            tokrec.push(',');
        }
        let (_, s, e) = span_mgr.get_span(t.span);
        write!(tokrec, "{s}:{e}").unwrap();
    }
    let parser = Parser::new(&arena, &ast_arena, &interner, &mut span_mgr, tokens);
    match parser.parse_root_expr() {
        Ok(root) => {
            let mut d = Dumper {
                sm: &span_mgr,
                out: String::new(),
            };
            d.expr(&root);
            Ok(format!(
                "OK toks={tokrec} ast={}",
                hex_encode(d.out.as_bytes())
            ))
        }
        Err(e) => Ok(format!(
            "{} toks={tokrec}",
            load_error_record(&sources, &span_mgr, &LoadError::Parse(e))
        )),
    }
}

// ---------------------------------------------------------------------------------------------
// Span manager monitor (in-process: generation, reference model and comparison)

fn spanmon_op(toks: &[&str]) -> Result<String, String> {
    let seed: u64 = arg_num(toks.get(1))?;
    let nctx: usize = arg_num(toks.get(2))?;
    let nspans: usize = arg_num(toks.get(3))?;
    // mode 0: lengths up to 2^40 (most spans take the interned path); mode 1: small contexts
    // (inline path, many contexts); mode 2: straddling the 2^38 offset boundary
    let mode: u32 = if toks.len() > 4 { arg_num(toks.get(4))? } else { 0 };
    let mut rng = Rng(seed);
    let mut sm = SpanManager::new();
    let mut ctxs = Vec::new();
    let mut total: u128 = 0;
    let mut max_len = 0usize;
    for _ in 0..nctx {
        let len: usize = if mode == 1 {
            match rng.below(6) {
                0 => 0,
                1 => 1,
                2 => rng.below(100) as usize,
                3 => (1usize << 25) + rng.below(5) as usize - 2,
                _ => rng.below(100_000) as usize,
            }
        } else if mode == 2 {
            // a few big contexts so that the running offset crosses 2^38 in the middle of the list
            match rng.below(4) {
                0 => (1usize << 36) + rng.below(1000) as usize,
                1 => rng.below(1 << 20) as usize,
                2 => (1usize << 25) + rng.below(5) as usize - 2,
                _ => rng.below(1 << 35) as usize,
            }
        } else { match rng.below(10) {
            0 => 0,
            1 => 1,
            2 => rng.below(100) as usize,
            3 => (1usize << 25) + rng.below(5) as usize - 2,
            4 => (1usize << 38) + rng.below(5) as usize - 2,
            5 => (1usize << 40) - rng.below(3) as usize,
            6 => rng.below(1 << 30) as usize,
            7 => rng.below(1 << 39) as usize,
            _ => rng.below(100_000) as usize,
        } };
        // keep the sum of lengths below 2^62 so that the manager's u64 arithmetic
        // is not what is being tested
        if total + (len as u128) + 1 >= (1u128 << 62) {
            break;
        }
        total += len as u128 + 1;
        max_len = max_len.max(len);
        let (ctx, sid) = sm.insert_source_context(len);
        ctxs.push((ctx, sid, len));
    }
    if ctxs.is_empty() {
        return Err("no contexts".into());
    }
    let mut recorded: Vec<(SpanId, usize, usize, usize)> = Vec::new();
    let mut mismatches = 0u64;
    let mut first = String::new();
    let mut seen: HashMap<(usize, usize, usize), SpanId> = HashMap::new();
    let mut reinterned = 0u64;
    let mut big_len = 0u64;
    let mut big_off = 0u64;
    for _ in 0..nspans {
        let ci = rng.below(ctxs.len() as u64) as usize;
        let (ctx, _, len) = ctxs[ci];
        let (s, e) = match rng.below(8) {
            0 => (0, 0),
            1 => (len, len),
            2 => (0, len),
            3 => {
                let s = rng.below(len as u64 + 1) as usize;
                (s, s)
            }
            4 => {
                // span length around 2^25 (inline length limit)
                let l = ((1usize << 25) - 2 + rng.below(5) as usize).min(len);
                let s = rng.below((len - l) as u64 + 1) as usize;
                (s, s + l)
            }
            5 => {
                let e = len - rng.below((len as u64).min(4) + 1) as usize;
                let s = e - rng.below((e as u64).min(40) + 1) as usize;
                (s, e)
            }
            _ => {
                let s = rng.below(len as u64 + 1) as usize;
                let e = s + rng.below((len - s) as u64 + 1) as usize;
                (s, e)
            }
        };
        let id = sm.intern_span(ctx, s, e);
        if e - s >= (1 << 25) - 1 {
            big_len += 1;
        }
        if let Some(prev) = seen.get(&(ci, s, e)) {
            reinterned += 1;
            if *prev != id {
                mismatches += 1;
                if first.is_empty() {
                    first = format!("reintern ctx={ci} {s}..{e} gives a different id");
                }
            }
        } else {
            seen.insert((ci, s, e), id);
        }
        recorded.push((id, ci, s, e));
    }
    // read everything back after all registrations
    let mut interned = 0u64;
    for &(id, ci, s, e) in recorded.iter() {
        let dbg = format!("{id:?}");
        if dbg.starts_with("Interned") {
            interned += 1;
        }
        let (gctx, gs, ge) = sm.get_span(id);
        let SpanContext::Source(gsid) = *sm.get_context(gctx);
        let (ctx, sid, _) = ctxs[ci];
        if gctx != ctx || gs != s || ge != e || gsid != sid {
            mismatches += 1;
            if first.is_empty() {
                first = format!("ctx={ci} {s}..{e} read back as {gctx:?} {gs}..{ge} ({dbg})");
            }
        }
    }
    // offsets beyond the inline encoding
    let mut acc: u128 = 0;
    for &(_, _, len) in ctxs.iter() {
        if acc >= (1u128 << 38) {
            big_off += 1;
        }
        acc += len as u128 + 1;
    }
    Ok(format!(
        "OK ctxs={} spans={} interned={interned} reinterned={reinterned} biglen={big_len} ctx_beyond_inline={big_off} maxlen={max_len} mismatches={mismatches} first={}",
        ctxs.len(),
        recorded.len(),
        hex_encode(first.as_bytes())
    ))
}

// ---------------------------------------------------------------------------------------------

fn main() {
    install_quiet_panic_hook();
    let stdin = std::io::stdin();
    let stdout = std::io::stdout();
    let mut io = Io {
        input: stdin.lock(),
        out: std::io::BufWriter::with_capacity(1 << 16, stdout.lock()),
        line: String::new(),
    };
    let mut idx = 0usize;
    loop {
        let Some(toks) = io.next_line() else { break };
        if toks.is_empty() {
            continue;
        }
        match toks[0].as_str() {
            "BEGIN" => {
                idx = 0;
                writeln!(io.out, "CASE {}", toks.get(1).map(|s| s.as_str()).unwrap_or("-")).unwrap();
            }
            "END" => {
                writeln!(io.out, "DONE").unwrap();
                io.out.flush().unwrap();
            }
            "NEW" | "SESS" => {
                let ended = run_state(&mut io, &toks, &mut idx);
                if ended {
                    writeln!(io.out, "DONE").unwrap();
                    io.out.flush().unwrap();
                }
            }
            "LEX" | "PARSE" | "SPANMON" => {
                let toks_ref: Vec<&str> = toks.iter().map(|s| s.as_str()).collect();
                let r = catch_unwind(AssertUnwindSafe(|| match toks_ref[0] {
                    "LEX" => lex_op(&toks_ref),
                    "PARSE" => parse_op(&toks_ref),
                    _ => spanmon_op(&toks_ref),
                }));
                let rec = match r {
                    Ok(Ok(rec)) => rec,
                    Ok(Err(msg)) => format!("HERR msg={}", hex_encode(msg.as_bytes())),
                    Err(_) => {
                        let (msg, loc) = take_last_panic();
                        format!(
                            "PANIC msg={} loc={}",
                            hex_encode(msg.as_bytes()),
                            hex_encode(loc.as_bytes())
                        )
                    }
                };
                writeln!(io.out, "R {idx} {rec}").unwrap();
                idx += 1;
            }
            "QUIT" => break,
            other => {
                writeln!(
                    io.out,
                    "R {idx} HERR msg={}",
                    hex_encode(format!("unknown top-level op {other}").as_bytes())
                )
                .unwrap();
                idx += 1;
            }
        }
    }
    let _ = io.out.flush();
}

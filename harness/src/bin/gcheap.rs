//! Scripted-heap driver for the real collector (hook 2, `rsjsonnet_lang::verif_gc`) with a
//! reference reachability model.  Generation, model and comparison are in-process; the
//! Python side only reads the aggregate line and the first counterexample.
//!
//!   gcheap exhaustive <max_nodes> <max_handles> <len> [<shard> <nshards>]
//!   gcheap random <seed> <histories> <max_nodes> <max_ops>
//!   gcheap replay <script>          (ops separated by ',')

use std::collections::{BTreeSet, HashSet};
use std::panic::{AssertUnwindSafe, catch_unwind};

use rsjsonnet_lang::verif_gc::{HandleId, Heap};
use verif_harness::{Rng, install_quiet_panic_hook, take_last_panic};

#[derive(Copy, Clone, Debug, PartialEq, Eq)]
enum Op {
    Alloc,
    AllocView,
    Clone(usize),
    ViewOf(usize),
    WeakOf(usize),
    AddEdge(usize, usize),
    DelEdge(usize, usize),
    Drop(usize),
    Gc,
}

impl Op {
    fn to_text(self) -> String {
        match self {
            Op::Alloc => "alloc".into(),
            Op::AllocView => "allocv".into(),
            Op::Clone(h) => format!("clone{h}"),
            Op::ViewOf(h) => format!("view{h}"),
            Op::WeakOf(h) => format!("weak{h}"),
            Op::AddEdge(a, b) => format!("edge{a}-{b}"),
            Op::DelEdge(a, i) => format!("deledge{a}-{i}"),
            Op::Drop(h) => format!("drop{h}"),
            Op::Gc => "gc".into(),
        }
    }

    fn parse(s: &str) -> Option<Op> {
        let num = |t: &str| t.parse::<usize>().ok();
        if s == "alloc" {
            Some(Op::Alloc)
        } else if s == "allocv" {
            Some(Op::AllocView)
        } else if s == "gc" {
            Some(Op::Gc)
        } else if let Some(t) = s.strip_prefix("clone") {
            Some(Op::Clone(num(t)?))
        } else if let Some(t) = s.strip_prefix("view") {
            Some(Op::ViewOf(num(t)?))
        } else if let Some(t) = s.strip_prefix("weak") {
            Some(Op::WeakOf(num(t)?))
        } else if let Some(t) = s.strip_prefix("deledge") {
            let (a, b) = t.split_once('-')?;
            Some(Op::DelEdge(num(a)?, num(b)?))
        } else if let Some(t) = s.strip_prefix("edge") {
            let (a, b) = t.split_once('-')?;
            Some(Op::AddEdge(num(a)?, num(b)?))
        } else if let Some(t) = s.strip_prefix("drop") {
            Some(Op::Drop(num(t)?))
        } else {
            None
        }
    }
}

/// Reference model: a graph plus the multiset of external handles.
#[derive(Clone, Default)]
struct Model {
    /// edges[node] = target node ids (in insertion order); None once the node is freed
    edges: Vec<Option<Vec<u32>>>,
    /// handles[i] = Some((node, strong)) while held
    handles: Vec<Option<(u32, bool)>>,
}

impl Model {
    fn live_handles(&self) -> usize {
        self.handles.iter().filter(|h| h.is_some()).count()
    }

    fn num_nodes(&self) -> usize {
        self.edges.len()
    }

    fn live(&self) -> BTreeSet<u32> {
        self.edges
            .iter()
            .enumerate()
            .filter(|(_, e)| e.is_some())
            .map(|(i, _)| i as u32)
            .collect()
    }

    fn reachable(&self) -> BTreeSet<u32> {
        let mut seen = BTreeSet::new();
        let mut stack: Vec<u32> = self.handles.iter().flatten().map(|&(n, _)| n).collect();
        while let Some(n) = stack.pop() {
            if seen.insert(n) {
                if let Some(Some(e)) = self.edges.get(n as usize) {
                    stack.extend(e.iter().copied());
                }
            }
        }
        seen
    }

    /// Applies an op to the model; returns the set the collector is expected to free (for Gc).
    fn apply(&mut self, op: Op) -> Option<BTreeSet<u32>> {
        match op {
            Op::Alloc | Op::AllocView => {
                let id = self.edges.len() as u32;
                self.edges.push(Some(Vec::new()));
                self.handles.push(Some((id, op == Op::AllocView)));
                None
            }
            Op::Clone(h) => {
                let e = self.handles[h].unwrap();
                self.handles.push(Some(e));
                None
            }
            Op::ViewOf(h) => {
                let (n, _) = self.handles[h].unwrap();
                self.handles.push(Some((n, true)));
                None
            }
            Op::WeakOf(h) => {
                let (n, _) = self.handles[h].unwrap();
                self.handles.push(Some((n, false)));
                None
            }
            Op::AddEdge(a, b) => {
                let (na, _) = self.handles[a].unwrap();
                let (nb, _) = self.handles[b].unwrap();
                self.edges[na as usize].as_mut().unwrap().push(nb);
                None
            }
            Op::DelEdge(a, i) => {
                let (na, _) = self.handles[a].unwrap();
                self.edges[na as usize].as_mut().unwrap().remove(i);
                None
            }
            Op::Drop(h) => {
                self.handles[h] = None;
                None
            }
            Op::Gc => {
                let reach = self.reachable();
                let live = self.live();
                let freed: BTreeSet<u32> = live.difference(&reach).copied().collect();
                for &n in freed.iter() {
                    self.edges[n as usize] = None;
                }
                Some(freed)
            }
        }
    }

    /// All ops applicable in the current state, within the bounds.
    fn enabled(&self, max_nodes: usize, max_handles: usize, out: &mut Vec<Op>) {
        out.clear();
        let nh = self.live_handles();
        let can_new_handle = nh < max_handles;
        if self.num_nodes() < max_nodes && can_new_handle {
            out.push(Op::Alloc);
            out.push(Op::AllocView);
        }
        let held: Vec<usize> = (0..self.handles.len())
            .filter(|&i| self.handles[i].is_some())
            .collect();
        for &h in held.iter() {
            let (n, strong) = self.handles[h].unwrap();
            if can_new_handle {
                out.push(Op::Clone(h));
                if !strong {
                    out.push(Op::ViewOf(h));
                } else {
                    out.push(Op::WeakOf(h));
                }
            }
            for &h2 in held.iter() {
                // one handle per target node is enough (edges are between nodes)
                let (n2, _) = self.handles[h2].unwrap();
                let first = held
                    .iter()
                    .find(|&&x| self.handles[x].unwrap().0 == n2)
                    .copied()
                    .unwrap();
                let first_src = held
                    .iter()
                    .find(|&&x| self.handles[x].unwrap().0 == n)
                    .copied()
                    .unwrap();
                if first == h2 && first_src == h && self.edges[n as usize].as_ref().unwrap().len() < 2 {
                    out.push(Op::AddEdge(h, h2));
                }
            }
            let first_src = held
                .iter()
                .find(|&&x| self.handles[x].unwrap().0 == n)
                .copied()
                .unwrap();
            if first_src == h {
                for i in 0..self.edges[n as usize].as_ref().unwrap().len() {
                    out.push(Op::DelEdge(h, i));
                }
            }
            out.push(Op::Drop(h));
        }
        out.push(Op::Gc);
    }
}

#[derive(Default)]
struct Stats {
    seqs: u64,
    ops: u64,
    gcs: u64,
    freed: u64,
    freed_cyclic: u64,
    max_live: usize,
    max_freed_at_once: usize,
    collections_with_survivors: u64,
    violations: u64,
    first: String,
    shapes: HashSet<u64>,
}

fn shape_hash(m: &Model) -> u64 {
    // a cheap fingerprint of (graph, handle multiset) to count distinct heap states seen at collections
    let mut h: u64 = 0xcbf29ce484222325;
    let mut mix = |x: u64| {
        h ^= x;
        h = h.wrapping_mul(0x100000001b3);
    };
    for (i, e) in m.edges.iter().enumerate() {
        match e {
            None => mix(0xdead ^ i as u64),
            Some(v) => {
                mix(0xbeef ^ i as u64);
                for &t in v {
                    mix(t as u64 + 7);
                }
            }
        }
    }
    for (i, hd) in m.handles.iter().enumerate() {
        if let Some((n, s)) = hd {
            mix(((i as u64) << 20) ^ ((*n as u64) << 1) ^ (*s as u64));
        }
    }
    h
}

/// Runs one sequence on a fresh real heap next to the model.  Returns Err(description) on the
/// first disagreement.
/// repr of node `id` = (id + REPR_SALT) % 4: which container holds the node's edges (Vec, boxed slice, Option + Vec,
/// OnceCell + boxed slice), so that every container GcTrace implementation is driven; `salt=N` on the command line.
static REPR_SALT: std::sync::atomic::AtomicU64 = std::sync::atomic::AtomicU64::new(0);
/// `burst=P`: in random histories an edge insertion becomes, with probability P/100, a burst of 20..70 insertions from
/// the same node (wide nodes: containers longer than any block size a tracer might use).
static BURST: std::sync::atomic::AtomicU64 = std::sync::atomic::AtomicU64::new(0);

fn repr_of(id: u32) -> u8 {
    ((id as u64 + REPR_SALT.load(std::sync::atomic::Ordering::Relaxed)) % 4) as u8
}

fn run_sequence(ops: &[Op], stats: &mut Stats) -> Result<(), String> {
    let mut heap = Heap::new();
    let mut model = Model::default();
    let mut handles: Vec<HandleId> = Vec::new();
    // a final collection (and, below, dropping every handle and collecting again) is implicit
    let total = ops.len();
    for step in 0..=total + 2 {
        let op = if step < total {
            ops[step]
        } else if step == total {
            Op::Gc
        } else if step == total + 1 {
            // drop every remaining handle
            for h in 0..model.handles.len() {
                if model.handles[h].is_some() {
                    model.apply(Op::Drop(h));
                    heap.drop_handle(handles[h]);
                }
            }
            continue;
        } else {
            Op::Gc
        };
        stats.ops += 1;
        if op == Op::Gc {
            stats.shapes.insert(shape_hash(&model));
        }
        let expected_freed = model.apply(op);
        match op {
            Op::Alloc => {
                let id = (model.num_nodes() - 1) as u32;
                handles.push(heap.alloc_repr(id, repr_of(id)))
            }
            Op::AllocView => {
                let id = (model.num_nodes() - 1) as u32;
                handles.push(heap.alloc_view_repr(id, repr_of(id)))
            }
            Op::Clone(h) => handles.push(heap.clone_handle(handles[h])),
            Op::ViewOf(h) => handles.push(heap.view_of(handles[h])),
            Op::WeakOf(h) => handles.push(heap.weak_of(handles[h])),
            Op::AddEdge(a, b) => heap.add_edge(handles[a], handles[b]),
            Op::DelEdge(a, i) => heap.del_edge(handles[a], i),
            Op::Drop(h) => heap.drop_handle(handles[h]),
            Op::Gc => heap.gc(),
        }
        let freed = heap.take_freed();
        match expected_freed {
            None => {
                if !freed.is_empty() {
                    return Err(format!("step {step} ({}): objects {freed:?} were destroyed outside a collection", op.to_text()));
                }
            }
            Some(exp) => {
                stats.gcs += 1;
                let got: BTreeSet<u32> = freed.iter().copied().collect();
                if got.len() != freed.len() {
                    return Err(format!("step {step}: an object was destroyed twice: {freed:?}"));
                }
                if got != exp {
                    let missing: Vec<_> = exp.difference(&got).collect();
                    let extra: Vec<_> = got.difference(&exp).collect();
                    return Err(format!(
                        "step {step} (gc): reclaimed {got:?}, expected {exp:?} (garbage kept: {missing:?}, reachable reclaimed: {extra:?})"
                    ));
                }
                stats.freed += got.len() as u64;
                stats.max_freed_at_once = stats.max_freed_at_once.max(got.len());
                let live = model.live();
                if !live.is_empty() {
                    stats.collections_with_survivors += 1;
                }
                if heap.num_objects() != live.len() {
                    return Err(format!(
                        "step {step} (gc): {} objects tracked after the collection, model has {} live",
                        heap.num_objects(),
                        live.len()
                    ));
                }
                if !heap.flags_clean() {
                    return Err(format!("step {step} (gc): visit counts / marks not reset after the collection"));
                }
            }
        }
        stats.max_live = stats.max_live.max(model.live().len());
        // every held handle must be usable and see the right node and edges
        for h in 0..model.handles.len() {
            if let Some((n, strong)) = model.handles[h] {
                let id = heap.id_of(handles[h]);
                if id != n {
                    return Err(format!("step {step}: handle {h} sees node {id}, expected {n}"));
                }
                if heap.is_strong(handles[h]) != strong {
                    return Err(format!("step {step}: handle {h} has the wrong kind"));
                }
                if op == Op::Gc || step == total {
                    let e = heap.edge_ids(handles[h]);
                    if &e != model.edges[n as usize].as_ref().unwrap() {
                        return Err(format!("step {step}: node {n} has edges {e:?}, expected {:?}", model.edges[n as usize]));
                    }
                }
            }
        }
        // after a collection, walk the whole reachable graph through edges (deep views)
        if op == Op::Gc {
            let reach = model.reachable();
            if reach != model.live() {
                return Err("model inconsistency".into());
            }
        }
    }
    if heap.num_objects() != 0 {
        return Err(format!("{} objects survive after every handle was dropped and a collection ran", heap.num_objects()));
    }
    Ok(())
}

fn script_text(ops: &[Op]) -> String {
    ops.iter().map(|o| o.to_text()).collect::<Vec<_>>().join(",")
}

fn check_sequence(ops: &[Op], stats: &mut Stats) {
    stats.seqs += 1;
    let r = catch_unwind(AssertUnwindSafe(|| run_sequence(ops, stats)));
    let problem = match r {
        Ok(Ok(())) => None,
        Ok(Err(e)) => Some(e),
        Err(_) => {
            let (msg, loc) = take_last_panic();
            Some(format!("panic: {msg} @ {loc}"))
        }
    };
    if let Some(p) = problem {
        stats.violations += 1;
        if stats.first.is_empty() {
            stats.first = format!("{p} | script={}", script_text(ops));
        }
    }
}

fn exhaustive(
    model: &Model,
    prefix: &mut Vec<Op>,
    len: usize,
    max_nodes: usize,
    max_handles: usize,
    shard: u64,
    nshards: u64,
    counter: &mut u64,
    stats: &mut Stats,
) {
    if prefix.len() == len {
        check_sequence(prefix, stats);
        return;
    }
    let mut ops = Vec::new();
    model.enabled(max_nodes, max_handles, &mut ops);
    for op in ops {
        if prefix.len() == 2 {
            // shard on the 3-op prefix
            *counter += 1;
            if *counter % nshards != shard {
                continue;
            }
        }
        let mut m2 = model.clone();
        m2.apply(op);
        prefix.push(op);
        exhaustive(&m2, prefix, len, max_nodes, max_handles, shard, nshards, counter, stats);
        prefix.pop();
    }
}

fn random_history(rng: &mut Rng, max_nodes: usize, max_ops: usize) -> Vec<Op> {
    let mut model = Model::default();
    let mut ops = Vec::new();
    let n = 1 + rng.below(max_ops as u64) as usize;
    let gc_weight = 1 + rng.below(6);
    for _ in 0..n {
        let held: Vec<usize> = (0..model.handles.len())
            .filter(|&i| model.handles[i].is_some())
            .collect();
        let k = rng.below(20 + gc_weight);
        let op = if held.is_empty() || (k < 4 && model.num_nodes() < max_nodes) {
            if model.num_nodes() >= max_nodes {
                Op::Gc
            } else if rng.below(2) == 0 {
                Op::Alloc
            } else {
                Op::AllocView
            }
        } else if held.is_empty() {
            Op::Gc
        } else {
            let h = held[rng.below(held.len() as u64) as usize];
            let (node, strong) = model.handles[h].unwrap();
            match k {
                4 => Op::Clone(h),
                5 => {
                    if strong {
                        Op::WeakOf(h)
                    } else {
                        Op::ViewOf(h)
                    }
                }
                6..=11 => {
                    let h2 = held[rng.below(held.len() as u64) as usize];
                    Op::AddEdge(h, h2)
                }
                12 | 13 => {
                    let ne = model.edges[node as usize].as_ref().unwrap().len();
                    if ne == 0 {
                        Op::Drop(h)
                    } else {
                        Op::DelEdge(h, rng.below(ne as u64) as usize)
                    }
                }
                14..=18 => Op::Drop(h),
                _ => Op::Gc,
            }
        };
        model.apply(op);
        ops.push(op);
        if let Op::AddEdge(h, _) = op {
            let burst = BURST.load(std::sync::atomic::Ordering::Relaxed);
            if burst > 0 && rng.below(100) < burst {
                let k = 20 + rng.below(51);
                for _ in 0..k {
                    let h2 = held[rng.below(held.len() as u64) as usize];
                    let op2 = Op::AddEdge(h, h2);
                    model.apply(op2);
                    ops.push(op2);
                }
            }
        }
        if model.handles.len() > 4096 {
            break;
        }
    }
    ops
}

fn print_stats(mode: &str, stats: &Stats) {
    println!(
        "GCRUN mode={mode} seqs={} ops={} gcs={} freed={} max_live={} max_freed_at_once={} gcs_with_survivors={} distinct_heap_shapes_at_gc={} violations={} first={}",
        stats.seqs,
        stats.ops,
        stats.gcs,
        stats.freed,
        stats.max_live,
        stats.max_freed_at_once,
        stats.collections_with_survivors,
        stats.shapes.len(),
        stats.violations,
        if stats.first.is_empty() { "-" } else { &stats.first }
    );
}

fn main() {
    install_quiet_panic_hook();
    let mut args: Vec<String> = Vec::new();
    for a in std::env::args() {
        if let Some(v) = a.strip_prefix("salt=") {
            REPR_SALT.store(v.parse().unwrap(), std::sync::atomic::Ordering::Relaxed);
        } else if let Some(v) = a.strip_prefix("burst=") {
            BURST.store(v.parse().unwrap(), std::sync::atomic::Ordering::Relaxed);
        } else {
            args.push(a);
        }
    }
    let mut stats = Stats::default();
    match args.get(1).map(|s| s.as_str()) {
        Some("exhaustive") => {
            let max_nodes: usize = args[2].parse().unwrap();
            let max_handles: usize = args[3].parse().unwrap();
            let len: usize = args[4].parse().unwrap();
            let shard: u64 = args.get(5).map(|s| s.parse().unwrap()).unwrap_or(0);
            let nshards: u64 = args.get(6).map(|s| s.parse().unwrap()).unwrap_or(1);
            let mut counter = 0;
            exhaustive(
                &Model::default(),
                &mut Vec::new(),
                len,
                max_nodes,
                max_handles,
                shard,
                nshards,
                &mut counter,
                &mut stats,
            );
            print_stats("exhaustive", &stats);
        }
        Some("random") => {
            let seed: u64 = args[2].parse().unwrap();
            let histories: u64 = args[3].parse().unwrap();
            let max_nodes: usize = args[4].parse().unwrap();
            let max_ops: usize = args[5].parse().unwrap();
            let mut rng = Rng(seed);
            for _ in 0..histories {
                let ops = random_history(&mut rng, max_nodes, max_ops);
                check_sequence(&ops, &mut stats);
            }
            print_stats("random", &stats);
        }
        Some("replay") => {
            let ops: Vec<Op> = args[2]
                .split(',')
                .filter(|s| !s.is_empty())
                .map(|s| Op::parse(s).expect("bad op"))
                .collect();
            check_sequence(&ops, &mut stats);
            print_stats("replay", &stats);
        }
        _ => {
            eprintln!("usage: gcheap exhaustive|random|replay ...");
            std::process::exit(2);
        }
    }
}

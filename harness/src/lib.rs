//! Shared helpers of the verification harness binaries.

use std::cell::RefCell;

pub fn hex_encode(bytes: &[u8]) -> String {
    const DIGITS: &[u8; 16] = b"0123456789abcdef";
    let mut s = String::with_capacity(bytes.len() * 2 + 1);
    s.push('x');
    for &b in bytes {
        s.push(DIGITS[(b >> 4) as usize] as char);
        s.push(DIGITS[(b & 15) as usize] as char);
    }
    s
}

/// `x<hex>`, or a concatenation `x<hex>+r<count>:<hex>+x<hex>...` in which an `r` part repeats its bytes `count`
/// times (inputs of tens of MiB - one giant token or node - without sending them through the pipe).
pub fn hex_decode(s: &str) -> Option<Vec<u8>> {
    if s.contains('+') || s.starts_with('r') {
        let mut out = Vec::new();
        for part in s.split('+') {
            if let Some(rest) = part.strip_prefix('r') {
                let (count, hex) = rest.split_once(':')?;
                let count: usize = count.parse().ok()?;
                let unit = hex_decode(&format!("x{hex}"))?;
                if unit.len().checked_mul(count)? > (1usize << 31) {
                    return None;
                }
                out.reserve(unit.len() * count);
                for _ in 0..count {
                    out.extend_from_slice(&unit);
                }
            } else {
                out.extend_from_slice(&hex_decode(part)?);
            }
        }
        return Some(out);
    }
    let s = s.strip_prefix('x')?;
    let b = s.as_bytes();
    if b.len() % 2 != 0 {
        return None;
    }
    let mut out = Vec::with_capacity(b.len() / 2);
    for pair in b.chunks(2) {
        let hi = (pair[0] as char).to_digit(16)?;
        let lo = (pair[1] as char).to_digit(16)?;
        out.push((hi * 16 + lo) as u8);
    }
    Some(out)
}

thread_local! {
    static LAST_PANIC: RefCell<Option<(String, String)>> = const { RefCell::new(None) };
}

/// Installs a panic hook that records message and location and prints nothing.
pub fn install_quiet_panic_hook() {
    std::panic::set_hook(Box::new(|info| {
        let msg = if let Some(s) = info.payload().downcast_ref::<&str>() {
            (*s).to_string()
        } else if let Some(s) = info.payload().downcast_ref::<String>() {
            s.clone()
        } else {
            "<non-string panic payload>".to_string()
        };
        let loc = info
            .location()
            .map(|l| format!("{}:{}", l.file(), l.line()))
            .unwrap_or_else(|| "?".into());
        LAST_PANIC.with(|p| *p.borrow_mut() = Some((msg, loc)));
    }));
}

pub fn take_last_panic() -> (String, String) {
    LAST_PANIC
        .with(|p| p.borrow_mut().take())
        .unwrap_or_else(|| ("<unknown>".into(), "?".into()))
}

/// splitmix64, the only PRNG the harness uses (deterministic from the seed).
#[derive(Clone)]
pub struct Rng(pub u64);

impl Rng {
    pub fn next(&mut self) -> u64 {
        self.0 = self.0.wrapping_add(0x9E3779B97F4A7C15);
        let mut z = self.0;
        z = (z ^ (z >> 30)).wrapping_mul(0xBF58476D1CE4E5B9);
        z = (z ^ (z >> 27)).wrapping_mul(0x94D049BB133111EB);
        z ^ (z >> 31)
    }

    pub fn below(&mut self, n: u64) -> u64 {
        self.next() % n.max(1)
    }
}

"""Typed generator of closed core-Jsonnet programs (driver/genast.py tree forms).

Types: N number, B boolean, S string, A array of numbers, O object, F1 one-argument numeric function.
Scope entries are (name, type).  Inside an object body `self.f`, `super.f`, `f in super`, `$` are available;
fields a..d are numeric, s is a string field, o an object field, l an array field."""
import random

NUM_FIELDS = ["a", "b", "c", "d"]


def num(x):
    if isinstance(x, float) and x != int(x):
        return ("num", repr(x))
    return ("num", str(int(x)))


def s(x):
    return ("str", x, "dq")


def std(name):
    return ("dot", ("var", "std"), name)


def call(f, *args, **named):
    return ("call", f, [("pos", a) for a in args] + [("named", k, v) for k, v in named.items()], False)


class Gen:
    def __init__(self, rng, depth=3, obj_heavy=False, allow_remove_key=False):
        self.allow_remove_key = allow_remove_key
        self.r = rng
        self.vc = 0
        self.depth = depth
        self.obj_heavy = obj_heavy

    def fresh(self, prefix="v"):
        self.vc += 1
        return "%s%d" % (prefix, self.vc)

    def vars_of(self, sc, t):
        return [n for n, k in sc if k == t]

    # ---- numbers --------------------------------------------------------------------------
    def N(self, d, sc, inobj):
        r = self.r
        k = r.random()
        nv = self.vars_of(sc, "N")
        if d <= 0 or k < 0.2:
            if nv and r.random() < 0.55:
                return ("var", r.choice(nv))
            return num(r.choice([0, 1, 2, 3, 4, 5, 7, 10, 0.5, 2.5]))
        if inobj and k < 0.34:
            return ("dot", ("self",), r.choice(NUM_FIELDS))
        if inobj and k < 0.40:
            return ("superdot", r.choice(NUM_FIELDS))
        if inobj and k < 0.45:
            f = r.choice(NUM_FIELDS)
            return ("if", ("insuper", s(f)), ("superdot", f), self.N(d - 1, sc, inobj))
        if inobj and k < 0.48:
            return ("dot", ("dollar",), r.choice(NUM_FIELDS))
        if inobj and k < 0.50:
            return ("superidx", s(r.choice(NUM_FIELDS)))
        if k < 0.62:
            return ("bin", r.choice(["+", "+", "*", "-", "-", "%"]), self.N(d - 1, sc, inobj), self.N(d - 1, sc, inobj))
        if k < 0.64:
            return ("bin", "/", self.N(d - 1, sc, inobj), r.choice([num(2), num(4), self.N(d - 1, sc, inobj)]))
        if k < 0.67:
            a = ("bin", "%", self.N(d - 1, sc, inobj), num(16))
            b = ("bin", "%", self.N(d - 1, sc, inobj), num(16))
            op = r.choice(["&", "|", "^", "<<", ">>"])
            if op in ("<<", ">>"):
                b = num(r.randint(0, 4))
            return ("bin", op, self.floor(a), b if op in ("<<", ">>") else self.floor(b))
        if k < 0.69:
            return ("un", r.choice(["-", "+"]), self.N(d - 1, sc, inobj))
        if k < 0.73:
            v = self.fresh()
            return ("local", [("bind", v, None, self.N(d - 1, sc, inobj))], self.N(d - 1, sc + [(v, "N")], inobj))
        fv = self.vars_of(sc, "F1")
        if k < 0.77 and fv:
            return call(("var", r.choice(fv)), self.N(d - 1, sc, inobj))
        if k < 0.82:
            return self.func_call(d, sc, inobj)
        if k < 0.86:
            return ("if", self.B(d - 1, sc, inobj), self.N(d - 1, sc, inobj), self.N(d - 1, sc, inobj))
        if k < 0.89:
            return call(std("length"), r.choice([self.O, self.A, self.S])(d - 1, sc, inobj))
        if k < 0.93:
            arr = self.A(d - 1, sc, inobj)
            return ("index", arr, num(0)) if r.random() < 0.7 else ("index", arr, self.N(0, sc, inobj))
        if k < 0.97:
            return ("dot", self.O(d - 1, sc, inobj), r.choice(NUM_FIELDS))
        if k < 0.985:
            return ("assert", self.B(d - 1, sc, inobj), s("assert-%d" % r.randint(0, 9)) if r.random() < 0.7 else None,
                    self.N(d - 1, sc, inobj))
        return ("error", r.choice([s("err-%d" % r.randint(0, 9)), self.N(0, sc, inobj), self.S(0, sc, inobj)]))

    def floor(self, e):
        """An integer-valued expression from a numeric one (no std.floor in the model: multiply halves away)."""
        return ("bin", "-", ("bin", "*", e, num(2)), ("bin", "%", ("bin", "*", e, num(2)), num(1)))

    def func_call(self, d, sc, inobj):
        """A local function with positional / default / named parameters, called once or twice."""
        r = self.r
        f = self.fresh("f")
        p1, p2 = self.fresh("p"), self.fresh("p")
        form = r.randrange(6)
        if form == 5:
            # two defaulted parameters, the second default reads the first, body reads both; none/one/both omitted
            d1 = self.N(d - 1, sc, inobj)
            d2 = ("bin", "+", ("var", p1), self.N(0, sc, inobj))
            body = ("bin", "+", ("bin", "*", ("var", p1), ("var", p2)), ("var", p1))
            args = r.choice([[], [("pos", self.N(0, sc, inobj))], [("named", p2, self.N(0, sc, inobj))],
                             [("named", p1, self.N(0, sc, inobj))]])
            return ("local", [("bind", f, [("param", p1, d1), ("param", p2, d2)], body)], ("call", ("var", f), args, False))
        if form == 0:
            body = self.N(d - 1, sc + [(p1, "N")], inobj)
            fn = ("func", [("param", p1, None)], body)
            return ("local", [("bind", f, None, fn)], call(("var", f), self.N(d - 1, sc, inobj)))
        if form == 1:
            # local f(p1, p2=default referring to p1) = body
            default = self.N(d - 1, sc + [(p1, "N")], inobj)
            body = self.N(d - 1, sc + [(p1, "N"), (p2, "N")], inobj)
            args = [("pos", self.N(d - 1, sc, inobj))]
            if r.random() < 0.4:
                args.append(r.choice([("pos", self.N(d - 1, sc, inobj)), ("named", p2, self.N(d - 1, sc, inobj))]))
            return ("local", [("bind", f, [("param", p1, None), ("param", p2, default)], body)], ("call", ("var", f), args, False))
        if form == 2:
            # default argument referring to a LATER parameter, all named
            default = ("bin", "+", ("var", p2), num(1))
            body = ("bin", "+", ("var", p1), ("var", p2))
            args = [("named", p2, self.N(d - 1, sc, inobj))]
            if r.random() < 0.5:
                args.insert(0, ("named", p1, self.N(d - 1, sc, inobj)))
            r.shuffle(args)
            return ("local", [("bind", f, [("param", p1, default), ("param", p2, None)], body)], ("call", ("var", f), args, False))
        if form == 3:
            # higher order: pass a function
            g = self.fresh("g")
            fn = ("func", [("param", g, None), ("param", p1, None)], call(("var", g), call(("var", g), ("var", p1))))
            inner = ("func", [("param", p2, None)], self.N(d - 1, sc + [(p2, "N")], inobj))
            return ("local", [("bind", f, None, fn)], call(("var", f), inner, self.N(d - 1, sc, inobj)))
        # recursion with a bound
        body = ("if", ("bin", "<=", ("var", p1), num(0)), self.N(0, sc, inobj),
                ("bin", "+", call(("var", f), ("bin", "-", ("var", p1), num(1))), self.N(d - 2, sc + [(p1, "N")], inobj)))
        return ("local", [("bind", f, [("param", p1, None)], body)], call(("var", f), num(r.randint(0, 4))))

    # ---- booleans -----------------------------------------------------------------------------
    def B(self, d, sc, inobj):
        r = self.r
        k = r.random()
        bv = self.vars_of(sc, "B")
        if d <= 0 or k < 0.15:
            if bv and r.random() < 0.5:
                return ("var", r.choice(bv))
            return (r.choice(["true", "false"]),)
        if k < 0.45:
            return ("bin", r.choice(["<", "<=", "==", "!=", ">", ">="]), self.N(d - 1, sc, inobj), self.N(d - 1, sc, inobj))
        if k < 0.55:
            return ("bin", r.choice(["&&", "||"]), self.B(d - 1, sc, inobj), self.B(d - 1, sc, inobj))
        if k < 0.6:
            return ("un", "!", self.B(d - 1, sc, inobj))
        if k < 0.68 and inobj:
            return ("insuper", s(r.choice(NUM_FIELDS)))
        if k < 0.8:
            return ("bin", "in", s(r.choice(NUM_FIELDS + ["s", "o"])), self.O(d - 1, sc, inobj))
        if k < 0.86:
            return ("bin", r.choice(["==", "!=", "<"]), self.S(d - 1, sc, inobj), self.S(d - 1, sc, inobj))
        if k < 0.92:
            return ("bin", r.choice(["==", "!=", "<", "<="]), self.A(d - 1, sc, inobj), self.A(d - 1, sc, inobj))
        if k < 0.96:
            return ("bin", r.choice(["==", "!="]), self.O(d - 1, sc, inobj), self.O(d - 1, sc, inobj))
        return call(std(r.choice(["objectHas", "objectHasAll"])), self.O(d - 1, sc, inobj), s(r.choice(NUM_FIELDS)))

    # ---- strings ------------------------------------------------------------------------------
    def S(self, d, sc, inobj):
        r = self.r
        k = r.random()
        sv = self.vars_of(sc, "S")
        if d <= 0 or k < 0.35:
            if sv and r.random() < 0.5:
                return ("var", r.choice(sv))
            return ("str", r.choice(["", "a", "b", "xy", "\u00e9", "x y", "q\"", "\U0001f600", "h\u00e9llo w\u00f6rld", "\u65e5\u672c\u8a9e",
                                     "a\U0001f600b\u20ac"]), r.choice(["dq", "sq", "vdq"]))
        if k < 0.55:
            return ("bin", "+", self.S(d - 1, sc, inobj), self.S(d - 1, sc, inobj))
        if k < 0.68:
            # string + number / number + string coercion on integers
            n = ("bin", "*", self.floor(self.N(d - 1, sc, inobj)), num(1))
            return ("bin", "+", self.S(d - 1, sc, inobj), n) if r.random() < 0.5 else ("bin", "+", n, self.S(d - 1, sc, inobj))
        if k < 0.74:
            return ("bin", "+", self.S(d - 1, sc, inobj), r.choice([("true",), ("null",), self.A(d - 1, sc, inobj)]))
        if k < 0.8:
            def ix(lo, hi):
                v = r.randint(lo, hi)
                return num(v) if v >= 0 else ("un", "-", num(-v))
            return ("slice", self.S(d - 1, sc, inobj), ix(-3, 2) if r.random() < 0.6 else None,
                    ix(-3, 4) if r.random() < 0.6 else None, num(r.randint(1, 2)) if r.random() < 0.3 else None)
        if k < 0.86:
            return ("if", self.B(d - 1, sc, inobj), self.S(d - 1, sc, inobj), self.S(d - 1, sc, inobj))
        if k < 0.9 and inobj:
            return ("dot", ("self",), "s")
        if k < 0.95:
            return call(std("type"), r.choice([self.N, self.B, self.O, self.A, self.S])(d - 1, sc, inobj))
        return call(std("toString"), r.choice([self.B, self.A, self.S])(d - 1, sc, inobj))

    # ---- arrays -------------------------------------------------------------------------------
    def A(self, d, sc, inobj):
        r = self.r
        k = r.random()
        av = self.vars_of(sc, "A")
        if d <= 0 or k < 0.3:
            if av and r.random() < 0.5:
                return ("var", r.choice(av))
            return ("arr", [self.N(0, sc, inobj) for _ in range(r.randint(0, 3))])
        if k < 0.45:
            return ("arr", [self.N(d - 1, sc, inobj) for _ in range(r.randint(1, 3))])
        if k < 0.6:
            return ("bin", "+", self.A(d - 1, sc, inobj), self.A(d - 1, sc, inobj))
        if k < 0.8:
            x = self.fresh("x")
            specs = [("sfor", x, self.A(d - 1, sc, inobj))]
            sc2 = sc + [(x, "N")]
            if r.random() < 0.3:
                y = self.fresh("y")
                specs.append(("sfor", y, r.choice([self.A(d - 1, sc2, inobj), ("arr", [("var", x), num(1)])])))
                sc2 = sc2 + [(y, "N")]
            if r.random() < 0.4:
                specs.append(("sif", self.B(d - 1, sc2, inobj)))
            return ("arrcomp", self.N(d - 1, sc2, inobj), specs)
        if k < 0.88:
            def ix(lo, hi):
                v = r.randint(lo, hi)
                return num(v) if v >= 0 else ("un", "-", num(-v))
            return ("slice", self.A(d - 1, sc, inobj), ix(-3, 2) if r.random() < 0.6 else None,
                    ix(-3, 4) if r.random() < 0.6 else None, num(r.randint(1, 3)) if r.random() < 0.3 else None)
        if k < 0.92 and inobj:
            return ("dot", ("self",), "l")
        if k < 0.96:
            return ("if", self.B(d - 1, sc, inobj), self.A(d - 1, sc, inobj), self.A(d - 1, sc, inobj))
        v = self.fresh()
        return ("local", [("bind", v, None, self.A(d - 1, sc, inobj))], ("bin", "+", ("var", v), ("var", v)))

    # ---- objects ------------------------------------------------------------------------------
    def members(self, d, sc, with_asserts=True):
        r = self.r
        ms = []
        sc2 = list(sc)
        locals_ = []
        for _ in range(r.choice([0, 0, 0, 1, 2])):
            v = self.fresh("l")
            sc2 = sc2 + [(v, "N")]
            locals_.append(v)
        names = r.sample(NUM_FIELDS, r.randint(0, 3))
        for n in names:
            plus = r.random() < 0.2
            vis = r.choices([1, 2, 3], [70, 20, 10])[0]
            val = self.N(d - 1, sc2, True)
            kind = r.random()
            if kind < 0.12:
                name = ("ename", r.choice([s(n), ("bin", "+", s(""), s(n)),
                                          ("if", self.B(0, sc, False), s(n), ("null",))]))
            elif kind < 0.22:
                name = ("sname", n, r.choice(["dq", "sq"]))
            else:
                name = ("id", n)
            ms.append(("field", name, plus, vis, val))
        if r.random() < 0.15:
            ms.append(("field", ("id", "s"), r.random() < 0.2, r.choice([1, 1, 2]), self.S(d - 1, sc2, True)))
        if r.random() < 0.15:
            ms.append(("field", ("id", "l"), r.random() < 0.3, r.choice([1, 1, 2]), self.A(d - 1, sc2, True)))
        if r.random() < 0.12:
            ms.append(("field", ("id", "o"), r.random() < 0.3, r.choice([1, 1, 2]), self.O(d - 1, sc2, True)))
        if r.random() < 0.1:
            p = self.fresh("p")
            ms.append(("ffunc", ("id", "m"), [("param", p, None)], 2, self.N(d - 1, sc2 + [(p, "N")], True)))
        if with_asserts and r.random() < 0.2:
            cond_lhs = ("dot", ("self",), r.choice(NUM_FIELDS)) if r.random() < 0.6 else self.N(d - 1, sc2, True)
            ms.append(("massert", ("bin", r.choice([">=", ">=", "<", "!="]), cond_lhs, num(r.choice([0, 0, 1, 3]))),
                       s("inv-%d" % r.randint(0, 9)) if r.random() < 0.7 else None))
        for v in locals_:
            ms.append(("mlocal", ("bind", v, None, self.N(d - 1, sc2, True))))
        r.shuffle(ms)
        return ms

    def O(self, d, sc, inobj):
        r = self.r
        k = r.random()
        ov = self.vars_of(sc, "O")
        if d <= 0 or k < 0.3:
            if ov and r.random() < 0.4:
                return ("var", r.choice(ov))
            return ("obj", self.members(max(d, 1), sc))
        if k < 0.55:
            return ("bin", "+", self.O(d - 1, sc, inobj), self.O(d - 1, sc, inobj))
        if k < 0.63:
            return ("objext", self.O(d - 1, sc, inobj), ("obj", self.members(d - 1, sc)))
        if k < 0.71:
            v = self.fresh("o")
            return ("local", [("bind", v, None, self.O(d - 1, sc, inobj))], self.O(d - 1, sc + [(v, "O")], inobj))
        if k < 0.8:
            kk = self.fresh("k")
            names = ("arr", [s(x) for x in r.sample(NUM_FIELDS, r.randint(1, 3))])
            specs = [("sfor", kk, names)]
            if r.random() < 0.3:
                specs.append(("sif", ("bin", "!=", ("var", kk), s(r.choice(NUM_FIELDS)))))
            l1 = [("bind", self.fresh("l"), None, self.N(0, sc, False))] if r.random() < 0.3 else []
            sc2 = sc + [(kk, "S")] + [(b[1], "N") for b in l1]
            return ("objcomp", l1, ("var", kk), r.random() < 0.2, self.N(d - 1, sc2, True), [], specs)
        if k < 0.86:
            return ("if", self.B(d - 1, sc, inobj), self.O(d - 1, sc, inobj), self.O(d - 1, sc, inobj))
        if k < 0.885:
            # an object that is used (compared, so its fields are read and its asserts checked) and then extended
            v = self.fresh("o")
            first = self.O(d - 1, sc, inobj)
            ext = ("obj", self.members(d - 1, sc, with_asserts=False)) if r.random() < 0.7 else self.O(d - 1, sc, inobj)
            used = ("bin", "==", ("var", v), ("var", v)) if r.random() < 0.6 else \
                ("bin", ">=", call(std("length"), call(std("toString"), ("var", v))), num(0))
            if r.random() < 0.5:
                # both operands are used before they are combined
                v2 = self.fresh("o")
                used2 = ("bin", "==", ("var", v2), ("var", v2))
                return ("local", [("bind", v, None, first), ("bind", v2, None, ext)],
                        ("if", ("bin", "&&", used, used2), ("bin", "+", ("var", v), ("var", v2)), ("obj", [])))
            return ("local", [("bind", v, None, first)], ("if", used, ("bin", "+", ("var", v), ext), ("obj", [])))
        if k < 0.9 and self.allow_remove_key:
            return call(std("objectRemoveKey"), self.O(d - 1, sc, inobj), s(r.choice(NUM_FIELDS)))
        if k < 0.93 and inobj:
            return ("dot", ("self",), "o")
        return ("obj", self.members(d, sc))

    def top(self):
        r = self.r
        k = r.random()
        d = self.depth
        if self.obj_heavy or k < 0.4:
            o = self.O(d, [], False)
            kk = r.random()
            if kk < 0.55:
                return o
            if kk < 0.7:
                return ("dot", o, r.choice(NUM_FIELDS))
            if kk < 0.8:
                return call(std(r.choice(["objectFields", "objectFieldsAll"])), o)
            v = "top"
            return ("local", [("bind", v, None, o)],
                    ("arr", [call(std("length"), ("var", v)), call(std("objectHas"), ("var", v), s("a")),
                             call(std("objectHasAll"), ("var", v), s("a")), ("bin", "in", s("b"), ("var", v))]))
        if k < 0.6:
            return self.N(d + 1, [], False)
        if k < 0.7:
            return self.A(d, [], False)
        if k < 0.8:
            return self.S(d, [], False)
        if k < 0.88:
            return self.B(d, [], False)
        return ("arr", [self.N(d, [], False), self.S(d - 1, [], False), self.O(d - 1, [], False), self.B(d - 1, [], False)])

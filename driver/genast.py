"""Jsonnet abstract syntax (Python tuples), a printer that records every node's byte extent and chooses
parenthesisation / whitespace / comments, and a random syntactic tree generator.

Node forms (first element = kind):
  ('null',) ('true',) ('false',) ('self',) ('dollar',)
  ('num', text)                       text = literal as written
  ('str', value, style)               style in dq sq vdq vsq tb
  ('var', name)
  ('arr', [e..])            ('arrcomp', body, specs)
  ('obj', [member..])       ('objcomp', locals1, key, plus, value, locals2, specs)
  ('dot', e, name)          ('index', e, i)       ('slice', e, a, b, c)   (a/b/c may be None)
  ('superdot', name)        ('superidx', e)       ('insuper', e)
  ('call', f, [arg..], tailstrict)    arg = ('pos', e) | ('named', name, e)
  ('local', [bind..], body)           bind = ('bind', name, params|None, e)    params = [('param', name, default|None)..]
  ('if', c, t, f|None)      ('func', params, body)
  ('assert', c, msg|None, body)       ('error', e)  ('import', e) ('importstr', e) ('importbin', e)
  ('un', op, e)             ('bin', op, l, r)     ('objext', e, objnode)
  ('paren', e)
member: ('field', name, plus, vis, e) | ('ffunc', name, params, vis, e) | ('mlocal', bind) | ('massert', c, msg|None)
name:   ('id', s) | ('sname', s, style) | ('ename', e)
spec:   ('sfor', var, e) | ('sif', e)
"""
import random

BIN_PREC = {
    "*": 10, "/": 10, "%": 10,
    "+": 9, "-": 9,
    "<<": 8, ">>": 8,
    "<": 7, "<=": 7, ">": 7, ">=": 7, "in": 7,
    "==": 6, "!=": 6,
    "&": 5, "^": 4, "|": 3, "&&": 2, "||": 1,
}
BIN_NAMES = {"*": "Mul", "/": "Div", "%": "Rem", "+": "Add", "-": "Sub", "<<": "Shl", ">>": "Shr", "<": "Lt", "<=": "Le",
             ">": "Gt", ">=": "Ge", "in": "In", "==": "Eq", "!=": "Ne", "&": "BitwiseAnd", "^": "BitwiseXor",
             "|": "BitwiseOr", "&&": "LogicAnd", "||": "LogicOr"}
UN_NAMES = {"-": "Minus", "+": "Plus", "~": "BitwiseNot", "!": "LogicNot"}
GREEDY = {"local", "if", "func", "assert", "error", "import", "importstr", "importbin"}
PREC_UNARY = 11
PREC_POSTFIX = 12
PREC_PRIMARY = 13
KEYWORDS = {"assert", "else", "error", "false", "for", "function", "if", "import", "importstr", "importbin", "in",
            "local", "null", "tailstrict", "then", "self", "super", "true"}


def prec_of(node):
    k = node[0]
    if k == "bin":
        return BIN_PREC[node[1]]
    if k == "insuper":
        return BIN_PREC["in"]
    if k == "un":
        return PREC_UNARY
    if k in ("dot", "index", "slice", "call", "objext"):
        return PREC_POSTFIX
    if k in GREEDY:
        return 0
    return PREC_PRIMARY


def strip_parens(node):
    """The tree without ('paren', e) wrappers (recursively)."""
    if isinstance(node, tuple):
        if node and node[0] == "paren":
            return strip_parens(node[1])
        return tuple(strip_parens(x) for x in node)
    if isinstance(node, list):
        return [strip_parens(x) for x in node]
    return node


class Printer:
    """mode: 'min' minimal parentheses, 'full' every operand parenthesised, 'noisy' random redundant
    parentheses, whitespace and comments."""

    def __init__(self, mode="min", rng=None):
        self.mode = mode
        self.rng = rng or random.Random(0)
        self.out = []
        self.pos = 0
        self.ext = {}        # id(node) -> (start, end) for expression nodes and names
        self.nodes = {}      # id(node) -> node (keeps them alive)

    # --- low level -------------------------------------------------------------------------
    def w(self, s):
        if self.out and self.out[-1].endswith(b"$") and s[:1] and s[0] in ":&|^=<>*/%":
            # '$:' would lex as one operator
            self.out.append(b" ")
            self.pos += 1
        b = s.encode("utf-8")
        self.out.append(b)
        self.pos += len(b)

    def sp(self, required=False):
        """Optional (or required) whitespace."""
        if self.mode == "noisy":
            k = self.rng.random()
            if k < 0.15:
                self.w(self.rng.choice(["  ", "\n", "\t", " /* c */ ", " // c\n", "\n # c\n"]))
                return
            if k < 0.5 or required:
                self.w(" ")
            return
        if required:
            self.w(" ")

    def text(self):
        return b"".join(self.out)

    # --- literals ----------------------------------------------------------------------------
    def str_lit(self, value, style):
        if style == "dq" or style == "sq":
            d = '"' if style == "dq" else "'"
            out = [d]
            for ch in value:
                o = ord(ch)
                if ch == d or ch == "\\":
                    out.append("\\" + ch)
                elif ch == "\n":
                    out.append("\\n")
                elif o < 0x20 or o == 0x7F:
                    out.append("\\u%04x" % o)
                else:
                    out.append(ch)
            out.append(d)
            self.w("".join(out))
        elif style in ("vdq", "vsq"):
            d = '"' if style == "vdq" else "'"
            self.w("@" + d + value.replace(d, d + d) + d)
        else:
            # text block: value must end with \n and contain no blank-leading problems
            assert value.endswith("\n")
            self.w("|||\n")
            for line in value[:-1].split("\n"):
                self.w("\n" if line == "" else "  " + line + "\n")
            self.w("|||")

    def name(self, n):
        start = self.pos
        if n[0] == "id":
            self.w(n[1])
        elif n[0] == "sname":
            self.str_lit(n[1], n[2])
        else:
            self.w("[")
            self.sp()
            self.expr(n[1], True)
            self.sp()
            self.w("]")
        self.ext[id(n)] = (start, self.pos)
        self.nodes[id(n)] = n

    def ident(self, s, key=None):
        start = self.pos
        self.w(s)
        if key is not None:
            self.ext[key] = (start, self.pos)

    # --- structure ---------------------------------------------------------------------------
    def params(self, params):
        self.w("(")
        for i, (_, n, d) in enumerate(params):
            if i:
                self.w(",")
                self.sp(True)
            self.sp()
            self.w(n)
            if d is not None:
                self.sp()
                self.w("=")
                self.sp()
                self.expr(d, True)
        if params and self.mode == "noisy" and self.rng.random() < 0.2:
            self.w(",")
        self.sp()
        self.w(")")

    def bind(self, b):
        _, name, params, e = b
        self.w(name)
        if params is not None:
            self.params(params)
        self.sp(True)
        self.w("=")
        self.sp(True)
        self.expr(e, True)

    def specs(self, specs):
        for s in specs:
            self.sp(True)
            if s[0] == "sfor":
                self.w("for")
                self.sp(True)
                self.w(s[1])
                self.sp(True)
                self.w("in")
                self.sp(True)
                self.expr(s[2], True)
            else:
                self.w("if")
                self.sp(True)
                self.expr(s[1], True)

    def vis(self, plus, vis):
        self.w(("+" if plus else "") + {1: ":", 2: "::", 3: ":::"}[vis])

    def obj_inside(self, node):
        """node = ('obj', members) | ('objcomp', ...); prints including braces."""
        self.w("{")
        if node[0] == "obj":
            members = node[1]
            for i, m in enumerate(members):
                if i:
                    self.w(",")
                self.sp(bool(i))
                self.sp()
                self.member(m)
            if members and self.mode == "noisy" and self.rng.random() < 0.3:
                self.w(",")
            self.sp()
        else:
            _, l1, key, plus, val, l2, specs = node
            self.sp()
            for b in l1:
                self.w("local")
                self.sp(True)
                self.bind(b)
                self.w(",")
                self.sp(True)
            self.w("[")
            self.sp()
            self.expr(key, True)
            self.sp()
            self.w("]")
            self.vis(plus, 1)
            self.sp(True)
            self.expr(val, True)
            for b in l2:
                self.w(",")
                self.sp(True)
                self.w("local")
                self.sp(True)
                self.bind(b)
            if (l2 or True) and self.mode == "noisy" and self.rng.random() < 0.2:
                self.w(",")
            self.specs(specs)
            self.sp()
        self.w("}")

    def member(self, m):
        if m[0] == "field":
            _, n, plus, vis, e = m
            self.name(n)
            self.sp()
            self.vis(plus, vis)
            self.sp(True)
            self.expr(e, True)
        elif m[0] == "ffunc":
            _, n, params, vis, e = m
            self.name(n)
            self.params(params)
            self.sp()
            self.vis(False, vis)
            self.sp(True)
            self.expr(e, True)
        elif m[0] == "mlocal":
            self.w("local")
            self.sp(True)
            self.bind(m[1])
        else:
            self.w("assert")
            self.sp(True)
            self.expr(m[1], True)
            if m[2] is not None:
                self.sp()
                self.w(":")
                self.sp(True)
                self.expr(m[2], True)

    # --- expressions ---------------------------------------------------------------------------
    def operand(self, node, need, tail):
        """Prints an operand, parenthesised if needed (or wanted by the mode)."""
        want = need
        if self.mode == "full" and node[0] not in ("paren",):
            want = True
        if self.mode == "noisy" and self.rng.random() < 0.2:
            want = True
        if node[0] == "paren":
            want = False
        if want:
            start = self.pos
            self.w("(")
            self.sp()
            self.expr(node, True)
            self.sp()
            self.w(")")
            return (start, self.pos)
        self.expr(node, tail)
        return self.ext[id(node)]

    def expr(self, node, tail):
        """tail: nothing that could be swallowed follows this expression in its delimited context."""
        start = self.pos
        k = node[0]
        if k in ("null", "true", "false", "self"):
            self.w(k)
        elif k == "dollar":
            self.w("$")
        elif k == "num":
            self.w(node[1])
        elif k == "str":
            self.str_lit(node[1], node[2])
        elif k == "var":
            self.w(node[1])
        elif k == "paren":
            self.w("(")
            self.sp()
            self.expr(node[1], True)
            self.sp()
            self.w(")")
        elif k == "arr":
            self.w("[")
            for i, e in enumerate(node[1]):
                if i:
                    self.w(",")
                    self.sp(True)
                self.sp()
                self.expr(e, True)
            if node[1] and self.mode == "noisy" and self.rng.random() < 0.3:
                self.w(",")
            self.sp()
            self.w("]")
        elif k == "arrcomp":
            self.w("[")
            self.sp()
            self.expr(node[1], True)
            if self.mode == "noisy" and self.rng.random() < 0.2:
                self.w(",")
            self.specs(node[2])
            self.sp()
            self.w("]")
        elif k in ("obj", "objcomp"):
            self.obj_inside(node)
        elif k == "dot":
            base = node[1]
            need = prec_of(base) < PREC_POSTFIX or base[0] == "num"
            self.operand(base, need, False)
            self.sp()
            self.w(".")
            self.sp()
            self.ident(node[2], ("dotname", id(node)))
        elif k in ("index", "slice"):
            base = node[1]
            need = prec_of(base) < PREC_POSTFIX
            self.operand(base, need, False)
            self.sp()
            self.w("[")
            self.sp()
            if k == "index":
                self.expr(node[2], True)
            else:
                a, b, c = node[2], node[3], node[4]
                form3 = c is not None or (self.rng.random() < 0.3)
                if a is not None:
                    self.expr(a, True)
                    self.sp()
                # '::' lexes as one token; both spellings must parse alike
                if b is None and form3 and self.rng.random() < 0.7:
                    self.w("::")
                    self.sp()
                    if c is not None:
                        self.expr(c, True)
                else:
                    self.w(":")
                    self.sp()
                    if b is not None:
                        self.expr(b, True)
                        self.sp()
                    if form3:
                        if b is None:
                            self.w(" ")
                        self.w(":")
                        self.sp()
                        if c is not None:
                            self.expr(c, True)
            self.sp()
            self.w("]")
        elif k == "superdot":
            self.ident("super", ("super", id(node)))
            self.sp()
            self.w(".")
            self.sp()
            self.ident(node[1], ("dotname", id(node)))
        elif k == "superidx":
            self.ident("super", ("super", id(node)))
            self.sp()
            self.w("[")
            self.sp()
            self.expr(node[1], True)
            self.sp()
            self.w("]")
        elif k == "insuper":
            lhs = node[1]
            need = prec_of(lhs) < BIN_PREC["in"]
            self.operand(lhs, need, False)
            self.sp(True)
            self.w("in")
            self.sp(True)
            self.ident("super", ("super", id(node)))
        elif k == "call":
            base = node[1]
            need = prec_of(base) < PREC_POSTFIX
            self.operand(base, need, False)
            self.sp()
            self.w("(")
            for i, a in enumerate(node[2]):
                if i:
                    self.w(",")
                    self.sp(True)
                self.sp()
                if a[0] == "pos":
                    self.expr(a[1], True)
                else:
                    self.w(a[1])
                    self.sp()
                    self.w("=")
                    self.sp()
                    self.expr(a[2], True)
            if node[2] and self.mode == "noisy" and self.rng.random() < 0.2:
                self.w(",")
            self.sp()
            self.w(")")
            if node[3]:
                self.sp(True)
                self.w("tailstrict")
        elif k == "objext":
            base = node[1]
            need = prec_of(base) < PREC_POSTFIX
            self.operand(base, need, False)
            self.sp(True)
            s2 = self.pos
            self.obj_inside(node[2])
            self.ext[id(node[2])] = (s2, self.pos)
            self.nodes[id(node[2])] = node[2]
        elif k == "local":
            self.w("local")
            self.sp(True)
            for i, b in enumerate(node[1]):
                if i:
                    self.w(",")
                    self.sp(True)
                self.bind(b)
            self.sp()
            self.w(";")
            self.sp(True)
            self.expr(node[2], tail)
        elif k == "if":
            self.w("if")
            self.sp(True)
            self.expr(node[1], True)
            self.sp(True)
            self.w("then")
            self.sp(True)
            if node[3] is None:
                # a dangling else would attach here: the then-branch must not end in an else-less if
                self.expr(node[2], tail)
            else:
                self.expr(node[2], True)
                self.sp(True)
                self.w("else")
                self.sp(True)
                self.expr(node[3], tail)
        elif k == "func":
            self.w("function")
            self.params(node[1])
            self.sp(True)
            self.expr(node[2], tail)
        elif k == "assert":
            self.w("assert")
            self.sp(True)
            self.expr(node[1], True)
            if node[2] is not None:
                self.sp()
                self.w(":")
                self.sp(True)
                self.expr(node[2], True)
            self.sp()
            self.w(";")
            self.sp(True)
            self.expr(node[3], tail)
        elif k in ("error", "import", "importstr", "importbin"):
            self.w(k)
            self.sp(True)
            self.expr(node[1], tail)
        elif k == "un":
            self.w(node[1])
            e = node[2]
            if e[0] in GREEDY:
                need = not (tail and self.mode == "min")
            else:
                need = prec_of(e) < PREC_UNARY
            if e[0] in ("un", "dollar") or e[0] in GREEDY or self.mode == "noisy":
                # never glue operator characters ('- -x', not '--x')
                self.w(" ")
            self.operand(e, need, tail)
        elif k == "bin":
            op, l, r = node[1], node[2], node[3]
            p = BIN_PREC[op]
            need_l = prec_of(l) < p
            self.operand(l, need_l, False)
            self.sp(True)
            self.w(op)
            self.sp(True)
            if r[0] in GREEDY:
                need_r = not (tail and self.mode == "min")
            else:
                need_r = prec_of(r) <= p
            self.operand(r, need_r, tail)
        else:
            raise AssertionError(k)
        self.ext[id(node)] = (start, self.pos)
        self.nodes[id(node)] = node


def render(node, mode="min", rng=None):
    p = Printer(mode, rng)
    p.expr(node, True)
    return p.text(), p


# ------------------------------------------------------------------------------------------------
# random syntactic trees (no semantic constraints beyond the grammar)

NAMES = ["a", "b", "c", "x", "y", "f", "g", "obj", "arr", "_t", "v1", "std", "ifx", "local_", "e1"]
FIELD_NAMES = ["a", "b", "f", "x", "key", "_p", "e"]
STRS = ["", "a", "x y", "it's", 'q"q', "back\\slash", "line\nbreak", "\u00e9\u20ac", "\U0001f600", "tab\t", "%d", "$", "||| ", "@"]


class SynGen:
    def __init__(self, rng, budget=30):
        self.rng = rng
        self.budget = budget

    def name(self):
        return self.rng.choice(NAMES)

    def leaf(self):
        r = self.rng
        k = r.randrange(9)
        if k == 0:
            return ("null",)
        if k == 1:
            return (r.choice(["true", "false"]),)
        if k == 2:
            return ("num", r.choice(["0", "1", "2", "10", "0.5", "1e3", "1.5e-3", "1_000", "3E+2", "42", "7.25", "1e0"]))
        if k == 3:
            if r.random() < 0.15:
                return ("str", r.choice(["line\n", "a\nb\n", "x\n\ny\n", "q ||| r\n", "\u00e9\n"]), "tb")
            return ("str", r.choice(STRS), r.choice(["dq", "sq", "vdq", "vsq"]))
        if k == 4:
            return ("self",)
        if k == 5:
            return ("dollar",)
        if k == 6:
            return ("superdot", r.choice(FIELD_NAMES))
        return ("var", self.name())

    def params(self):
        r = self.rng
        names = r.sample(NAMES, r.randint(0, 3))
        return [("param", n, self.expr() if r.random() < 0.3 else None) for n in names]

    def bind(self):
        r = self.rng
        return ("bind", self.name(), self.params() if r.random() < 0.3 else None, self.expr())

    def fname(self):
        r = self.rng
        k = r.random()
        if k < 0.5:
            return ("id", r.choice(FIELD_NAMES))
        if k < 0.75:
            return ("sname", r.choice(["a b", "x", "", "k-1", "\u00e9"]), r.choice(["dq", "sq", "vdq"]))
        return ("ename", self.expr())

    def specs(self):
        r = self.rng
        out = [("sfor", self.name(), self.expr())]
        for _ in range(r.randint(0, 2)):
            out.append(("sfor", self.name(), self.expr()) if r.random() < 0.5 else ("sif", self.expr()))
        return out

    def obj(self):
        r = self.rng
        if r.random() < 0.2:
            # every list-valued element comes in lengths 0, 1, 2 and 3 (order inside a list is part of the tree)
            l1 = [self.bind() for _ in range(r.choice([0, 0, 1, 2, 3]))]
            l2 = [self.bind() for _ in range(r.choice([0, 0, 1, 2, 3]))]
            return ("objcomp", l1, self.expr(), r.random() < 0.15, self.expr(), l2, self.specs())
        members = []
        for _ in range(r.randint(0, 4)):
            k = r.random()
            if k < 0.55:
                members.append(("field", self.fname(), r.random() < 0.2, r.choice([1, 1, 2, 3]), self.expr()))
            elif k < 0.7:
                members.append(("ffunc", self.fname(), self.params(), r.choice([1, 2, 3]), self.expr()))
            elif k < 0.85:
                members.append(("mlocal", self.bind()))
            else:
                members.append(("massert", self.expr(), self.expr() if r.random() < 0.5 else None))
        return ("obj", members)

    def expr(self):
        r = self.rng
        self.budget -= 1
        if self.budget <= 0:
            return self.leaf()
        k = r.random()
        if k < 0.22:
            return self.leaf()
        if k < 0.42:
            return ("bin", r.choice(list(BIN_PREC)), self.expr(), self.expr())
        if k < 0.5:
            return ("un", r.choice("-+~!"), self.expr())
        if k < 0.56:
            return ("arr", [self.expr() for _ in range(r.randint(0, 3))])
        if k < 0.6:
            return ("arrcomp", self.expr(), self.specs())
        if k < 0.68:
            return self.obj()
        if k < 0.72:
            return ("dot", self.expr(), r.choice(FIELD_NAMES))
        if k < 0.76:
            return ("index", self.expr(), self.expr())
        if k < 0.8:
            a, b, c = (self.expr() if r.random() < 0.5 else None for _ in range(3))
            return ("slice", self.expr(), a, b, c)
        if k < 0.85:
            args = []
            named = False
            for _ in range(r.randint(0, 3)):
                if named or r.random() < 0.3:
                    named = True
                    args.append(("named", self.name(), self.expr()))
                else:
                    args.append(("pos", self.expr()))
            return ("call", self.expr(), args, r.random() < 0.15)
        if k < 0.88:
            return ("objext", self.expr(), self.obj())
        if k < 0.9:
            return r.choice([("superidx", self.expr()), ("insuper", self.expr())])
        if k < 0.93:
            return ("local", [self.bind() for _ in range(r.choice([1, 1, 2, 3, 4]))], self.expr())
        if k < 0.96:
            return ("if", self.expr(), self.expr(), self.expr() if r.random() < 0.6 else None)
        if k < 0.97:
            return ("func", self.params(), self.expr())
        if k < 0.98:
            return ("assert", self.expr(), self.expr() if r.random() < 0.5 else None, self.expr())
        if k < 0.99:
            return ("error", self.expr())
        return (r.choice(["import", "importstr", "importbin"]), ("str", r.choice(["a.libsonnet", "x/y.txt"]), "dq"))


def dangling_else_safe(node):
    """An else-less `if` must not be followed by `else` of an enclosing if: the printer handles it by
    treating the then-branch of an if-with-else as non-tail, which forces parentheses around greedy forms only
    inside operands; an else-less if directly as then-branch needs explicit parentheses."""
    if isinstance(node, tuple):
        if node and node[0] == "if" and node[3] is not None and ends_with_open_if(node[2]):
            node = ("if", node[1], ("paren", node[2]), node[3])
        return tuple(dangling_else_safe(x) for x in node)
    if isinstance(node, list):
        return [dangling_else_safe(x) for x in node]
    return node


def ends_with_open_if(node):
    """Whether the printed form of node can end with an else-less if (rightmost greedy chain)."""
    k = node[0]
    if k == "if":
        return node[3] is None or ends_with_open_if(node[3])
    if k in ("local",):
        return ends_with_open_if(node[2])
    if k == "func":
        return ends_with_open_if(node[2])
    if k == "assert":
        return ends_with_open_if(node[3])
    if k in ("error", "import", "importstr", "importbin"):
        return ends_with_open_if(node[1])
    if k == "bin":
        return ends_with_open_if(node[3])
    if k == "un":
        return ends_with_open_if(node[2])
    return False


# ------------------------------------------------------------------------------------------------
# generic rebuild: apply f(child_expr, role) to every direct expression child of a node
# roles: 'operand', 'bind' (value of a local/object-local binding), 'elem' (array element), 'arg' (call argument),
#        'fieldval', 'default' (parameter default), 'body' (function/local/assert/if bodies and conditions),
#        'fname' (computed field name), 'compval' (comprehension element/value), 'spec' (for/if spec expression)

def map_children(node, f):
    k = node[0]

    def params(ps):
        return [("param", p[1], None if p[2] is None else f(p[2], "default")) for p in ps]

    def bind(b, role="bind"):
        _, name, ps, e = b
        if ps is None:
            return ("bind", name, None, f(e, role))
        return ("bind", name, params(ps), f(e, "body"))

    def specs(ss):
        return [("sfor", s[1], f(s[2], "spec")) if s[0] == "sfor" else ("sif", f(s[1], "spec")) for s in ss]

    def fname(n):
        return ("ename", f(n[1], "fname")) if n[0] == "ename" else n

    def obj(o):
        if o[0] == "obj":
            ms = []
            for m in o[1]:
                if m[0] == "field":
                    ms.append(("field", fname(m[1]), m[2], m[3], f(m[4], "fieldval")))
                elif m[0] == "ffunc":
                    ms.append(("ffunc", fname(m[1]), params(m[2]), m[3], f(m[4], "body")))
                elif m[0] == "mlocal":
                    ms.append(("mlocal", bind(m[1])))
                else:
                    ms.append(("massert", f(m[1], "body"), None if m[2] is None else f(m[2], "body")))
            return ("obj", ms)
        _, l1, key, plus, val, l2, ss = o
        return ("objcomp", [bind(b) for b in l1], f(key, "fname"), plus, f(val, "compval"), [bind(b) for b in l2], specs(ss))
    if k in ("null", "true", "false", "self", "dollar", "num", "str", "var", "superdot"):
        return node
    if k == "paren":
        return ("paren", f(node[1], "operand"))
    if k == "arr":
        return ("arr", [f(e, "elem") for e in node[1]])
    if k == "arrcomp":
        return ("arrcomp", f(node[1], "compval"), specs(node[2]))
    if k in ("obj", "objcomp"):
        return obj(node)
    if k == "dot":
        return ("dot", f(node[1], "operand"), node[2])
    if k == "index":
        return ("index", f(node[1], "operand"), f(node[2], "operand"))
    if k == "slice":
        return ("slice", f(node[1], "operand")) + tuple(None if p is None else f(p, "operand") for p in node[2:5])
    if k in ("superidx", "insuper"):
        return (k, f(node[1], "operand"))
    if k == "call":
        args = [("pos", f(a[1], "arg")) if a[0] == "pos" else ("named", a[1], f(a[2], "arg")) for a in node[2]]
        return ("call", f(node[1], "operand"), args, node[3])
    if k == "local":
        return ("local", [bind(b) for b in node[1]], f(node[2], "body"))
    if k == "if":
        return ("if", f(node[1], "body"), f(node[2], "body"), None if node[3] is None else f(node[3], "body"))
    if k == "func":
        return ("func", params(node[1]), f(node[2], "body"))
    if k == "assert":
        return ("assert", f(node[1], "body"), None if node[2] is None else f(node[2], "body"), f(node[3], "body"))
    if k in ("error", "import", "importstr", "importbin"):
        return (k, f(node[1], "body"))
    if k == "un":
        return ("un", node[1], f(node[2], "operand"))
    if k == "bin":
        return ("bin", node[1], f(node[2], "operand"), f(node[3], "operand"))
    if k == "objext":
        return ("objext", f(node[1], "operand"), obj(node[2]))
    raise AssertionError(k)


def mentions(node, kinds):
    """Whether any node of the given kinds occurs anywhere inside node."""
    found = []

    def f(child, role):
        if not found:
            if child[0] in kinds:
                found.append(1)
            else:
                map_children(child, f)
        return child
    if node[0] in kinds:
        return True
    map_children(node, f)
    return bool(found)

"""C10 - recursion depth is bounded by the configured limit and fails gracefully."""
import os
import random
import re
import time

import common
from common import Agg, Crashed, Outcome, Server, run_lines

PROP = "C10"


def tower(d, kind="arr"):
    if kind == "mixed":
        return "std.foldl(function(a, i) if i %% 2 == 0 then [a] else {a: a}, std.range(1, %d), {})" % d
    if kind == "arr":
        return "std.foldl(function(a, i) [a], std.range(1, %d), [])" % d
    return "std.foldl(function(a, i) {a: a}, std.range(1, %d), {})" % d


# shape -> (source(d), expected value as JSON text or None (any value), frames per level >= 1?)
SHAPES = {
    "direct_fn": (lambda d: "local f(n) = if n == 0 then 0 else 1 + f(n - 1); f(%d)" % d, lambda d: str(d), True),
    "accumulating_fn": (lambda d: "local f(n, acc) = if n == 0 then acc else f(n - 1, acc + 1); f(%d, 0)" % d, lambda d: str(d), True),
    "mutual_fn": (lambda d: "local f(n) = if n == 0 then 0 else g(n - 1) + 1, g(n) = if n == 0 then 0 else f(n - 1) + 1; f(%d)" % d,
                  lambda d: str(d), True),
    "object_method": (lambda d: "local o = {f(n):: if n == 0 then 0 else 1 + self.f(n - 1)}; o.f(%d)" % d, lambda d: str(d), True),
    "self_chain": (lambda d: "local mk(n) = if n == 0 then {v: 0} else {p:: mk(n - 1), v: self.p.v + 1}; mk(%d).v" % d,
                   lambda d: str(d), True),
    "super_chain": (lambda d: "std.foldl(function(o, i) o {v: super.v + 1}, std.range(1, %d), {v: 0}).v" % d, lambda d: str(d), True),
    "array_tower_manifest": (lambda d: tower(d), None, True),
    "object_tower_manifest": (lambda d: tower(d, "obj"), None, True),
    "deep_equals": (lambda d: "local t = %s, u = %s; t == u" % (tower(d), tower(d)), lambda d: "true", True),
    "deep_less": (lambda d: "local t = %s, u = %s; t < u" % (tower(d), tower(d)), lambda d: "false", True),
    "deep_toString": (lambda d: "std.length(std.toString(%s))" % tower(d), lambda d: str(2 * d + 3), True),
    "deep_manifestJsonEx": (lambda d: "std.length(std.manifestJsonEx(%s, '')) > 0" % tower(d, "obj"), lambda d: "true", True),
    "deep_manifestPython": (lambda d: "std.length(std.manifestPython(%s)) > 0" % tower(d), lambda d: "true", True),
    "deep_manifestYamlDoc": (lambda d: "std.length(std.manifestYamlDoc(%s)) > 0" % tower(d, "obj"), lambda d: "true", True),
    "deep_manifestTomlEx": (lambda d: "std.length(std.manifestTomlEx({t: %s}, '')) > 0" % tower(d, "obj"), lambda d: "true", True),
    "deep_prune": (lambda d: "std.prune({t: %s, k: 1})" % tower(d, "obj"), lambda d: '{"k": 1}', False),
    "deep_mergePatch": (lambda d: "std.length(std.toString(std.mergePatch(%s, %s))) > 0" % (tower(d, "obj"), tower(d, "obj")),
                        lambda d: "true", False),
    "deep_flattenDeepArray": (lambda d: "std.flattenDeepArray([%s, 1])" % tower(d), lambda d: "[1]", False),
    "deep_deepJoin": (lambda d: "std.deepJoin(std.foldl(function(a, i) [a], std.range(1, %d), 'x'))" % d, lambda d: '"x"', False),
    "thunk_chain": (lambda d: "local a0 = 0" + "".join(", a%d = a%d + 1" % (i, i - 1) for i in range(1, min(d, 3000) + 1)) +
                    "; a%d" % min(d, 3000), lambda d: str(min(d, 3000)), True),
    "lazy_array_chain": (lambda d: "local a = std.makeArray(%d, function(i) if i == 0 then 0 else a[i - 1] + 1); a[%d]" % (d + 1, d),
                         lambda d: str(d), True),
    "foldl_deferred_sum": (lambda d: "std.foldl(function(acc, i) {v: acc.v + 1}, std.range(1, %d), {v: 0}).v" % d, lambda d: str(d), True),
    "string_concat_chain": (lambda d: "local f(n) = if n == 0 then '' else f(n - 1) + 'x'; std.length(f(%d))" % d, lambda d: str(d), True),
    "format_nested": (lambda d: "local f(n) = if n == 0 then 'x' else '%%s' %% [f(n - 1)]; f(%d)" % d, lambda d: '"x"', True),
    "sort_key_recursion": (lambda d: "local f(n) = if n == 0 then 0 else 1 + f(n - 1); std.sort([3, 1, 2], function(x) f(%d) + x)" % d,
                           lambda d: "[1, 2, 3]", True),
    "comprehension_recursion": (lambda d: "local f(n) = if n == 0 then [0] else [x + 1 for x in f(n - 1)]; f(%d)[0]" % d,
                                lambda d: str(d), True),
    "assert_recursion": (lambda d: "local f(n) = assert n >= 0 : 'neg'; if n == 0 then 0 else 1 + f(n - 1); f(%d)" % d,
                         lambda d: str(d), True),
    "default_arg_recursion": (lambda d: "local f(n, m=if n == 0 then 0 else 1 + f(n - 1)) = m; f(%d)" % d, lambda d: str(d), True),
}

# recursion that passes through the callback of a higher-order builtin, for the first and for the last element of the
# array the builtin walks: every level must be charged whatever element the callback is working on
def _add_callback_shapes():
    hof = {
        "map": "std.map(function(x) if x == K then f(n - 1) else 0, [1, 2])[K - 1]",
        "mapWithIndex": "std.mapWithIndex(function(i, x) if x == K then f(n - 1) else 0, [1, 2])[K - 1]",
        "makeArray": "std.makeArray(2, function(i) if i + 1 == K then f(n - 1) else 0)[K - 1]",
        "mapWithKey": "std.mapWithKey(function(k, x) if x == K then f(n - 1) else 0, {a: 1, b: 2})[if K == 1 then 'a' else 'b']",
        "filter": "std.length(std.filter(function(x) x == K && f(n - 1) == 0, [1, 2])) - 1",
        "filterMap": "std.filterMap(function(x) x == K, function(x) f(n - 1), [1, 2])[0]",
        "flatMap": "std.flatMap(function(x) if x == K then [f(n - 1)] else [], [1, 2])[0]",
        "foldl": "std.foldl(function(acc, x) if x == K then f(n - 1) else acc, [1, 2], 0) * 0",
        "foldr": "std.foldr(function(x, acc) if x == K then f(n - 1) else acc, [1, 2], 0) * 0",
        "sort_key": "std.sort([1, 2], function(x) if x == K then f(n - 1) else x)[0] * 0",
        "set_key": "std.length(std.set([1, 2], function(x) if x == K then f(n - 1) else x)) * 0",
        "uniq_key": "std.length(std.uniq([1, 2], function(x) if x == K then f(n - 1) else x)) * 0",
        "minArray_key": "std.minArray([1, 2], function(x) if x == K then f(n - 1) else x) * 0",
        "maxArray_key": "std.maxArray([1, 2], function(x) if x == K then f(n - 1) else x) * 0",
        "setUnion_key": "std.length(std.setUnion([1], [2], function(x) if x == K then f(n - 1) else x)) * 0",
        "all": "if std.all([x != K || f(n - 1) == 0 for x in [1, 2]]) then 0 else 1",
        "comprehension": "[if x == K then f(n - 1) else 0 for x in [1, 2]][K - 1]",
        "objcomp": "{['k' + x]: if x == K then f(n - 1) else 0 for x in [1, 2]}['k' + K]",
        "format": "std.parseInt('%d' % [f(n - 1) + K - K])",
        "join": "std.length(std.join('', [if x == K then std.toString(f(n - 1))[0:0] else '' for x in [1, 2]]))",
        "trace_rest": "std.trace('t', f(n - 1)) + K - K",
        "native_equals": "if std.equals([0, if K == 1 then f(n - 1) else 0], [0, if K == 2 then f(n - 1) else 0]) then 0 else 0",
    }
    for name, body in hof.items():
        for K in (1, 2):
            if name == "trace_rest" and K == 2:
                continue
            src = "local f(n) = if n == 0 then 0 else " + re.sub(r"\bK\b", str(K), body) + "; f(@D@)"
            SHAPES["callback:%s:%s" % (name, "first" if K == 1 else "last")] = ((lambda src: lambda d: src.replace("@D@", str(d)))(src), lambda d: "0", True)


_add_callback_shapes()


# every deep consumer on every kind of tower (array / object / alternating)
def _add_consumer_towers():
    consumers = {"manifestJsonEx": "std.length(std.manifestJsonEx(%s, '')) > 0", "manifestJsonMinified": "std.length(std.manifestJsonMinified(%s)) > 0",
                 "manifestPython": "std.length(std.manifestPython(%s)) > 0", "manifestPythonVars": "std.length(std.manifestPythonVars({v: %s})) > 0",
                 "manifestYamlDoc": "std.length(std.manifestYamlDoc(%s)) > 0", "manifestYamlStream": "std.length(std.manifestYamlStream([%s])) > 0",
                 "manifestTomlEx": "std.length(std.manifestTomlEx({t: %s}, '')) > 0", "manifestIni": "std.length(std.manifestIni({main: {k: std.toString(%s)}, sections: {}})) > 0",
                 "toString": "std.length(std.toString(%s)) > 0", "concat": "std.length('' + %s) > 0", "format_s": "std.length('%%s' %% [%s]) > 0",
                 "equals": "local t = %s; t == t", "assertEqual": "local t = %s; std.assertEqual(t, t)", "top_level": "%s",
                 "manifestXmlJsonml": None}
    for name, tmpl in consumers.items():
        if tmpl is None:
            continue
        for kind in ("arr", "obj", "mixed"):
            key = "tower:%s:%s" % (name, kind)
            SHAPES[key] = ((lambda tmpl, kind: lambda d: tmpl % tower(d, kind))(tmpl, kind), (None if name == "top_level" else (lambda d: "true")), True)


_add_consumer_towers()


# thunk chains through inheritance layers and lazily built containers: level i reads level i-1 only when forced, so
# forcing the top nests d evaluations; every way a layer / element can read its predecessor
def _add_layer_chains():
    layer_forms = {
        "plus_colon": ("{v+: 1}", "{v: 0}", lambda d: str(d)),
        "plus_colon_hidden": ("{v+:: 1}", "{v: 0}", lambda d: str(d)),
        "plus_colon_visible": ("{v+::: 1}", "{v:: 0}", lambda d: str(d)),
        "plus_colon_computed": ("{[k]+: 1 for k in ['v']}", "{v: 0}", lambda d: str(d)),
        "plus_colon_array": ("{v+: [i]}", "{v: []}", None),
        "plus_colon_string": ("{v+: 'x'}", "{v: ''}", None),
        "plus_colon_object": ("{v+: {['k' + i]: i}}", "{v: {}}", None),
        "super_dot": ("{v: super.v + 1}", "{v: 0}", lambda d: str(d)),
        "super_index": ("{v: super['v'] + 1}", "{v: 0}", lambda d: str(d)),
        "in_super_guard": ("{v: if 'v' in super then super.v + 1 else 0}", "{v: 0}", lambda d: str(d)),
        "self_other_field": ("{['w' + i]: self['w' + (i - 1)] + 1}", "{w0: 0}", None),
        "object_local": ("{local up = super.v, v: up + 1}", "{v: 0}", lambda d: str(d)),
        "assert_reads_super": ("{assert super.v >= 0, v: super.v + 1}", "{v: 0}", lambda d: str(d)),
    }
    for name, (layer, base, valf) in layer_forms.items():
        for how in ("foldl", "foldr", "objext"):
            if how == "foldl":
                srcf = (lambda layer, base: lambda d: "std.foldl(function(o, i) o + %s, std.range(1, %d), %s)" % (layer, d, base))(layer, base)
            elif how == "foldr":
                srcf = (lambda layer, base: lambda d: "std.foldr(function(i, o) o + %s, std.range(1, %d), %s)" % (layer, d, base))(layer, base)
            else:
                srcf = (lambda layer, base: lambda d: "std.foldl(function(o, i) o %s, std.range(1, %d), %s)" % (layer, d, base))(layer, base)
            if name == "self_other_field":
                full = (lambda srcf: lambda d: "local o = %s; o['w%d']" % (srcf(d), d))(srcf)
                val = lambda d: str(d)
            else:
                full = (lambda srcf: lambda d: "(%s).v" % srcf(d))(srcf)
                val = valf
            if name in ("plus_colon_array", "plus_colon_string", "plus_colon_object"):
                full = (lambda srcf: lambda d: "std.length((%s).v)" % srcf(d))(srcf)
                val = lambda d: str(d)
            SHAPES["layers:%s:%s" % (name, how)] = (full, val, True)
    lazy = {
        "arrcomp_chain": "local a = [if i == 0 then 0 else a[i - 1] + 1 for i in std.range(0, %d)]; a[%d]",
        "objcomp_chain": "local o = {['k' + i]: if i == 0 then 0 else o['k' + (i - 1)] + 1 for i in std.range(0, %d)}; o['k%d']",
        "mapWithIndex_chain": "local a = std.mapWithIndex(function(i, x) if i == 0 then 0 else a[i - 1] + 1, std.range(0, %d)); a[%d]",
        "map_chain": "local a = std.map(function(i) if i == 0 then 0 else a[i - 1] + 1, std.range(0, %d)); a[%d]",
        "mapWithKey_chain": "local o = std.mapWithKey(function(k, i) if i == 0 then 0 else o['k' + (i - 1)] + 1, {['k' + i]: i for i in std.range(0, %d)}); o['k%d']",
        "closure_compose": "std.foldl(function(f, i) function(x) f(x) + 1, std.range(1, %d), function(x) x)(0) + 0 * %d",
        "closure_compose_outer": "std.foldl(function(f, i) function(x) f(x + 1), std.range(1, %d), function(x) x)(0) + 0 * %d",
        "thunk_in_array_fold": "std.foldl(function(a, i) [a[0] + 1], std.range(1, %d), [0])[0] + 0 * %d",
        "thunk_in_object_fold": "std.foldl(function(o, i) {v: o.v + 1}, std.range(1, %d), {v: 0}).v + 0 * %d",
        "default_param_chain": "std.foldl(function(f, i) function(x=f()) x + 1, std.range(1, %d), function(x=0) x)() + 0 * %d",
    }
    for name, tmpl in lazy.items():
        SHAPES["lazy:" + name] = ((lambda tmpl: lambda d: tmpl % (d, d))(tmpl), lambda d: str(d), True)


_add_layer_chains()


# the recursive call in every syntactic position, with and without the tailstrict modifier.  Only a tailstrict call in a
# genuine tail position (body, if branch, local body, assert rest) may be eliminated; everywhere else each level keeps
# evaluator state alive and therefore must be charged against the limit.
#   (name, body with {C} = the call, base value, value of f(d) as a function of d, genuine tail position?)
CALL_POSITIONS = [
    ("tail_direct", "{C}", "0", lambda d: "0", True),
    ("tail_if_else", "if n % 2 == 0 then {C} else {C}", "0", lambda d: "0", True),
    ("tail_local_body", "local m = n; {C}", "0", lambda d: "0", True),
    ("tail_assert_rest", "assert n > 0 : 'neg'; {C}", "0", lambda d: "0", True),
    ("and_rhs", "true && {C}", "true", lambda d: "true", False),
    ("or_rhs", "false || {C}", "false", lambda d: "false", False),
    ("or_rhs_cond", "n < 0 || {C}", "true", lambda d: "true", False),
    ("and_lhs", "{C} && true", "true", lambda d: "true", False),
    ("or_lhs", "{C} || false", "false", lambda d: "false", False),
    ("plus_rhs", "1 + {C}", "0", lambda d: str(d), False),
    ("plus_lhs", "{C} + 1", "0", lambda d: str(d), False),
    ("unary", "-{C}", "1", lambda d: str(1 if d % 2 == 0 else -1), False),
    ("not", "!{C}", "true", lambda d: "true" if d % 2 == 0 else "false", False),
    ("eq_lhs", "{C} == 0", "0", None, False),
    ("array_index", "[{C}][0]", "0", lambda d: "0", False),
    ("index_of", "[{C}[0]]", "[0]", lambda d: "[0]", False),
    ("field_value", "{a: {C}}.a", "0", lambda d: "0", False),
    ("field_of", "{a: {C}.a}", "{a: 1}", lambda d: '{"a": 1}', False),
    ("call_argument", "(function(x) x)({C})", "0", lambda d: "0", False),
    ("call_argument_strict", "(function(x) x)({C}) tailstrict", "0", lambda d: "0", False),
    ("local_bind", "local v = {C}; v", "0", lambda d: "0", False),
    ("if_condition", "if {C} then true else true", "true", lambda d: "true", False),
    ("assert_condition", "assert {C} : 'm'; true", "true", lambda d: "true", False),
    ("object_extension", "{C} {}", "{}", lambda d: "{ }", False),
    ("format_operand", "'%s' % {C}", "'x'", lambda d: '"x"', False),
    ("in_rhs", "{[if 'zz' in {C} then 'y' else 'zz']: 1}", "{}", None, False),
    ("slice_of", "{C}[0:]", "[]", lambda d: "[ ]", False),
    ("std_arg", "std.floor({C})", "0", lambda d: "0", False),
    ("comprehension_source", "[x for x in {C}]", "[]", lambda d: "[ ]", False),
    ("string_concat", "'' + {C}", "''", lambda d: '""', False),
    ("error_message_unused", "local e = error 'unused'; {C} + 0", "0", lambda d: "0", False),
]


def _add_call_positions():
    for name, body, base, valf, tail in CALL_POSITIONS:
        for strict in (False, True):
            call = "f(n - 1)" + (" tailstrict" if strict else "")

            def srcf(d, body=body, base=base, call=call):
                return "local f(n) = if n <= 0 then %s else %s; f(%d)" % (base, body.replace("{C}", call), d)
            # a level may only be free of charge when the call is tailstrict AND in a genuine tail position
            SHAPES["pos:%s:%s" % (name, "tailstrict" if strict else "plain")] = (srcf, valf, not (tail and strict))
    # the same through mutual recursion and through an object method
    for strict in (False, True):
        t = " tailstrict" if strict else ""
        SHAPES["pos:mutual_and_or:%s" % ("tailstrict" if strict else "plain")] = (
            lambda d, t=t: "local a(n) = n >= 0 && b(n - 1)%s, b(n) = n < 0 || a(n - 1)%s; a(%d)" % (t, t, d), None, True)
        SHAPES["pos:method_or:%s" % ("tailstrict" if strict else "plain")] = (
            lambda d, t=t: "local o = {f(n):: n <= 0 || self.f(n - 1)%s}; o.f(%d)" % (t, d), lambda d: "true", True)


_add_call_positions()

# self-referential values: (source(k), cycle length)
CYCLES = {
    "local_cycle": lambda k: "local a0 = a%d" % (k - 1) + "".join(", a%d = a%d" % (i, i - 1) for i in range(1, k)) + "; a0",
    "field_cycle": lambda k: "local o = {f0: self.f%d" % (k - 1) + "".join(", f%d: self.f%d" % (i, i - 1) for i in range(1, k)) + "}; o.f0",
    "array_cycle": lambda k: "local a = [a[%d]" % (k - 1) + "".join(", a[%d]" % (i - 1) for i in range(1, k)) + "]; a[0]",
    "arith_cycle": lambda k: "local a0 = a%d + 1" % (k - 1) + "".join(", a%d = a%d + 1" % (i, i - 1) for i in range(1, k)) + "; a0",
    "object_self_cycle": lambda k: "local o = {a: o.a}; o.a" if k else "",
    "function_loop": lambda k: "local f() = f(); f()",
    "mutual_function_loop": lambda k: "local f() = g(), g() = f(); f()",
    "object_extension_loop": lambda k: "local o = {a: self.b, b: self.a + 1}; (o {c: 1}).a",
    "manifest_cycle": lambda k: "local o = {a: o}; o",
    "equals_cycle": lambda k: "local o = {a: o}; o == o",
    "toString_cycle": lambda k: "local a = [a]; std.toString(a)",
    "length_of_cyclic": lambda k: "local a = [a, a]; std.length(a)",
}
CYCLE_VALUE_OK = {"length_of_cyclic"}   # not actually self-dependent results

# builtins that walk a value natively: on a self-referential (infinite) value they must be stopped too
NATIVE_CYCLES = {
    "prune": "local a = [1, a]; std.prune(a)",
    "prune:object": "local a = {b: a, c: 1}; std.prune(a)",
    "flattenDeepArray": "local a = [1, a]; std.flattenDeepArray(a)",
    "deepJoin": "local a = ['x', a]; std.deepJoin(a)",
    "mergePatch": "local a = {b: a}; std.mergePatch(a, a)",
    "mergePatch:target": "local a = {b: a}; std.mergePatch({b: {b: {}}}, a)",
    "manifestJsonEx": "local a = [a]; std.manifestJsonEx(a, ' ')",
    "manifestYamlDoc": "local a = {b: a}; std.manifestYamlDoc(a)",
    "manifestTomlEx": "local a = {b: a}; std.manifestTomlEx(a, ' ')",
    "manifestPython": "local a = [a]; std.manifestPython(a)",
    "manifestXmlJsonml": "local a = ['t', a]; std.manifestXmlJsonml(a)",
    "toString": "local a = {b: a}; std.toString(a)",
    "flattenArrays": "local a = [a]; std.flattenArrays(a)",
    "equals": "local a = [a], b = [b]; std.equals(a, b)",
    "compare": "local a = [a], b = [b]; a < b",
    "assertEqual": "local a = {x: a}; std.assertEqual(a, a)",
    "sort_nested": "local a = [a]; std.sort([a, a])",
    "set_nested": "local a = [a]; std.set([a, a])",
    "member": "local a = [a]; std.member([a], a)",
    "count": "local a = [a]; std.count([a], a)",
    "find": "local a = [a]; std.find(a, [a])",
    "uniq_nested": "local a = [a]; std.uniq([a, a])",
    "objectValues_deep": "local a = {b: a}; std.objectValues(a)",
    "parse_manifest": "local a = [a]; std.parseJson(std.manifestJsonMinified(a))",
    "format_s": "local a = [a]; '%s' % [a]",
    "concat_string": "local a = {b: a}; 'x' + a",
    "minArray": "local a = [a]; std.minArray([a, a])",
    "setUnion": "local a = [a]; std.setUnion([a], [a])",
    "get_deep": "local a = {b: a}; std.get(a, 'b')",
}

FLAT = {
    "sort": "std.sort(std.range(1, %d))[0]",
    "sort_keyF": "std.sort(std.range(1, %d), function(x) -x)[0]",
    "set": "std.length(std.set(std.range(1, %d)))",
    "uniq": "std.length(std.uniq(std.range(1, %d)))",
    "filter": "std.length(std.filter(function(x) x % 2 == 0, std.range(1, %d)))",
    "filterMap": "std.length(std.filterMap(function(x) x % 2 == 0, function(x) x, std.range(1, %d)))",
    "map": "std.map(function(x) x + 1, std.range(1, %d))[0]",
    "foldl": "std.foldl(function(a, b) a + b, std.range(1, %d), 0)",
    "foldr": "std.foldr(function(a, b) a + b, std.range(1, %d), 0)",
    "all": "std.all(std.map(function(x) x > 0, std.range(1, %d)))",
    "any": "std.any(std.map(function(x) x < 0, std.range(1, %d)))",
    "member": "std.member(std.range(1, %d), 0)",
    "count": "std.count(std.range(1, %d), 1)",
    "join": "std.length(std.join(',', std.map(std.toString, std.range(1, %d))))",
    "flatMap": "std.length(std.flatMap(function(x) [x, x], std.range(1, %d)))",
    "manifest_flat": "std.range(1, %d)",
    "sum": "std.sum(std.range(1, %d))",
    "minArray": "std.minArray(std.range(1, %d))",
    "equals_flat": "std.range(1, %d) == std.range(1, %d)",
    "object_comprehension": "std.length({['k' + i]: i for i in std.range(1, %d)})",
    "setUnion": "std.length(std.setUnion(std.range(1, %d), std.range(1, %d)))",
    "reverse": "std.reverse(std.range(1, %d))[0]",
    "mapWithKey": "std.length(std.mapWithKey(function(k, v) v, {['k' + i]: i for i in std.range(1, %d)}))",
}

S_LADDER = [0, 1, 2, 3, 5, 8, 13, 20, 40, 100, 250, 499, 500, 501, 1000, 3000, 10 ** 4, 10 ** 5, 10 ** 6]


def classify(o):
    if o.cls == "value":
        return "value"
    if o.cls == "eval":
        return o.rec.get("kind")
    return o.cls


def run_one(agg, srv, src, s, desc):
    lines = run_lines(src.encode(), stack=s, multiline=0)
    agg.evaluations += 1
    try:
        recs = srv.request(lines, timeout=300)
    except Crashed as e:
        if e.kind in ("timeout", "oom"):
            agg.inconc(e.kind)
            return None, None
        kind = "native_stack_exhausted_by_evaluation" if "overflowed its stack" in e.detail else "crash"
        agg.violation({"kind": kind, "shape": desc["shape"]}, dict(desc, s=s, crash=e.detail[-300:]), {"script": lines})
        return None, None
    o = Outcome(recs)
    c = classify(o)
    if c == "panic":
        agg.violation({"kind": "panic", "shape": desc["shape"], "msg": re.sub(r"[0-9]+", "N", o.rec.s("msg") or "")[:80]},
                      dict(desc, s=s, panic=o.rec.s("msg"), loc=o.rec.s("loc")), {"script": lines})
        return None, None
    return c, o


def shapes_shard(args):
    seed, jobs = args
    agg = Agg()
    srv = Server(mem_gib=6)
    try:
        for (shape, d) in jobs:
            srcf, expf, per_level = SHAPES[shape]
            src = srcf(d)
            desc = {"shape": shape, "d": d}
            first_ok = None
            ok_out = None
            for s in S_LADDER:
                if s >= 10 ** 5 and d > 20000:
                    continue
                c, o = run_one(agg, srv, src, s, desc)
                if c is None:
                    break
                agg.add("outcomes", c)
                agg.nontrivial.add(common.h64(shape, str(d), str(s)))
                agg.add("shape_points", (shape, c))
                if c not in ("value", "StackOverflow"):
                    agg.violation({"kind": "unexpected_outcome", "shape": shape, "outcome": c},
                                  dict(desc, s=s, got=o.describe()), {"script": run_lines(src.encode(), stack=s, multiline=0)})
                    break
                if c == "value":
                    if first_ok is None:
                        first_ok, ok_out = s, o.out
                        agg.add("thresholds", (shape, d, s))
                        if expf is not None and o.out != expf(d):
                            agg.violation({"kind": "wrong_value", "shape": shape},
                                          dict(desc, s=s, expected=expf(d), got=(o.out or "")[:200]), None)
                        # the limit must actually bound the depth: d levels cannot fit in far fewer frames
                        if per_level and d >= 3 * s + 20:
                            agg.violation({"kind": "limit_not_enforced", "shape": shape},
                                          dict(desc, s=s, note="recursion %d deep succeeded under a limit of %d frames" % (d, s)),
                                          {"script": run_lines(src.encode(), stack=s, multiline=0)})
                    elif o.out != ok_out:
                        agg.violation({"kind": "value_changes_with_limit", "shape": shape},
                                      dict(desc, s=s, first_ok=first_ok), None)
                else:
                    if first_ok is not None:
                        agg.violation({"kind": "not_monotone_in_limit", "shape": shape},
                                      dict(desc, s=s, first_ok=first_ok,
                                           note="succeeded with limit %d but fails with larger limit %d" % (first_ok, s)),
                                      {"script": run_lines(src.encode(), stack=s, multiline=0)})
                        break
            if len(agg.samples) < 3:
                agg.sample({"shape": shape, "d": d, "smallest_limit_that_succeeds": first_ok})
    finally:
        srv.close()
    return agg


def cycles_shard(args):
    seed, jobs = args
    agg = Agg()
    srv = Server()
    try:
        for (name, k) in jobs:
            src = CYCLES[name](k)
            desc = {"shape": name, "cycle_len": k}
            for s in [0, 1, 2, 5, 20, 100, 500, 5000, 10 ** 5]:
                c, o = run_one(agg, srv, src, s, desc)
                if c is None:
                    break
                agg.add("outcomes", c)
                agg.nontrivial.add(common.h64(name, str(k), str(s)))
                if c == "value" and name in CYCLE_VALUE_OK:
                    continue
                if c not in ("InfiniteRecursion", "StackOverflow"):
                    agg.violation({"kind": "cycle_not_reported", "shape": name, "outcome": c},
                                  dict(desc, s=s, got=o.describe()), {"script": run_lines(src.encode(), stack=s, multiline=0)})
                    break
                if c == "InfiniteRecursion":
                    agg.add("cycle_detected_at", (name, k, s))
            if len(agg.samples) < 2:
                agg.sample({"cycle": name, "len": k, "src": src[:120]})
    finally:
        srv.close()
    return agg


# ------------------------------------------------------------------------------------------------
# self-dependence through imports (real files, real CLI): a value that depends on itself through k files is reported as
# infinite recursion at every limit larger than the cycle, whatever the spelling of the paths

def import_cycle_layouts():
    """-> list of (name, {relative path: content or ('symlink', target)}, entry, extra argv, k)."""
    out = []
    forms = {"plus": "(import %s) + 1", "field": "{a: (import %s).a}.a", "elem": "[import %s][0]", "local": "local x = import %s; x",
             "obj_hidden": "{h:: import %s, v: self.h}.v"}
    for fname, form in forms.items():
        def imp(p):
            return form % ('"%s"' % p)
        out.append(("same_dir_2:" + fname, {"a.jsonnet": imp("b.jsonnet"), "b.jsonnet": imp("a.jsonnet")}, "a.jsonnet", [], 2))
        out.append(("self_1:" + fname, {"a.jsonnet": imp("a.jsonnet")}, "a.jsonnet", [], 1))
        out.append(("self_dot:" + fname, {"a.jsonnet": imp("./a.jsonnet")}, "a.jsonnet", [], 1))
        out.append(("self_updown:" + fname, {"a.jsonnet": imp("sub/../a.jsonnet"), "sub/keep": ""}, "a.jsonnet", [], 1))
        out.append(("subdir_dotdot:" + fname, {"a.jsonnet": imp("lib/b.jsonnet"), "lib/b.jsonnet": imp("../a.jsonnet")}, "a.jsonnet", [], 2))
        out.append(("two_subdirs_3:" + fname, {"a.jsonnet": imp("x/b.jsonnet"), "x/b.jsonnet": imp("../y/c.jsonnet"),
                                               "y/c.jsonnet": imp("../a.jsonnet")}, "a.jsonnet", [], 3))
        out.append(("deep_dotdot_4:" + fname, {"a.jsonnet": imp("p/q/b.jsonnet"), "p/q/b.jsonnet": imp("../c.jsonnet"),
                                               "p/c.jsonnet": imp("q/../../d.jsonnet"), "d.jsonnet": imp("./a.jsonnet")}, "a.jsonnet", [], 4))
        out.append(("via_jpath:" + fname, {"a.jsonnet": imp("b.jsonnet"), "J/b.jsonnet": imp("../a.jsonnet")}, "a.jsonnet", ["-J", "J"], 2))
        out.append(("via_symlink:" + fname, {"a.jsonnet": imp("link.jsonnet"), "link.jsonnet": ("symlink", "a.jsonnet")}, "a.jsonnet", [], 1))
        out.append(("via_dir_symlink:" + fname, {"a.jsonnet": imp("d/b.jsonnet"), "real/b.jsonnet": imp("../a.jsonnet"),
                                                 "d": ("symlink", "real")}, "a.jsonnet", [], 2))
        out.append(("entry_in_subdir:" + fname, {"s/a.jsonnet": imp("../b.jsonnet"), "b.jsonnet": imp("s/a.jsonnet")}, "s/a.jsonnet", [], 2))
    return out


def import_cycles_shard(args):
    cases, = args
    import shutil
    import subprocess
    import tempfile
    agg = Agg()
    os.makedirs(common.SCRATCH, exist_ok=True)
    for name, files, entry, argv, k in cases:
        d = tempfile.mkdtemp(dir=common.SCRATCH, prefix="c10imp")
        try:
            for rel, content in files.items():
                pth = os.path.join(d, rel)
                os.makedirs(os.path.dirname(pth), exist_ok=True)
                if isinstance(content, tuple):
                    os.symlink(content[1], pth)
                else:
                    with open(pth, "w") as f:
                        f.write(content)
            seen = []
            for s_lim in (20, 100, 500, 3000):
                agg.evaluations += 1
                try:
                    p = subprocess.run([common.CLI, "-s", str(s_lim)] + argv + [entry], cwd=d, capture_output=True, timeout=60,
                                       env=dict(os.environ, NO_COLOR="1"), preexec_fn=common._limits(4 << 30))
                except subprocess.TimeoutExpired:
                    agg.inconc("timeout")
                    continue
                err = p.stderr.decode("utf-8", "replace")
                if "infinite recursion" in err:
                    c = "InfiniteRecursion"
                elif "stack overflow" in err:
                    c = "StackOverflow"
                elif p.returncode == 0:
                    c = "value"
                else:
                    c = "other:" + err.strip().split("\n")[0][:60]
                seen.append((s_lim, c, p.returncode))
                agg.nontrivial.add(common.h64("impcycle", name, str(s_lim)))
                if c != "InfiniteRecursion" or p.returncode != 1:
                    agg.violation({"kind": "import_cycle_not_reported_as_infinite_recursion", "layout": name.split(":")[0], "outcome": c.split(":")[0]},
                                  {"layout": name, "files": {r: (c2 if isinstance(c2, str) else list(c2)) for r, c2 in files.items()},
                                   "limit": s_lim, "cycle_length": k, "exit": p.returncode, "stderr": err[-400:]},
                                  {"argv": ["-s", str(s_lim)] + argv + [entry], "files": {r: (c2 if isinstance(c2, str) else list(c2)) for r, c2 in files.items()}})
                    break
                agg.add("import_cycle_layouts", name.split(":")[0])
            if len(agg.samples) < 1:
                agg.sample({"leg": "import_cycle", "layout": name, "files": {r: str(c2) for r, c2 in files.items()}, "outcomes": seen})
        finally:
            shutil.rmtree(d, ignore_errors=True)
    return agg


# ------------------------------------------------------------------------------------------------
# very large limits: "raising the limit never changes the outcome of a program that already succeeded"

HUGE_LIMITS = [10 ** 7, 10 ** 8, 10 ** 9, 2 ** 31 - 1, 2 ** 31, 2 ** 32, 10 ** 10, 10 ** 12, 10 ** 13, 2 ** 53, 10 ** 17, 10 ** 18, 2 ** 62,
               2 ** 63 - 1, 2 ** 63, 2 ** 64 - 2, 2 ** 64 - 1]
HUGE_PROGRAMS = ["1", "local f(n) = if n == 0 then 0 else 1 + f(n - 1); f(20)", "std.foldl(function(a, i) [a], std.range(1, 15), [])",
                 "{a: [1, {b: 'x'}], c: std.length(std.range(1, 100))}", "std.sort([3, 1, 2], function(x) -x)",
                 "local a = [1, a[0] + 1]; a[1]", "std.manifestJsonEx({a: {b: {c: 1}}}, ' ')", "error 'expected failure'",
                 "local f(n) = f(n + 1) + 1; if false then f(0) else 'unused recursion'"]


def huge_limits_shard(args):
    progs, = args
    import subprocess
    agg = Agg()
    for src in progs:
        ref = None
        for s in [1000] + HUGE_LIMITS:
            # a dedicated child per run: aborting because memory was reserved in proportion to the limit is the observation here
            srv = Server(mem_gib=2)
            lines = run_lines(src.encode(), stack=s, multiline=0)
            agg.evaluations += 1
            try:
                recs = srv.request(lines, timeout=60)
                o = Outcome(recs)
                key = (o.cls, o.out if o.cls == "value" else o.rec.get("kind"))
                if o.cls == "panic":
                    key = ("panic", o.rec.s("msg"))
            except Crashed as e:
                key = ("died:" + e.kind, re.sub(r"[0-9]+", "N", e.detail[-120:]))
            finally:
                srv.close()
            if key[0] == "died:timeout":
                agg.inconc("timeout")       # (a slow machine; an abort or an allocation failure is the observation, not this)
                continue
            if ref is None:
                ref = key
            elif key != ref:
                agg.violation({"kind": "outcome_changes_with_huge_limit", "via": "api", "how": key[0]},
                              {"program": src, "limit": s, "with_limit_1000": list(map(str, ref)), "with_this_limit": list(map(str, key))},
                              {"script": lines})
                break
            # the command-line tool with the same limit
            try:
                p = subprocess.run([common.CLI, "-s", str(s), "-e", src], capture_output=True, timeout=60, env=dict(os.environ, NO_COLOR="1"),
                                   preexec_fn=common._limits(2 << 30))
                ckey = (p.returncode, p.stdout)
            except subprocess.TimeoutExpired:
                ckey = ("timeout", b"")
            agg.evaluations += 1
            if s == 1000:
                cref = ckey
            elif ckey != cref:
                agg.violation({"kind": "outcome_changes_with_huge_limit", "via": "cli", "how": str(ckey[0])},
                              {"program": src, "limit": s, "with_limit_1000": [str(cref[0]), cref[1][:100].decode("utf-8", "replace")],
                               "with_this_limit": [str(ckey[0]), ckey[1][:100].decode("utf-8", "replace")],
                               "stderr": (p.stderr[-300:].decode("utf-8", "replace") if ckey[0] != "timeout" else "")},
                              {"argv": ["-s", str(s), "-e", src]})
                break
            agg.nontrivial.add(common.h64("huge", src, str(s)))
            agg.add("huge_limits_seen", s)
    return agg


def native_cycle_cases(rng, funcs, quick):
    """Every std function with a self-referential array / object / string-array in every argument position."""
    cases = [(name, src, True) for name, src in NATIVE_CYCLES.items()]
    pre = "local a = [1, a], o = {b: o, c: 1}, s = ['x', s]; "
    others = ["1", "'x'", "function(x) x"]
    sweep = []
    for f, n in funcs:
        if n < 1 or f == "trace":
            continue
        for pos in range(n):
            for c in ("a", "o", "s"):
                for oth in others:
                    args = [oth] * n
                    args[pos] = c
                    sweep.append((f, pre + "std.%s(%s)" % (f, ", ".join(args)), False))
    if quick:
        must = [x for x in sweep if x[0] in ("prune", "flattenDeepArray", "deepJoin", "mergePatch", "manifestXmlJsonml")]
        rest = [x for x in sweep if x not in must]
        sweep = must[::3] + rng.sample(rest, 500)
    return cases + sweep


def native_cycles_shard(args):
    seed, cases = args
    agg = Agg()
    for name, src, strict in cases:
        builtin = name.split(":")[0]
        for s_lim in (200,):
            # a tiny program: every non-looping outcome takes microseconds, so exhausting 1 GiB or 10 s of a dedicated
            # child is the observation "never stopped" (the one place where a timeout is a verdict, see DESIGN.md C10)
            srv = Server(mem_gib=1.0)
            lines = run_lines(src.encode(), stack=s_lim, multiline=0)
            agg.evaluations += 1
            try:
                recs = srv.request(lines, timeout=10)
                o = Outcome(recs)
                c = classify(o)
                agg.nontrivial.add(common.h64("native", src))
                agg.add("native_cycle_builtins", builtin)
                if c == "panic":
                    agg.violation({"kind": "panic", "shape": "native:" + builtin, "msg": re.sub(r"[0-9]+", "N", o.rec.s("msg") or "")[:80]},
                                  {"src": src, "s": s_lim, "panic": o.rec.s("msg")}, {"script": lines})
                elif strict and c not in ("InfiniteRecursion", "StackOverflow"):
                    agg.violation({"kind": "cycle_not_reported", "shape": "native:" + name, "outcome": c},
                                  {"src": src, "s": s_lim, "got": o.describe()}, {"script": lines})
            except Crashed as e:
                if "overflowed its stack" in e.detail:
                    agg.violation({"kind": "native_stack_exhausted_by_evaluation", "shape": "native:" + builtin},
                                  {"src": src, "s": s_lim, "crash": e.detail[-300:]}, {"script": lines})
                else:
                    # confirm on a second dedicated child with six times the budget: a machine under load may take longer
                    # than 10 s to start a process, a program that never stops exhausts any budget
                    srv.close()
                    srv = Server(mem_gib=1.0)
                    try:
                        srv.request(lines, timeout=60)
                        agg.inconc("slow_first_attempt")
                    except Crashed as e2:
                        if "overflowed its stack" in e2.detail:
                            agg.violation({"kind": "native_stack_exhausted_by_evaluation", "shape": "native:" + builtin},
                                          {"src": src, "s": s_lim, "crash": e2.detail[-300:]}, {"script": lines})
                        else:
                            agg.violation({"kind": "endless_native_traversal", "builtin": builtin},
                                          {"src": src, "s": s_lim, "observed": [e.kind, e2.kind]}, {"script": lines})
            finally:
                srv.close()
    return agg


def flat_shard(args):
    seed, jobs = args
    agg = Agg()
    srv = Server()
    try:
        for (name, n) in jobs:
            src = FLAT[name].replace("%d", str(n))
            desc = {"shape": "flat:" + name, "n": n}
            first_ok = None
            ok_out = None
            for s in [0, 1, 2, 3, 5, 10, 40, 100, 499, 500, 501, 2000, 10 ** 5]:
                c, o = run_one(agg, srv, src, s, desc)
                if c is None:
                    break
                agg.nontrivial.add(common.h64("flat", name, str(n), str(s)))
                if c not in ("value", "StackOverflow"):
                    agg.violation({"kind": "unexpected_outcome", "shape": "flat:" + name, "outcome": c},
                                  dict(desc, s=s, got=o.describe()), None)
                    break
                if c == "value":
                    if first_ok is None:
                        first_ok, ok_out = s, o.out
                        agg.add("flat_thresholds", (name, n, s))
                    elif o.out != ok_out:
                        agg.violation({"kind": "value_changes_with_limit", "shape": "flat:" + name}, dict(desc, s=s), None)
                elif first_ok is not None:
                    agg.violation({"kind": "not_monotone_in_limit", "shape": "flat:" + name},
                                  dict(desc, s=s, first_ok=first_ok), None)
                    break
    finally:
        srv.close()
    return agg


def run(tier, seed):
    t0 = time.time()
    quick = tier != "thorough"
    total = Agg()
    rng = random.Random(seed)
    if quick:
        depths = [0, 1, 2, 3, 7, 19, 20, 21, 39, 41, 99, 250, 499, 500, 501, 1200, 5000]
        depths += rng.sample(range(4, 480), 4)
    else:
        depths = list(range(0, 41)) + [50, 75, 99, 100, 101, 150, 200, 249, 250, 251, 400, 498, 499, 500, 501, 502, 750, 999,
                                       1000, 1001, 1500, 2000, 3000, 5000, 10000, 20000, 50000, 100000]
        depths += rng.sample(range(41, 3000), 30)
    # the inheritance-layer and lazy-container chains cost O(d) per field lookup: fewer and smaller depths
    chain_depths = [2, 20, 41, 250] if quick else [0, 1, 2, 3, 5, 8, 13, 20, 21, 40, 41, 100, 250, 499, 500, 501, 1000, 2000]
    jobs = [(sh, d) for sh in SHAPES for d in (chain_depths if sh.startswith(("layers:", "lazy:", "tower:", "callback:")) else depths)]
    rng.shuffle(jobs)
    for a in common.pmap(shapes_shard, [(seed + i, jobs[i::32]) for i in range(32)]):
        total.merge(a)
    cj = [(name, k) for name in CYCLES for k in ([1, 2, 3, 10, 100, 600] if name.endswith("_cycle") and name not in
                                                   ("object_self_cycle", "manifest_cycle", "equals_cycle", "toString_cycle") else [1])]
    for a in common.pmap(cycles_shard, [(seed + i, cj[i::8]) for i in range(8)]):
        total.merge(a)
    for a in common.pmap(huge_limits_shard, [(HUGE_PROGRAMS[i::8],) for i in range(8)]):
        total.merge(a)
    ic = import_cycle_layouts()
    for a in common.pmap(import_cycles_shard, [(ic[i::16],) for i in range(16)]):
        total.merge(a)
    srv0 = Server()
    try:
        from checks.c01 import std_functions
        funcs = sorted((f, n) for f, n in std_functions(srv0).items() if n >= 0)
    finally:
        srv0.close()
    nc = native_cycle_cases(rng, funcs, quick)
    rng.shuffle(nc)
    for a in common.pmap(native_cycles_shard, [(seed, nc[i::16]) for i in range(16)]):
        total.merge(a)
    ns = [1, 2, 29, 30, 31, 100, 499, 500, 501, 1000, 2000] if quick else list(range(1, 40)) + [100, 250, 499, 500, 501, 502, 750, 1000, 1500, 2000, 5000]
    fj = [(name, n) for name in FLAT for n in ns]
    rng.shuffle(fj)
    for a in common.pmap(flat_shard, [(seed + i, fj[i::16]) for i in range(16)]):
        total.merge(a)
    rule = (f"{len(SHAPES)} recursion shapes (the recursive call in {len(CALL_POSITIONS)} syntactic positions with and without "
            "tailstrict - only a tailstrict call in a genuine tail position may go uncharged; function, mutual, object method, self/super chains, array/object towers "
            "through manifestation, ==, <, toString, manifestJsonEx/Python/YamlDoc/TomlEx, prune, mergePatch, "
            "flattenDeepArray, deepJoin, thunk chains, lazy array chains, format, sort keys, comprehensions, asserts, "
            "default args; recursion through the callback of 22 higher-order builtins / constructs for the first and the last element; 14 deep consumers (every manifester, toString, string concatenation, %s, ==, assertEqual, top-level output) on "
            "array, object and alternating towers; thunk chains through inheritance layers - 13 ways a layer can read its predecessor (+: in every visibility / "
            "computed / array / string / object form, super.f, super[e], in super, self, object local, assert) x foldl / foldr / "
            "object-extension construction - and through lazily built containers (comprehensions, map, mapWithIndex, mapWithKey, "
            f"composed closures, defaulted parameters)) x depths x a ladder of {len(S_LADDER)} frame limits (0..10^6): outcome in "
            "{value, StackOverflow}, never a crash; the value is the expected one; monotone in the limit; a recursion "
            f"d deep never succeeds under a limit s with d >= 3s+20; {len(CYCLES)} self-referential programs x cycle "
            "lengths x limits must end in InfiniteRecursion or StackOverflow; " + str(len(NATIVE_CYCLES)) + " hand-picked builtin applications "
            "and a sweep of every std function with a self-referential array/object in every argument position must be "
            "stopped the same way or answer (a dedicated child that exhausts 10 s or 1 GiB on such a tiny program is the "
            "observation 'never stopped'); import cycles of 1-4 real files through the CLI in 11 directory layouts (same directory, "
            "./ and sub/../ spellings, sub-directories with .., -J, file and directory symlinks, entry in a sub-directory) x 5 "
            "import positions x limits 20..3000: always 'infinite recursion', exit 1; very large limits (10^7 .. 2^64-1, through the API and the -s flag, one child per "
            "run): the outcome of 9 small programs must be the one they have under a limit of 1000; flat workloads of n elements through "
            "array builtins: never a crash, monotone. distinct_nontrivial = distinct (shape, depth, limit) points run.")
    return common.finish(PROP, tier, seed, total, rule, t0,
                         assumptions=["'however deeply or endlessly' is restated as bounded sweeps (depth <= 10^5, limit <= 10^6)",
                                      "syntactic nesting is kept shallow: parser recursion is C01's known finding, not evaluation"])

"""C01 - every input is answered with a value or a diagnosed error, never a crash."""
import itertools
import os
import random
import re
import subprocess
import time

import common
import genbytes
from common import Agg, Crashed, Outcome, Server, hx, run_lines

PROP = "C01"

# builtins whose numeric argument is an allocation size: resource exhaustion is not the property
SIZE_ARGS = {"repeat": {1}, "range": {0, 1}, "makeArray": {0}}

POOL_SMALL = [
    "null", "true", "0", "-0", "1", "-1.5", "3", "1e308", "5e-324", "9007199254740993",
    '""', '"abc"', '"\\u20ac\\ud83d\\ude00z"', "[]", "[1, 2, 3]", '["a", "b"]', "{}", '{a: 1, b: "x"}',
    "function(x) x", "function(a, b) a",
]
POOL_LARGE = POOL_SMALL + [
    "false", "0.5", "-1", "2", "10", "31", "32", "64", "255", "256", "65535", "65536", "55296", "57343",
    "1114111", "1114112", "2147483647", "2147483648", "-2147483648", "-2147483649", "4294967295",
    "4294967296", "9007199254740991", "9007199254740992", "-9007199254740992", "1e15", "1e17", "1e21",
    "1e300", "-1e308", "1.7976931348623157e308", "-1.7976931348623157e308", "2.2250738585072014e-308",
    "1e-7", "0.1", "1/3", "2.5", "3.5", "-0.5", "1e-300",
    '"a"', '" "', '"0"', '"-1"', '"1e5"', '"0x1F"', '"%d"', '"%(a)s"', '"%"', '"%5.3f"', '"%c"', '"%*d"',
    '"\\u0000"', '"\\n"', '"a,b,,c"', '"\\u00e9\\u0301"', '"\\ud83d\\ude00"', '"\\uffff"',
    '"0123456789abcdef0123456789abcde\\u20ac"', '"777777777777777777777777777777777777777777\\u20ac"',
    '"[1, 2"', '"{\\"a\\": 1}"', '"a: [1, 2]\\nb: &x 1\\nc: *x"', '"aGVsbG8="', '"aGVsbG8"', '"!!!!"',
    'std.repeat("x", 5000)', 'std.repeat("\\u20ac", 300)',
    "[0]", "[1, 1, 2]", "[3, 1, 2]", '["b", "a", "a"]', "[[1, 2], [3]]", "[[2], [1], [1]]", '[1, "a", null]',
    "[null]", "[true, false]", "std.range(0, 40)", "std.range(0, 600)", '[error "lazy-elem"]', "[1, error \"lazy-tail\"]",
    "[0, 255, 128]", "[256]", "[-1]", "[0.5]", "[65, 66, 0x10FFFF]", "[[\"k\", 1]]", "[{k: 1, v: 2}, {k: 0, v: 3}]",
    '[{key: "a", value: 1}]', "[function(x) x]", "[{}]", "[[]]",
    "{a:: 1, b: 2}", "{a::: 1}", '{assert false : "obj-assert", a: 1}', '{a: error "lazy-field"}',
    '{[k]: 1 for k in ["x", "y"]}', "{a: {b: {c: null}}}", "{a: null, b: [null, {c: null}]}", '{"": 1}',
    '{"\\u0000": 1}', "{a: function(x) x}", "{a: 1} + {a+: 2}", "{local x = 1, a: x, b:: self.a}",
    "{a: [1, 2], b: {c: 'd'}}", "{name: 'n', x: 1.5, 'a b': true}",
    "function() 1", "function(x, y, z) x", "function(x=1) x", "std.length", "std.map", "std.id",
    'function(x) error "f-err"', "function(x) x > 1", "function(a, b) a + b", "function(k, v) [k, v]",
    "function(x) [x]", "function(x) {a: x}",
    "function(x, y=cap) [x, y]", "function(a, b, c=cap) a + c", "function(x, y=cap + x) y", "function(k, v=1, w=[cap, k]) w",
    "function(x=cap) x", "[function(x, y=cap) y]", "{f: function(x, y=cap) y}",
    "[1e308, 1e308]", "[-1e308, -1e308, 1]", '"%.70000f"', '"%.65536e"', '"%70000d"', '"%.65535g"', '"%0*.*f"',
    '"%(a)5.3s"', "[3, 1e308]", "[5, 70000, 1]", '["\u20ac\u20ac"]',
]

_NORM = re.compile(r"[0-9]+")


def panic_sig(rec, where="evalsrv"):
    msg = rec.s("msg") or ""
    loc = rec.s("loc") or ""
    msg = msg.split(" of `")[0].split("; it is inside")[0]
    return {"kind": "panic", "where": where, "msg": _NORM.sub("N", msg)[:120],
            "loc": re.sub(r":[0-9]+$", "", loc)}


def crash_sig(e, where="evalsrv", family=None):
    d = e.detail
    if "AddressSanitizer" in d or "LeakSanitizer" in d:
        m = re.search(r"(AddressSanitizer|LeakSanitizer): ([a-z-]+)", d)
        return {"kind": "sanitizer_report", "what": m.group(0) if m else "report"}
    if "overflowed its stack" in d:
        return {"kind": "native_stack_overflow", "where": where, "family": family}
    m = re.search(r"exit=(-?[0-9]+)", d)
    return {"kind": "crash", "where": where, "exit": int(m.group(1)) if m else None,
            "stderr": _NORM.sub("N", d[-160:])}


def observe(agg, srv, lines, desc, family, timeout=30.0):
    """Runs a script; records C01-type violations; returns Outcome or None (inconclusive)."""
    agg.evaluations += 1
    try:
        recs = srv.request(lines, timeout=timeout)
    except Crashed as e:
        if e.kind in ("timeout", "oom"):
            agg.inconc(e.kind)
            return None
        agg.violation(crash_sig(e, family=family), {"input": desc, "crash": e.detail[-800:]},
                      {"script": lines})
        return None
    o = Outcome(recs)
    if o.cls == "panic":
        agg.violation(panic_sig(o.rec), {"input": desc, "panic": o.rec.s("msg"), "loc": o.rec.s("loc")},
                      {"script": lines})
    elif o.cls == "herr":
        raise common.Broken("harness error: " + (o.rec.s("msg") or o.rec.raw[:200]))
    return o


# ------------------------------------------------------------------------------------------------
# leg 1: byte-level inputs

def bytes_shard(args):
    seed, n, gc_share = args[:3]
    asan = len(args) > 3 and args[3]
    rng = random.Random(seed)
    agg = Agg()
    if asan:
        srv = Server(binary=common.ASAN_EVALSRV, mem_gib=None,
                     env=dict(os.environ, ASAN_OPTIONS="detect_leaks=1:halt_on_error=1:abort_on_error=0:exitcode=66"))
    else:
        srv = Server()
    try:
        for i in range(n):
            family, data = genbytes.gen_input(rng)
            gcmode = "every:1" if rng.random() < gc_share else None
            stack = rng.choice([None, None, None, 0, 1, 3, 20, 200])
            lines = run_lines(data, path="<in>", gcmode=gcmode, stack=stack)
            o = observe(agg, srv, lines, {"family": family, "bytes": data[:400].decode("latin-1")}, family)
            if o is None:
                continue
            agg.count("class:" + o.cls)
            agg.count("family:" + family)
            kind = o.rec.get("kind") if o.cls != "value" else "value"
            agg.add("outcome_kinds", f"{o.cls}:{kind}")
            if o.cls in ("eval", "analyze", "parse", "lex", "value"):
                # non-trivial: got past the lexer (the input reached parser / analyzer / evaluator)
                if o.cls != "lex":
                    agg.nontrivial.add(common.h64(data))
            if o.cls != "value" and rng.random() < 0.35:
                # the same input through Session: the diagnostic must render
                lines2 = run_lines(data, path="<in>", stack=stack, session=(rng.randrange(2), rng.choice(["-", "0", "1", "2", "5"])))
                agg.evaluations += 1
                try:
                    recs = srv.request(lines2, timeout=30)
                    err = srv.stderr_since().decode("utf-8", "replace")
                    o2 = Outcome(recs)
                    if o2.cls == "panic":
                        agg.violation(panic_sig(o2.rec, "session"), {"input": data[:400].decode("latin-1"),
                                      "panic": o2.rec.s("msg"), "loc": o2.rec.s("loc")}, {"script": lines2})
                    elif o2.cls != "value":
                        agg.count("rendered")
                        if "error" not in err:
                            agg.violation({"kind": "no_diagnostic", "cls": o.cls, "errkind": kind},
                                          {"input": data[:400].decode("latin-1"), "stderr": err[:400]},
                                          {"script": lines2})
                except Crashed as e:
                    if e.kind in ("timeout", "oom"):
                        agg.inconc(e.kind)
                    else:
                        agg.violation(crash_sig(e, "session", family), {"input": data[:400].decode("latin-1"),
                                      "crash": e.detail[-800:]}, {"script": lines2})
            if i < 3:
                agg.sample({"leg": "bytes", "family": family, "input": data[:120].decode("latin-1"),
                            "outcome": o.describe()})
    finally:
        if asan and srv.proc is not None and srv.proc.poll() is None:
            rc, err = srv.quit()
            agg.count("asan_servers_exited_cleanly" if rc == 0 else "asan_servers_exit_%s" % rc)
            if rc not in (0, None) or "Sanitizer" in err:
                m = re.search(r"(AddressSanitizer|LeakSanitizer): ([a-z-]+)", err)
                agg.violation({"kind": "sanitizer_report", "what": m.group(0) if m else "exit %s" % rc},
                              {"stderr": err[-1500:], "seed": seed}, None)
        else:
            srv.close()
    return agg


# ------------------------------------------------------------------------------------------------
# leg 2: builtin x argument matrix

def std_functions(srv):
    src = ("{[f]: (if std.isFunction(std[f]) then std.length(std[f]) else -1) "
           "for f in std.objectFieldsAll(std)}")
    recs = srv.request(run_lines(src, multiline=0))
    o = Outcome(recs)
    import json
    return json.loads(o.out)


def size_ok(fname, idx, expr):
    if fname in SIZE_ARGS and idx in SIZE_ARGS[fname]:
        try:
            v = eval(expr.replace("/", "/"), {"__builtins__": {}})
        except Exception:
            return True
        if isinstance(v, (int, float)) and abs(v) > 100000:
            return False
    return True


def matrix_shard(args):
    seed, mode, funcs, budget = args
    rng = random.Random(seed)
    agg = Agg()
    srv = Server()
    try:
        for fname, arity in funcs:
            if mode == "full":
                pool = POOL_SMALL if arity >= 3 else POOL_LARGE
                if arity >= 4:
                    pool = POOL_SMALL[:12]
                combos = itertools.product(pool, repeat=arity)
                if arity >= 5:
                    combos = [tuple(rng.choice(POOL_LARGE) for _ in range(arity)) for _ in range(3000)]
            else:
                combos = [tuple(rng.choice(POOL_LARGE) for _ in range(arity)) for _ in range(budget)]
            for combo in combos:
                if not all(size_ok(fname, i, a) for i, a in enumerate(combo)):
                    continue
                src = "local cap = 7; std.%s(%s)" % (fname, ", ".join(combo))
                if fname == "format" or fname == "mod":
                    pass
                lines = run_lines(src, multiline=0)
                o = observe(agg, srv, lines, src, "matrix", timeout=20)
                if o is None:
                    continue
                agg.count("class:" + o.cls)
                kind = o.rec.get("kind") if o.cls != "value" else "value"
                agg.add("outcome_kinds", f"{o.cls}:{kind}")
                agg.add("builtin_ok" if o.cls == "value" else "builtin_err", fname)
                agg.nontrivial.add(common.h64(src))
                if agg.evaluations % 997 == 1:
                    agg.sample({"leg": "matrix", "input": src, "outcome": o.describe()})
    finally:
        srv.close()
    return agg


# ------------------------------------------------------------------------------------------------
# leg 2b: generated hostile values (nested, mixed arrays, odd keys) as arguments of every builtin

def mixed_value(rng, depth=0):
    """Like common.rand_value but biased towards heterogeneous arrays/objects (shape-dependent code paths)."""
    k = rng.random()
    if depth >= 3 or k < 0.25:
        return rng.choice([None, True, False, 0.0, 1.0, -1.5, 1e308, "", "a", "\u20ac", "x y", "1e5", "null"])
    if k < 0.6:
        return [mixed_value(rng, depth + 1) for _ in range(rng.choice([0, 1, 2, 2, 3, 4]))]
    return {rng.choice(["a", "b", "c", "", "x y", "1", "k\u20ac"]): mixed_value(rng, depth + 1) for _ in range(rng.choice([0, 1, 2, 3]))}


def values_shard(args):
    seed, funcs, per = args
    rng = random.Random(seed)
    agg = Agg()
    srv = Server()
    try:
        for fname, arity in funcs:
            if arity == 0 or arity > 4:
                continue
            for _ in range(per):
                pos = rng.randrange(arity)
                argv = []
                for i in range(arity):
                    if i == pos or rng.random() < 0.3:
                        argv.append(common.jval(mixed_value(rng)))
                    else:
                        argv.append(rng.choice(POOL_SMALL))
                if not all(size_ok(fname, i, a) for i, a in enumerate(argv)):
                    continue
                src = "local cap = 7; std.%s(%s)" % (fname, ", ".join(argv))
                o = observe(agg, srv, run_lines(src, multiline=0), src, "values", timeout=20)
                if o is None:
                    continue
                agg.count("values:" + o.cls)
                agg.nontrivial.add(common.h64(src))
    finally:
        srv.close()
    return agg



# ------------------------------------------------------------------------------------------------
# leg 2d: whole programs from the generator families of the other checks, looked at for the outcome class only

HISTORY_USES = ["X", "std.manifestYamlDoc(X)", "std.manifestTomlEx(X, ' ')", "std.manifestPython(X)", "std.prune(X)",
                "std.objectValues(X)", "std.objectValuesAll(X)", "std.objectKeysValues(X)", "std.objectKeysValuesAll(X)",
                "std.mergePatch(X, X)", "std.mergePatch({a: 1, z: 2}, X)", "std.toString(X)", "X == X", "X + X",
                "std.mapWithKey(function(k, v) v, X)", "std.manifestIni({main: X, sections: {s: X}})",
                "std.manifestJsonEx(X, ' ')", "std.manifestYamlStream([X, X])", "std.get(X, 'a', 0)", "std.objectHasEx(X, 'a', true)",
                "[X[k] for k in std.objectFields(X)]", "{[k]: X[k] for k in std.objectFieldsAll(X)}", "std.manifestXmlJsonml(['t', X])",
                "std.assertEqual(X, X)", "std.length(X)", "X {q: 1}", "std.objectRemoveKey(X, 'a')", "std.equals(X, {})"]


def programs_shard(args):
    seed, n, cases = args
    import genrmkey
    import genast
    import genprog
    from checks import c09
    rng = random.Random(seed)
    agg = Agg()
    srv = Server()
    try:
        def go(src, family, session=False):
            if isinstance(src, str):
                src = src.encode("utf-8")
            lines = run_lines(src, path="<prog>", stack=500, multiline=rng.randrange(2),
                              session=(rng.randrange(2), "-") if session else None)
            o = observe(agg, srv, lines, src[:600].decode("utf-8", "replace"), family, timeout=30)
            if o is not None:
                agg.count("programs:%s:%s" % (family, o.cls))
                agg.nontrivial.add(common.h64(src))
            return o
        for name, ctx, tree in cases:
            go(genast.render(tree, "min")[0], "binder_matrix", session=rng.random() < 0.2)
        for i in range(n):
            h = genrmkey.gen(rng)
            head, root = genrmkey.render(h)
            use = rng.choice(HISTORY_USES)
            go(head + "local X = %s; %s" % (root, use), "history")
            g = genprog.Gen(rng, depth=rng.choice([2, 3, 3, 4]), obj_heavy=rng.random() < 0.4)
            base = g.top()
            inj = c09.inject(base, rng)
            if inj is not None:
                go(genast.render(inj[0], "min")[0], "scope_fault_injected", session=rng.random() < 0.2)
            pool = rng.choice([["x"], ["x", "y"], ["x", "y", "z"], ["a", "b", "self_", "x"]])
            go(genast.render(c09.rename_to_pool(base, rng, pool), "min")[0], "renamed_to_pool")
            if i < 1:
                agg.sample({"leg": "programs", "history": head + root, "use": use})
        if seed % 16 == 0:
            for src in c09.TEMPLATES_OK + [t for t, _ in c09.TEMPLATES_BAD]:
                go(src, "scope_templates", session=True)
    finally:
        srv.close()
    return agg

# ------------------------------------------------------------------------------------------------
# leg 2c: function-specific grids (from reading the code: places where byte offsets, widths, sizes matter)

def grid_sources():
    out = []
    mb = ["\u20ac", "\u00e9", "\ud83d\ude00", "x", "_", "-", " ", "g", "8", "G"]
    for f, digit in (("parseHex", "a"), ("parseOctal", "7"), ("parseInt", "9")):
        for off in list(range(0, 52)) + [63, 64, 65, 127, 128, 129, 300]:
            for ch in mb:
                out.append('std.%s("%s%s%s")' % (f, digit * off, ch, digit * 3))
                out.append('std.%s("%s%s")' % (f, digit * off, ch))
    for f in ("parseYaml", "parseJson"):
        for off in (0, 1, 15, 16, 17, 31, 32, 33, 42, 43, 64):
            for pre in ("0x", "0o", "-0x", "", "1e", "0."):
                out.append('std.%s("%s%s\u20ac")' % (f, pre, "1" * off))
    precs = [0, 1, 16, 17, 18, 100, 400, 767, 1074, 1099, 1100, 1101, 65534, 65535, 65536, 65537, 70000, 4294967295, 4294967296, 1e300]
    for conv in "eEfFgGdioxXsc":
        for p in precs:
            out.append('std.format("%%.%s%s", [%s])' % ("%d" % p if p < 1e20 else "1" + "0" * 30, conv, "1.5" if conv not in "sc" else '"a"'))
            out.append('std.format("%%%s%s", [%s])' % ("%d" % p if p < 1e20 else "1" + "0" * 30, conv, "1.5" if conv not in "sc" else '"a"') if p <= 70000 else "1")
            out.append('std.format("%%.*%s", [%s, %s])' % (conv, "%d" % p if p < 1e20 else "1e300", "2.5" if conv not in "sc" else '"a"') if p <= 70000 or p >= 1e20 else "1")
            out.append('std.format("%%*%s", [%s, %s])' % (conv, "%d" % p if p < 1e20 else "1e300", "2.5" if conv not in "sc" else '"a"') if p <= 70000 or p >= 1e20 else "1")
    idx = ["0", "1", "-1", "3", "4", "-4", "-5", "2147483647", "2147483648", "-2147483649", "4294967296", "9007199254740992",
           "9007199254740993", "1e300", "-1e300", "0.5", "-0.5", "null", '"1"']
    for a in idx:
        for b in idx[:14]:
            out.append('"ab\u20ac"[%s:%s]' % (a if a != "null" else "", b if b != "null" else ""))
            out.append("[1, 2, 3][%s:%s:%s]" % (a if a != "null" else "", b if b != "null" else "", "1"))
            out.append("std.slice([1, 2, 3], %s, %s, %s)" % (a, b, "null"))
            out.append('std.substr("a\u20acb", %s, %s)' % (a, b))
        out.append("[1, 2, 3][%s]" % a)
        out.append('"ab\u20ac"[%s]' % a)
        out.append("[1, 2, 3][::%s]" % a)
        out.append("std.char(%s)" % a)
        out.append('std.splitLimit("a,b,c", ",", %s)' % a)
        out.append('std.splitLimitR("a,b,c", ",", %s)' % a)
        out.append("std.makeArray(%s, function(i) i)" % a if a not in ("2147483647", "2147483648", "4294967296", "9007199254740992", "9007199254740993", "1e300") else "1")
        out.append('std.repeat("ab", %s)' % a if a not in ("2147483647", "2147483648", "4294967296", "9007199254740992", "9007199254740993", "1e300") else "1")
        out.append("std.range(%s, 3)" % a if a not in ("-2147483649", "-1e300") else "1")
        out.append("std.range(0, %s)" % a if a not in ("2147483647", "2147483648", "4294967296", "9007199254740992", "9007199254740993", "1e300") else "1")
        out.append("1 << %s" % a)
        out.append("1 >> %s" % a)
        out.append("%s << 1" % a)
        out.append("std.pow(2, %s)" % a)
        out.append("std.log(%s)" % a)
        out.append("std.sqrt(%s)" % a)
        out.append("std.floor(%s) %% 7" % a)
        out.append("std.member([1], %s)" % a)
        out.append("std.count([1], %s)" % a)
        out.append('std.manifestJsonEx([1], std.repeat(" ", std.abs(%s) %% 5))' % (a if a not in ("null", '"1"') else "1"))
    # escapes in every pairing (high / low / non-surrogate) inside JSON and YAML strings and Jsonnet literals; blanks of every kind
    # around JSON tokens; every code point up to U+00A1 through the escaping functions
    hi, lo, bmp = ["\\ud83d", "\\uD800", "\\udbff"], ["\\ude00", "\\uDC00", "\\udfff"], ["\\u0041", "x", ""]
    for a in hi + lo + bmp:
        for b in hi + lo + bmp:
            for c in ("", "\\udc00", "\\ud800"):
                doc = '\\"' + a.replace("\\", "\\\\") + b.replace("\\", "\\\\") + c.replace("\\", "\\\\") + '\\"'
                out.append('std.parseJson("%s")' % doc)
                out.append('std.parseYaml("%s")' % doc)
                out.append('"%s%s%s"' % (a, b, c))
                out.append('std.length("%s%s%s")' % (a, b, c))
    for w in ["\\u000b", "\\u000c", "\\u0085", "\\u00a0", "\\u2028", "\\u3000", "\\ufeff", "\\u0000", " ", "\\t"]:
        for tmpl in ("%s1", "1%s", "[1%s, 2]", "[1, 2]%s", '{\\"a\\"%s: 1}', '{\\"a\\": 1}%s'):
            out.append('std.parseJson("%s")' % (tmpl % w))
            out.append('std.parseYaml("%s")' % (tmpl % w))
    for cp in range(0, 0xA2):
        for f in ("escapeStringJson", "escapeStringPython", "escapeStringBash", "escapeStringDollars", "escapeStringXML", "toString", "manifestJson",
                  "manifestYamlDoc", "manifestPython", "asciiUpper", "codepoint", "encodeUTF8", "md5", "base64"):
            out.append('std.%s("\\u%04x")' % (f, cp))
    # the known sourceannot finding and its neighbours: zero-width characters where an error is reported
    for z in ["\u0339", "\u0301", "\u200b", "\u200d", "\ufeff", "\u202e", "\u00ad", "\u0000", "\u0008", "\u007f", "\u0085"]:
        out.append(("RAW", z))
    return [x for x in out if x != "1"]


def grid_shard(args):
    seed, sources = args
    agg = Agg()
    srv = Server()
    try:
        for src in sources:
            if isinstance(src, tuple):
                data = src[1].encode("utf-8")
                lines = run_lines(data, path="<zw>", session=(0, "-"))
                agg.evaluations += 1
                try:
                    recs = srv.request(lines, timeout=30)
                    o2 = Outcome(recs)
                    if o2.cls == "panic":
                        agg.violation(panic_sig(o2.rec, "session"), {"input": src[1], "panic": o2.rec.s("msg"), "loc": o2.rec.s("loc")},
                                      {"script": lines})
                except Crashed as e:
                    if e.kind not in ("timeout", "oom"):
                        agg.violation(crash_sig(e, "session", "grid"), {"input": src[1], "crash": e.detail[-400:]}, {"script": lines})
                continue
            lines = run_lines(src, multiline=0)
            o = observe(agg, srv, lines, src, "grid", timeout=60)
            if o is None:
                continue
            agg.count("grid:" + o.cls)
            agg.nontrivial.add(common.h64(src))
    finally:
        srv.close()
    return agg


# ------------------------------------------------------------------------------------------------
# leg 3: through the real CLI (exit status contract), incl. ext vars / TLAs and deep towers

DEEP = {
    "paren": ("(", "1", ")"),
    "array": ("[", "1", "]"),
    "object": ("{a:", "1", "}"),
    "unary": ("-", "1", ""),
    "not": ("!", "true", ""),
    "local": ("local x = 1; ", "x", ""),
    "if": ("if true then ", "1", ""),
    "ifelse": ("if false then 0 else ", "1", ""),
    "function": ("function(x) ", "1", ""),
    "error": ("error ", "'e'", ""),
    "assert": ("assert true; ", "1", ""),
    "call": ("std.id(", "1", ")"),
    "index": ("[0][", "0", "]"),
    "binary_right": ("1 + (", "1", ")"),
    "objext": ("{} ", "{}", ""),
    "field": ("", "{a: 1}", ""),          # e.a.a.a... handled specially
    "binary_left": ("", "1", ""),        # 1 + 1 + 1 ... handled specially
    "arrcomp": ("[", "1", " for x in [1]]"),
    "objlocal": ("{local y = ", "1", ", a: y}"),
    "import": ("import ", "'x'", ""),
}


def deep_source(construct, depth):
    pre, core, post = DEEP[construct]
    if construct == "field":
        return "local o = {a: self}; o" + ".a" * depth
    if construct == "binary_left":
        return "1" + " + 1" * depth
    return pre * depth + core + post * depth


def run_cli(argv, stdin=b"", timeout=60, env=None):
    e = dict(os.environ, NO_COLOR="1")
    e.pop("RUST_BACKTRACE", None)
    if env:
        e.update(env)
    try:
        p = subprocess.run([common.CLI] + argv, input=stdin, capture_output=True, timeout=timeout, env=e,
                           preexec_fn=common._limits(8 << 30))
        return p.returncode, p.stdout, p.stderr
    except subprocess.TimeoutExpired:
        return None, b"", b""


def cli_verdict(agg, rc, out, err, desc, replay, family):
    if rc is None:
        agg.inconc("timeout")
        return
    errs = err.decode("utf-8", "replace")
    if "memory allocation of" in errs:
        agg.inconc("oom")
        return
    bad = None
    pm = re.search(r"panicked at ([^\n]+?):[0-9]+:[0-9]+:\n([^\n]*)", errs)
    if rc not in (0, 1, 2):
        if "overflowed its stack" in errs:
            bad = {"kind": "native_stack_overflow", "where": "cli", "family": family}
        elif pm:
            # a panic of the tool: identified by where it was raised and its message (not by the tail of stderr, which
            # depends on RUST_BACKTRACE)
            bad = {"kind": "panic", "where": "cli", "loc": re.sub(r"^.*/registry/src/[^/]+/", "", pm.group(1)), "msg": _NORM.sub("N", pm.group(2))[:120]}
        else:
            bad = {"kind": "cli_exit", "exit": rc, "family": family, "stderr": _NORM.sub("N", errs[-120:])}
    elif "panicked at" in errs or "internal error" in errs:
        bad = {"kind": "cli_panic_text", "family": family, "stderr": _NORM.sub("N", errs[-160:])}
    elif rc != 0 and not errs.strip():
        bad = {"kind": "cli_silent_failure", "exit": rc, "family": family}
    if bad:
        agg.violation(bad, {"input": desc, "exit": rc, "stderr": errs[-600:]}, replay)
    agg.count(f"cli_exit:{rc}")


EXT_VALUES = ["", "plain", "a=b", "=", "x=y=z", '"quoted"', "it's", "line1\nline2", "tab\there", "\u20ac\U0001f600",
              "  spaced  ", "null", "1e308", "{a: 1}", "%d", "\\n", "-flag", "--", "\u0001"]
CODE_VALUES = ["1", "'s'", "{a: 1}", "[1, 2]", "null", "function(x) x", "error 'ext-fail'", "1 +", "std.extVar('a')",
               "local x = 2; x * 3", "{a: self.b, b: 1}", "undefined_var", "\"\\u20ac\"", "1e400", "import 'nope'"]


def cli_shard(args):
    seed, n = args
    rng = random.Random(seed)
    agg = Agg()
    import shutil
    import tempfile
    import genast
    import genprog
    import genrmkey
    from checks.c05 import fancy
    os.makedirs(common.SCRATCH, exist_ok=True)
    scratch = tempfile.mkdtemp(dir=common.SCRATCH, prefix="c01cli")
    for i in range(n):
        family, data = genbytes.gen_input(rng)
        k = rng.random()
        if k < 0.12:
            # structured programs (objects with every visibility / inheritance / computed fields) so that the output modes
            # that walk the top-level value (-m, -y) see more than literals
            g = genprog.Gen(rng, depth=rng.choice([2, 3]), obj_heavy=True)
            family, data = "genprog_object", genast.render(g.O(g.depth, [], False), "min")[0]
        elif k < 0.24:
            v = {n_: common.rand_value(rng, 1, 3) for n_ in rng.sample(["a", "b.json", "c d", "e", "f"], rng.randint(0, 4))}
            family, data = "fancy_object", fancy(v, rng).encode("utf-8")
        elif k < 0.32:
            h = genrmkey.gen(rng)
            head, root = genrmkey.render(h)
            family, data = "history_object", (head + root).encode("utf-8")
        elif k < 0.38:
            v = [common.rand_value(rng, 1, 3) for _ in range(rng.randint(0, 3))]
            family, data = "fancy_array", fancy(v, rng).encode("utf-8")
        elif k < 0.46:
            # failing programs with traces of every length (the rendered trace is cropped by -t)
            depth = rng.choice([0, 1, 2, 3, 5, 9, 30])
            fail = rng.choice(["error 'boom'", "1 + {}", "[1][5]", "{a: 1}.b", "std.parseInt('x')", "assert false : 'a'; 1", "std.trace('t', error 'after-trace')",
                               "local a = b, b = a; a", "std.map(function(x) x.y, [1])[0]", "{assert self.v > 1 : 'inv', v: 1}.v"])
            prog = "local f(n) = if n == 0 then %s else [f(n - 1)][0]; f(%d)" % (fail, depth)
            family, data = "failing_program", prog.encode("utf-8")
        if k < 0.38 and rng.random() < 0.3:
            data = b"function(p=1) " + data
        if b"\x00" in data and rng.random() < 0.5:
            data = data.replace(b"\x00", b" ")
        argv = []
        if k < 0.38 or rng.random() < 0.15:
            r2 = rng.random()
            if r2 < 0.45:
                mdir = os.path.join(scratch, "m%d" % i)
                os.mkdir(mdir)
                argv += ["-m", mdir]
            elif r2 < 0.6:
                argv += ["-o", os.path.join(scratch, "o%d.json" % i)]
        if rng.random() < 0.3:
            argv += ["-s", str(rng.choice([0, 1, 5, 50, 500, 5000]))]
        if rng.random() < (0.8 if family == "failing_program" else 0.3):
            argv += ["-t", str(rng.choice([0, 0, 1, 2, 3, 4, 10, 2 ** 31, 2 ** 64 - 1]))]
        if rng.random() < 0.2:
            argv += [rng.choice(["-S", "-y", "--no-trailing-newline"])]
        used = set()
        for _ in range(rng.choice([0, 0, 1, 2, 3])):
            name = rng.choice(["a", "b", "x", "v1", "\u20ac"])
            if name in used:
                continue
            used.add(name)
            kind = rng.choice(["--ext-str", "--ext-code", "--tla-str", "--tla-code", "-V", "-A"])
            val = rng.choice(CODE_VALUES if "code" in kind else EXT_VALUES)
            if "\x00" in val:
                continue
            argv += [kind, f"{name}={val}"]
        text = None
        if b"\x00" not in data and rng.random() < 0.5:
            try:
                text = data.decode("utf-8")
            except UnicodeDecodeError:
                text = None
        if text is not None:
            full = argv + ["-e", "--", text]
            rc, out, err = run_cli(full)
            replay = {"argv": full}
        else:
            full = argv + ["-"]
            rc, out, err = run_cli(full, stdin=data)
            replay = {"argv": full, "stdin": data.decode("latin-1")}
        agg.evaluations += 1
        agg.nontrivial.add(common.h64(data, " ".join(argv)))
        cli_verdict(agg, rc, out, err, {"argv": full, "stdin": data[:300].decode("latin-1")}, replay, family)
        agg.add("cli_families", (family, "-m" in argv, "-y" in argv, "-S" in argv))
        if i < 2:
            agg.sample({"leg": "cli", "argv": full, "stdin": data[:100].decode("latin-1"), "exit": rc,
                        "stderr": err[:160].decode("utf-8", "replace")})
    shutil.rmtree(scratch, ignore_errors=True)
    return agg


def deep_shard(args):
    construct, depths = args
    agg = Agg()
    for d in depths:
        src = deep_source(construct, d)
        rc, out, err = run_cli(["-s", "1000000", "-"], stdin=src.encode(), timeout=120)
        agg.evaluations += 1
        agg.nontrivial.add(common.h64(construct, str(d)))
        cli_verdict(agg, rc, out, err, {"construct": construct, "depth": d},
                    {"argv": ["-s", "1000000", "-"], "stdin_gen": {"construct": construct, "depth": d}},
                    "deep:" + construct)
        agg.count(f"deep:{construct}:{d}:exit={rc}")
        if rc not in (0, 1, 2):
            break   # deeper towers of the same construct fail the same way
    return agg


def fuzz_judge(agg, d):
    """Classification of one re-run fuzz artifact for C01: any panic / sanitizer report / abort is a violation; a
    failure of the C16 span monitor belongs to C16's own campaign and is only counted here."""
    import fuzzleg
    data = d["data"]
    desc = {"family": "fuzz", "bytes": data[:400].decode("latin-1")}
    replay = {"script": run_lines(data, path="<in>", stack=120), "fuzz_input_hex": data.hex()}
    if d["cls"] == "panic":
        agg.violation(fuzzleg.panic_signature(d), {"input": desc, "panic": d["msg"], "loc": "%s:%s" % (d["loc"], d["line"])}, replay)
    elif d["cls"] == "sanitizer":
        agg.violation({"kind": "sanitizer_report", "what": d["what"]}, {"input": desc, "stderr": d["stderr"][-800:]}, replay)
    elif d["cls"] == "native_stack_overflow":
        agg.violation({"kind": "native_stack_overflow", "where": "fuzz", "family": "fuzz"}, {"input": desc, "stderr": d["stderr"][-400:]}, replay)
    elif d["cls"] == "crash":
        agg.violation({"kind": "crash", "where": "fuzz", "exit": d.get("exit")}, {"input": desc, "stderr": d["stderr"][-800:]}, replay)
    elif d["cls"] == "monitor":
        agg.count("fuzz_monitor_of_other_property:" + d["prop"])
    elif d["cls"] in ("timeout", "resource"):
        agg.inconc("fuzz_" + d["cls"])
    else:
        agg.count("fuzz_artifact_not_reproduced")


# ------------------------------------------------------------------------------------------------

def named_args_shard(args):
    """Every argument bound by name (reversed order, and positional-then-named) must give what the positional call gives:
    documented parameter names, driver/stdparams.py."""
    import stdparams
    from tablecheck import run_cases as _run_cases
    agg = Agg()
    ev = common.Ev(agg)
    try:
        _run_cases(agg, ev, stdparams.named_cases(None))
    finally:
        ev.close()
    return agg


def run(tier, seed):
    t0 = time.time()
    total = Agg()
    for a in common.pmap(named_args_shard, [(seed,)]):
        total.merge(a)
    quick = tier != "thorough"
    # leg 1
    n_bytes = 240_000 if quick else 6_000_000
    shards = [(seed * 1000003 + i, n_bytes // 64, 0.02) for i in range(64)]
    for a in common.pmap(bytes_shard, shards):
        total.merge(a)
    # leg 2
    srv = Server()
    try:
        funcs = sorted((f, n) for f, n in std_functions(srv).items() if n >= 0)
    finally:
        srv.close()
    total.count("std_functions", len(funcs))
    rng = random.Random(seed)
    if quick:
        per = 240
        order = funcs[:]
        rng.shuffle(order)
        shards = [(seed * 7919 + i, "random", order[i::32], per) for i in range(32)]
    else:
        order = funcs[:]
        rng.shuffle(order)
        shards = [(seed * 7919 + i, "full", order[i::48], 0) for i in range(48)]
        shards += [(seed * 7907 + i, "random", order[i::16], 1500) for i in range(16)]
    for a in common.pmap(matrix_shard, shards):
        total.merge(a)
    for a in common.pmap(values_shard, [(seed * 6007 + i, order[i::32], 60 if quick else 2500) for i in range(32)]):
        total.merge(a)
    from checks import c09 as _c09
    mcases = [(name, ctx, t2) for name, t in _c09.binder_matrix() for ctx, t2 in _c09.in_contexts(t)]
    if quick:
        mcases = mcases[seed % 2::2]
    for a in common.pmap(programs_shard, [(seed * 7001 + i, 150 if quick else 6000, mcases[i::32]) for i in range(32)]):
        total.merge(a)
    grids = grid_sources()
    rng.shuffle(grids)
    if quick:
        grids = [g for g in grids if isinstance(g, tuple)] + [g for g in grids if not isinstance(g, tuple)][:12000]
    total.count("grid_sources", len(grids))
    for a in common.pmap(grid_shard, [(seed, grids[i::32]) for i in range(32)]):
        total.merge(a)
    # leg 3
    n_cli = 1600 if quick else 40_000
    shards = [(seed * 104729 + i, n_cli // 16) for i in range(16)]
    for a in common.pmap(cli_shard, shards):
        total.merge(a)
    depths = [10, 100, 1000, 5000, 20000, 100000] if quick else [10, 100, 1000, 3000, 10000, 30000, 100000, 300000]
    shards = [(c, depths) for c in DEEP]
    for a in common.pmap(deep_shard, shards):
        total.merge(a)
    if not quick:
        # leg 5: the byte-level workload on an AddressSanitizer + LeakSanitizer build of the server
        common.build_asan()
        for a in common.pmap(bytes_shard, [(seed * 15485863 + i, 6000, 0.05, True) for i in range(16)]):
            total.merge(a)
        total.count("asan_leg_inputs", 16 * 6000)
        # leg 6: coverage-guided inputs (libFuzzer + ASan) through load/evaluate/manifest and the rendered diagnostics
        import fuzzleg
        fuzzleg.run_leg(total, PROP, "fz_pipeline", int(os.environ.get("VERIF_FUZZ_SECONDS") or 900), seed, 2048, fuzz_judge)
    rule = ("byte-level inputs (random bytes, token soup, mutated ui-tests corpus) loaded/evaluated/manifested in "
            "evalsrv under catch_unwind (1/3 of failing inputs again through Session to see the rendered "
            "diagnostic); every std function x argument tuples from a boundary pool; a sample through the release "
            "CLI with random flags/ext vars/TLAs and every output mode (-S, -y, -m, -o) on byte-level inputs and on generated objects "
            "(all visibilities, inheritance, computed fields, construction histories, function roots); whole programs from the other checks' generators (objectRemoveKey/inheritance "
            "histories consumed by 28 builtins and manifesters, programs with an injected scoping fault, binders renamed to a "
            "small pool, the binder matrix of C09) evaluated for the outcome class; nesting towers of every recursive construct through the CLI; thorough tier: the "
            "byte-level workload again on an ASan/LSan build, and a coverage-guided libFuzzer campaign (ASan, debug assertions, "
            "overflow checks) through load/evaluate/manifest and the Session diagnostics, every kept artifact re-run alone. "
            "documented parameter names: every argument bound by name (reversed order, and positional-then-named) gives what the positional call gives (driver/stdparams.py). distinct_nontrivial = distinct inputs that got past the lexer (bytes leg) + distinct builtin calls + "
            "distinct CLI cases.")
    return common.finish(PROP, tier, seed, total, rule, t0,
                         assumptions=["resource exhaustion (OOM, timeouts) is inconclusive, not a verdict",
                                      "size arguments of repeat/range/makeArray are kept <= 1e5"])

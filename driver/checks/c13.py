"""C13 - imports resolve deterministically, load once and deliver exact content."""
import json
import os
import random
import re
import shutil
import subprocess
import tempfile
import time

import common
import oracles
from common import Agg, jstr

PROP = "C13"
import resource
resource.setrlimit(resource.RLIMIT_CORE, (0, 0))

NAMES = ["a.libsonnet", "b.libsonnet", "data.txt", "bin.dat", "name with space.libsonnet", "\u00e9.libsonnet", "c.jsonnet"]
BIN_CONTENTS = [b"", b"plain ascii\n", "h\u00e9llo \u20ac\U0001f600".encode("utf-8"), b"\xff\xfe\x00bin", b"a\xc3\x28b", b"\xe2\x82", b"\xed\xa0\x80x",
                b"line1\r\nline2", bytes(range(256)), b"\xf0\x9f\x98", b"ok\x80\x80", b"\xc0\x80"]


def run_cli(argv, cwd=None, uid=None, timeout=60):
    def pre():
        os.setgid(uid)
        os.setuid(uid)
    try:
        p = subprocess.run([common.CLI] + argv, capture_output=True, cwd=cwd, env=dict(os.environ, NO_COLOR="1"),
                           preexec_fn=pre if uid is not None else None, timeout=timeout)
    except subprocess.TimeoutExpired:
        return None, b"", b""
    except PermissionError:
        return "noperm", b"", b""
    return p.returncode, p.stdout, p.stderr


class Tree:
    """A generated directory tree + the model of what each import must deliver."""

    def __init__(self, rng, root):
        self.rng = rng
        self.root = root
        self.dirs = {"main": os.path.join(root, "main"), "sub": os.path.join(root, "main", "sub"),
                     "lib1": os.path.join(root, "lib1"), "lib2": os.path.join(root, "lib2"), "lib3": os.path.join(root, "lib 3")}
        for d in self.dirs.values():
            os.makedirs(d, exist_ok=True)
        self.uid_of = {}       # real path -> uid
        self.content = {}      # real path -> bytes
        self.counter = 0

    def put_lib(self, dirkey, name, extra_imports=""):
        self.counter += 1
        uid = "u%d" % self.counter
        path = os.path.join(self.dirs[dirkey], name)
        body = 'std.trace("EVAL:%s", {id: "%s", file: std.thisFile%s})' % (uid, uid, extra_imports)
        with open(path, "w", encoding="utf-8") as f:
            f.write(body)
        self.uid_of[os.path.realpath(path)] = uid
        return uid

    def put_bin(self, dirkey, name, data):
        path = os.path.join(self.dirs[dirkey], name)
        with open(path, "wb") as f:
            f.write(data)
        self.content[os.path.realpath(path)] = data

    def resolve(self, spelling, importer_dir, jdirs):
        """The search the property states: importer's directory, then -J right-most first; absolute bypasses."""
        if os.path.isabs(spelling):
            return spelling if os.path.exists(spelling) else None
        for base in [importer_dir] + list(reversed(jdirs)):
            full = os.path.join(base, spelling)
            if os.path.exists(full):
                return full
        return None


def spellings(rng, name, in_dir_key):
    """Different relative spellings of the same file from main/."""
    out = [name, "./" + name, "sub/../" + name, "./././" + name, "../main/" + name]
    if in_dir_key == "sub":
        out = ["sub/" + name, "./sub/" + name, "sub/./" + name, "sub/../sub/" + name]
    return out


def tree_case(agg, rng, quick):
    tmp = tempfile.mkdtemp(dir=common.SCRATCH)
    os.chmod(tmp, 0o755)
    try:
        t = Tree(rng, tmp)
        jkeys = rng.sample(["lib1", "lib2", "lib3"], rng.randint(0, 3))
        if rng.random() < 0.35:
            # the same directory may be named more than once; the right-most occurrence is what counts
            jkeys = [rng.choice(["lib1", "lib2", "lib3"]) for _ in range(rng.randint(2, 5))]
        jdirs = [t.dirs[k] for k in jkeys]
        main = t.dirs["main"]
        fields = []          # (field name, jsonnet expr, expected python value or ("error",))
        first_spelling = {}  # uid -> thisFile expected
        order = []
        nfield = [0]

        def add_field(expr, expected):
            nfield[0] += 1
            fields.append(("f%02d" % nfield[0], expr, expected))

        def expect_import(spelling, importer_dir=main):
            full = t.resolve(spelling, importer_dir, jdirs)
            if full is None:
                return None, None
            real = os.path.realpath(full)
            uid = t.uid_of.get(real)
            if uid is None:
                return None, full
            if uid not in first_spelling:
                first_spelling[uid] = full
                order.append(uid)
            return uid, full
        # library files duplicated across importer dir / -J dirs / subdir
        for name in rng.sample(NAMES[:2] + NAMES[4:], rng.randint(1, 3)):
            placed = rng.sample(["main", "sub", "lib1", "lib2", "lib3"], rng.randint(1, 4))
            for dk in placed:
                t.put_lib(dk, name)
            for _ in range(rng.randint(1, 4)):
                dk = "sub" if ("sub" in placed and rng.random() < 0.3) else "main"
                sp = rng.choice(spellings(rng, name, dk))
                if rng.random() < 0.15:
                    pl = [d for d in placed if d in ("lib1", "lib2", "lib3")]
                    if pl:
                        sp = os.path.join(t.dirs[rng.choice(pl)], name)      # absolute path
                uid, full = expect_import(sp)
                if uid is None and full is None:
                    add_field("import %s" % jstr(sp), ("error", "not found"))
                else:
                    add_field("(import %s).id" % jstr(sp), uid)
        # a symlink to a file and to a directory: same file by another spelling
        if rng.random() < 0.6:
            uid = t.put_lib("lib1", "target.libsonnet")
            os.symlink(os.path.join(t.dirs["lib1"], "target.libsonnet"), os.path.join(main, "link.libsonnet"))
            os.symlink(t.dirs["lib1"], os.path.join(main, "linkdir"))
            for sp in rng.sample(["link.libsonnet", "linkdir/target.libsonnet", os.path.join(t.dirs["lib1"], "target.libsonnet"),
                                  "./link.libsonnet"], rng.randint(1, 4)):
                u, full = expect_import(sp)
                add_field("(import %s).id" % jstr(sp), u)
        # nested import: a library importing relative to ITS directory, and a cycle that is never forced
        if rng.random() < 0.6:
            t.put_lib("lib2", "inner.libsonnet")
            t.put_lib("main", "inner.libsonnet")
            outer_uid = t.put_lib("lib2", "outer.libsonnet", ', inner: (import "inner.libsonnet").id, again: (import "./inner.libsonnet").id')
            sp = os.path.join(t.dirs["lib2"], "outer.libsonnet")
            u, full = expect_import(sp)
            inner_uid, _ = expect_import("inner.libsonnet", importer_dir=t.dirs["lib2"])
            add_field("(import %s).inner" % jstr(sp), inner_uid)
            add_field("(import %s).again" % jstr(sp), inner_uid)
        if rng.random() < 0.4:
            with open(os.path.join(main, "cyc1.libsonnet"), "w") as f:
                f.write('{a: 1, other: import "cyc2.libsonnet"}')
            with open(os.path.join(main, "cyc2.libsonnet"), "w") as f:
                f.write('{b: 2, other: import "cyc1.libsonnet"}')
            add_field('(import "cyc1.libsonnet").other.other.other.b', 2.0)
        # importstr / importbin
        for _ in range(rng.randint(1, 3)):
            data = rng.choice(BIN_CONTENTS)
            name = rng.choice(["data%d.txt", "bin%d.dat", "blob%d"]) % len(fields)
            dk = rng.choice(["main", "lib1", "lib2", "lib3", "sub"])
            t.put_bin(dk, name, data)
            sp = rng.choice(spellings(rng, name, dk)) if dk in ("main", "sub") else name
            full = t.resolve(sp, main, jdirs)
            if full is None or os.path.isdir(full):
                add_field("importstr %s" % jstr(sp), ("error", "not found"))
                continue
            real = t.content[os.path.realpath(full)]
            add_field("importstr %s" % jstr(sp), oracles.lossy_utf8(real))
            add_field("importbin %s" % jstr(sp), [float(b) for b in real])
        # std.thisFile of each library = the path it was first loaded by
        thisfile_fields = []
        # the root forces fields in sorted order, which is the order they were generated in
        # faults
        fault = rng.choice([None, None, "missing", "directory", "dangling", "loop", "unreadable"])
        if fault == "missing":
            add_field('import "no_such_file.libsonnet"', ("error", "not found"))
        elif fault == "directory":
            os.mkdir(os.path.join(main, "adir.libsonnet"))
            add_field('import "adir.libsonnet"', ("error", "read"))
        elif fault == "dangling":
            os.symlink(os.path.join(tmp, "nowhere"), os.path.join(main, "dangling.libsonnet"))
            add_field('import "dangling.libsonnet"', ("error", "not found"))
        elif fault == "loop":
            os.symlink(os.path.join(main, "loop2"), os.path.join(main, "loop1"))
            os.symlink(os.path.join(main, "loop1"), os.path.join(main, "loop2"))
            add_field('importstr "loop1"', ("error", "not found"))
        elif fault == "unreadable":
            p = os.path.join(main, "secret.libsonnet")
            with open(p, "w") as f:
                f.write("1")
            os.chmod(p, 0)
            add_field('import "secret.libsonnet"', ("error", "read"))
        # build the root: each field separately evaluable; failing fields are evaluated in their own run
        ok_fields = [(n, e, x) for (n, e, x) in fields if not (isinstance(x, tuple) and x and x[0] == "error")]
        bad_fields = [(n, e, x) for (n, e, x) in fields if isinstance(x, tuple) and x and x[0] == "error"]
        uids_in_root = []
        root_lines = ["{"]
        for n, e, x in ok_fields:
            root_lines.append("  %s: %s," % (n, e))
        # thisFile: ask each loaded library for its std.thisFile at the end (zz sorts last)
        k = 0
        for uid in order:
            k += 1
            root_lines.append("  zz%02d: (import %s).file," % (k, jstr(first_spelling[uid])))
        root_lines.append("}")
        root_src = "\n".join(root_lines)
        root_path = os.path.join(main, "root.jsonnet")
        with open(root_path, "w", encoding="utf-8") as f:
            f.write(root_src)
        argv = []
        for d in jdirs:
            argv += [rng.choice(["-J", "--jpath"]), d]
        argv += [root_path]
        uid_run = 65534 if fault == "unreadable" else None
        rc, out, err = run_cli(argv, uid=uid_run)
        agg.evaluations += 1
        if rc == "noperm":
            agg.inconc("setuid_child_cannot_run_here")
            return
        desc = {"root": root_src[:1500], "jdirs": jkeys, "argv": [a.replace(tmp, "<tmp>") for a in argv]}
        replay = {"tree": desc}
        if rc is None:
            agg.inconc("timeout")
            return
        errs = err.decode("utf-8", "replace")
        if rc != 0:
            agg.violation({"kind": "root_with_valid_imports_fails", "exit": rc},
                          dict(desc, stderr=errs[-600:].replace(tmp, "<tmp>")), replay)
            return
        try:
            got = oracles.strict_json(out.decode("utf-8"))
        except Exception as e:
            agg.violation({"kind": "output_not_json"}, dict(desc, why=str(e)), replay)
            return
        for n, e, x in ok_fields:
            if not common.same_value(got.get(n), x, strict_zero=False):
                what = "importstr" if e.startswith("importstr") else "importbin" if e.startswith("importbin") else "import"
                agg.violation({"kind": "import_delivers_wrong_content", "what": what},
                              dict(desc, field=n, expr=e.replace(tmp, "<tmp>"), expected=repr(x)[:300], got=repr(got.get(n))[:300]), replay)
                return
        # load once: every uid traced at most once, exactly the expected ones
        traced = re.findall(r"TRACE: EVAL:(u[0-9]+)", errs)
        if sorted(traced) != sorted(order):
            dup = sorted({u for u in traced if traced.count(u) > 1})
            agg.violation({"kind": "file_loaded_more_than_once" if dup else "unexpected_set_of_loaded_files"},
                          dict(desc, traced=traced, expected=order), replay)
            return
        k = 0
        for uid in order:
            k += 1
            if got.get("zz%02d" % k) != first_spelling[uid]:
                agg.violation({"kind": "thisFile_not_first_load_path"},
                              dict(desc, uid=uid, expected=first_spelling[uid].replace(tmp, "<tmp>"),
                                   got=str(got.get("zz%02d" % k)).replace(tmp, "<tmp>")), replay)
                return
        agg.count("trees_ok")
        agg.count("imports_checked", len(ok_fields))
        agg.count("files_loaded_once", len(order))
        for key in jkeys:
            pass
        agg.add("jdir_orders", tuple(jkeys))
        # failing imports: exit 1, error located at the import expression
        for n, e, x in bad_fields:
            src = "\n\n  " + e
            bad_path = os.path.join(main, "bad_%s.jsonnet" % n)
            with open(bad_path, "w", encoding="utf-8") as f:
                f.write(src)
            argv2 = []
            for d in jdirs:
                argv2 += ["-J", d]
            rc2, out2, err2 = run_cli(argv2 + [bad_path], uid=uid_run)
            agg.evaluations += 1
            if rc2 == "noperm":
                agg.inconc("setuid_child_cannot_run_here")
                continue
            e2 = err2.decode("utf-8", "replace")
            d2 = dict(desc, expr=e, stderr=e2[-500:].replace(tmp, "<tmp>"), exit=rc2)
            if rc2 != 1 or out2 != b"":
                agg.violation({"kind": "failing_import_contract", "fault": x[1], "exit": rc2}, d2, replay)
                return
            m = re.search(r"--> (.*):([0-9]+):([0-9]+)", e2)
            if m is None or m.group(1) != bad_path or (int(m.group(2)), int(m.group(3))) != (3, 3):
                agg.violation({"kind": "import_error_not_at_import_site", "fault": x[1]}, d2, replay)
                return
            agg.count("fault:" + (fault or x[1]))
        agg.nontrivial.add(common.h64(root_src, repr(jkeys)))
        if len(agg.samples) < 2:
            agg.sample({"root": root_src[:400].replace(tmp, "<tmp>"), "jdirs": jkeys, "loaded": order})
    finally:
        for root, dirs, files in os.walk(tmp):
            for f in files:
                try:
                    os.chmod(os.path.join(root, f), 0o644)
                except OSError:
                    pass
        shutil.rmtree(tmp, ignore_errors=True)


def shard(args):
    seed, n, quick = args
    rng = random.Random(seed)
    agg = Agg()
    os.makedirs(common.SCRATCH, exist_ok=True)
    os.chmod(common.SCRATCH, 0o755)
    for i in range(n):
        tree_case(agg, rng, quick)
    return agg


def precedence_shard(args):
    """Exhaustive: one file name placed in every subset of {importer dir, J1, J2, J3} x every order of -J flags."""
    seed, masks = args
    agg = Agg()
    os.makedirs(common.SCRATCH, exist_ok=True)
    import itertools
    seqs = [()]
    for nj in (1, 2, 3, 4):
        seqs += list(itertools.product(["lib1", "lib2", "lib3"], repeat=nj))
    for mask in masks:
        for perm in seqs:
            for nj in (len(perm),):
                tmp = tempfile.mkdtemp(dir=common.SCRATCH)
                try:
                    t = Tree(random.Random(0), tmp)
                    placed = [k for i, k in enumerate(["main", "lib1", "lib2", "lib3"]) if mask >> i & 1]
                    for k in placed:
                        with open(os.path.join(t.dirs[k], "x.libsonnet"), "w") as f:
                            f.write(jstr(k))
                    jk = list(perm[:nj])
                    root = os.path.join(t.dirs["main"], "root.jsonnet")
                    with open(root, "w") as f:
                        f.write('import "x.libsonnet"')
                    argv = []
                    for k in jk:
                        argv += ["-J", t.dirs[k]]
                    rc, out, err = run_cli(argv + [root])
                    agg.evaluations += 1
                    expect = "main" if "main" in placed else next((k for k in reversed(jk) if k in placed), None)
                    desc = {"placed": placed, "jpath_order": jk, "exit": rc, "stdout": out.decode("utf-8", "replace")[:100]}
                    if expect is None:
                        if rc != 1:
                            agg.violation({"kind": "missing_import_not_an_error"}, desc, None)
                    elif rc != 0 or out.decode("utf-8").strip() != json.dumps(expect):
                        agg.violation({"kind": "search_order", "expected": expect}, dict(desc, expected=expect), None)
                    agg.nontrivial.add(common.h64(str(mask), repr(jk)))
                finally:
                    shutil.rmtree(tmp, ignore_errors=True)
    return agg


def importers_shard(args):
    """Two importers in different directories use the same relative string: each resolution is a function of
    (that importer's directory, the -J list) only, whatever the other one resolved before."""
    seed, masks = args
    agg = Agg()
    os.makedirs(common.SCRATCH, exist_ok=True)
    import itertools
    jseqs = [()] + [(a,) for a in ("lib1", "lib2")] + list(itertools.product(["lib1", "lib2"], repeat=2))
    kinds = ["import", "importstr", "importbin"]
    for mask in masks:
        placed = [k for i, k in enumerate(["main", "sub", "lib1", "lib2"]) if mask >> i & 1]
        for jk in jseqs:
            for k1, k2 in itertools.product(kinds, repeat=2):
                for first in ("main", "sub"):
                    tmp = tempfile.mkdtemp(dir=common.SCRATCH)
                    try:
                        t = Tree(random.Random(0), tmp)
                        for k in placed:
                            with open(os.path.join(t.dirs[k], "x.libsonnet"), "w") as f:
                                f.write(jstr(k))
                        # importer files sit next to (or away from) a sibling x.libsonnet
                        with open(os.path.join(t.dirs["main"], "imp_main.libsonnet"), "w") as f:
                            f.write('%s "x.libsonnet"' % k1)
                        with open(os.path.join(t.dirs["sub"], "imp_sub.libsonnet"), "w") as f:
                            f.write('%s "x.libsonnet"' % k2)
                        parts = {"main": 'import "imp_main.libsonnet"', "sub": 'import "sub/imp_sub.libsonnet"'}
                        second = "sub" if first == "main" else "main"
                        # each importer in its own run (must fail alone if unresolvable) and both in one run, in order
                        jdirs = [t.dirs[k] for k in jk]
                        exp = {}
                        for who in ("main", "sub"):
                            full = t.resolve("x.libsonnet", t.dirs[who], jdirs)
                            exp[who] = None if full is None else os.path.basename(os.path.dirname(full)).replace("lib 3", "lib3")
                        argv = []
                        for d in jdirs:
                            argv += ["-J", d]

                        def render(who, val):
                            kind = k1 if who == "main" else k2
                            if kind == "import":
                                return val
                            text = json.dumps(val)
                            return text if kind == "importstr" else [float(b) for b in text.encode()]
                        root = os.path.join(t.dirs["main"], "root.jsonnet")
                        desc = {"placed": placed, "jpath": list(jk), "kinds": [k1, k2], "first": first}
                        if exp[first] is not None and exp[second] is not None:
                            with open(root, "w") as f:
                                f.write("local a = %s, b = %s; if a == a then [a, b]" % (parts[first], parts[second]))
                            rc, out, err = run_cli(argv + [root])
                            agg.evaluations += 1
                            want = [render(first, exp[first]), render(second, exp[second])]
                            try:
                                got = json.loads(out.decode("utf-8")) if rc == 0 else None
                            except ValueError:
                                got = None
                            if got != want:
                                agg.violation({"kind": "resolution_depends_on_earlier_import", "first": first},
                                              dict(desc, expected=want, got=got, exit=rc, stderr=err.decode("utf-8", "replace")[-300:]), None)
                            else:
                                agg.count("two_importers_ok")
                        else:
                            for who in (first, second):
                                with open(root, "w") as f:
                                    f.write(parts[who])
                                rc, out, err = run_cli(argv + [root])
                                agg.evaluations += 1
                                if exp[who] is None:
                                    if rc != 1 or out != b"":
                                        agg.violation({"kind": "missing_import_not_an_error", "who": who}, dict(desc, exit=rc), None)
                                    else:
                                        agg.count("unresolvable_fails")
                                else:
                                    try:
                                        got = json.loads(out.decode("utf-8")) if rc == 0 else None
                                    except ValueError:
                                        got = None
                                    if got != render(who, exp[who]):
                                        agg.violation({"kind": "search_order", "who": who}, dict(desc, expected=exp[who], got=got), None)
                        agg.nontrivial.add(common.h64(str(mask), repr(jk), k1, k2, first))
                    finally:
                        shutil.rmtree(tmp, ignore_errors=True)
    return agg


def importer_kinds_shard(args):
    """The importing source in every form the tool accepts: a file, -e code, stdin, --ext-code / --tla-code text (no directory
    of their own: only -J and absolute paths can resolve), --ext-code-file / --tla-code-file (their own directory comes first)
    x relative / sub-directory / absolute paths x 0-2 -J directories x import / importstr / importbin; and a file that is both
    a code file and imported is evaluated once."""
    cases, = args
    agg = Agg()
    os.makedirs(common.SCRATCH, exist_ok=True)
    for (ikind, pkind, jn, kind) in cases:
        tmp = tempfile.mkdtemp(dir=common.SCRATCH)
        try:
            t = Tree(random.Random(0), tmp)
            here = t.dirs["main"]        # directory of file-like importers
            for dk in ("main", "lib1"):
                with open(os.path.join(t.dirs[dk], "x.libsonnet"), "w") as f:
                    f.write('std.trace("EVAL:%s", %s)' % (dk, jstr(dk)))
            with open(os.path.join(t.dirs["sub"], "y.libsonnet"), "w") as f:
                f.write('std.trace("EVAL:sub", "sub")')
            with open(os.path.join(t.dirs["lib2"], "only2.libsonnet"), "w") as f:
                f.write('std.trace("EVAL:lib2", "lib2")')
            spelling = {"rel": "x.libsonnet", "sub": "sub/y.libsonnet", "abs": os.path.join(t.dirs["main"], "x.libsonnet"),
                        "jonly": "only2.libsonnet"}[pkind]
            jdirs = [t.dirs[k] for k in ["lib1", "lib2"][:jn]]
            code = "%s %s" % (kind, jstr(spelling))
            has_dir = ikind in ("file", "ext_code_file", "tla_code_file")
            full = t.resolve(spelling, here, jdirs) if has_dir else \
                (spelling if os.path.isabs(spelling) else next((os.path.join(b, spelling) for b in reversed(jdirs)
                                                                 if os.path.exists(os.path.join(b, spelling))), None))
            argv = []
            for d in jdirs:
                argv += ["-J", d]
            stdin = None
            if ikind == "file":
                pth = os.path.join(here, "root.jsonnet")
                with open(pth, "w") as f:
                    f.write(code)
                argv += [pth]
            elif ikind == "exec":
                argv += ["-e", code]
            elif ikind == "stdin":
                argv += ["-"]
                stdin = code.encode()
            elif ikind == "ext_code":
                argv += ["--ext-code", "c=" + code, "-e", "std.extVar('c')"]
            elif ikind == "tla_code":
                argv += ["--tla-code", "c=" + code, "-e", "function(c) c"]
            elif ikind == "ext_code_file":
                pth = os.path.join(here, "codefile.jsonnet")
                with open(pth, "w") as f:
                    f.write(code)
                argv += ["--ext-code-file", "c=" + pth, "-e", "std.extVar('c')"]
            else:
                pth = os.path.join(here, "codefile.jsonnet")
                with open(pth, "w") as f:
                    f.write(code)
                argv += ["--tla-code-file", "c=" + pth, "-e", "function(c) c"]
            try:
                p = subprocess.run([common.CLI] + argv, input=stdin, capture_output=True, timeout=60, env=dict(os.environ, NO_COLOR="1"), cwd=tmp)
            except subprocess.TimeoutExpired:
                agg.inconc("timeout")
                continue
            agg.evaluations += 1
            desc = {"importer": ikind, "path": pkind, "jpaths": jn, "kind": kind, "argv": [a.replace(tmp, "<tmp>") for a in argv],
                    "exit": p.returncode, "stderr": p.stderr.decode("utf-8", "replace")[-300:].replace(tmp, "<tmp>")}
            if full is None:
                if p.returncode != 1 or p.stdout != b"":
                    agg.violation({"kind": "missing_import_not_an_error", "importer": ikind, "path": pkind}, desc, None)
                    continue
            else:
                who = os.path.basename(os.path.dirname(full))
                if kind == "import":
                    want = who
                else:
                    text = open(full, "rb").read()
                    want = text.decode("utf-8") if kind == "importstr" else [float(b) for b in text]
                try:
                    got = json.loads(p.stdout.decode("utf-8")) if p.returncode == 0 else None
                except ValueError:
                    got = None
                if got != want:
                    agg.violation({"kind": "importer_kind_resolution", "importer": ikind, "path": pkind, "jpaths": jn},
                                  dict(desc, expected=repr(want)[:100], got=repr(got)[:100]), None)
                    continue
                if kind == "import" and p.stderr.decode("utf-8", "replace").count("TRACE: EVAL:") != 1:
                    agg.violation({"kind": "file_loaded_more_than_once", "importer": ikind}, desc, None)
                    continue
            agg.add("importer_kind_cells", (ikind, pkind, jn, kind, full is not None))
            agg.nontrivial.add(common.h64("ik", ikind, pkind, str(jn), kind))
        finally:
            shutil.rmtree(tmp, ignore_errors=True)
    # a code file that is also imported (by another spelling) is loaded and evaluated once
    for flag in ("--ext-code-file", "--tla-code-file"):
        tmp = tempfile.mkdtemp(dir=common.SCRATCH)
        try:
            t = Tree(random.Random(0), tmp)
            lib = os.path.join(t.dirs["main"], "shared.libsonnet")
            with open(lib, "w") as f:
                f.write('std.trace("EVAL:shared", {v: 1, sibling: import "sib.libsonnet"})')
            with open(os.path.join(t.dirs["main"], "sib.libsonnet"), "w") as f:
                f.write('std.trace("EVAL:sib", 5)')
            root = os.path.join(t.dirs["main"], "root.jsonnet")
            with open(root, "w") as f:
                f.write(('local a = std.extVar("c"), b = import "./shared.libsonnet"; [a.v, b.v, a.sibling, b.sibling]' if flag.startswith("--ext")
                         else 'function(c) local b = import "sub/../shared.libsonnet"; [c.v, b.v, c.sibling, b.sibling]'))
            p = subprocess.run([common.CLI, flag, "c=" + lib, root], capture_output=True, timeout=60, env=dict(os.environ, NO_COLOR="1"))
            agg.evaluations += 1
            errs = p.stderr.decode("utf-8", "replace")
            desc = {"flag": flag, "exit": p.returncode, "stdout": p.stdout[:100].decode("utf-8", "replace"), "stderr": errs[-400:].replace(tmp, "<tmp>")}
            if p.returncode != 0 or json.loads(p.stdout.decode("utf-8")) != [1, 1, 5, 5]:
                agg.violation({"kind": "code_file_relative_import", "flag": flag}, desc, None)
            elif errs.count("TRACE: EVAL:shared") != 1 or errs.count("TRACE: EVAL:sib") != 1:
                agg.violation({"kind": "file_loaded_more_than_once", "importer": flag}, desc, None)
            else:
                agg.count("code_file_loaded_once")
                agg.nontrivial.add(common.h64("codefile", flag))
        finally:
            shutil.rmtree(tmp, ignore_errors=True)
    return agg


def long_and_multisite_shard(args):
    """(a) files whose size sits around a power of two (4 KiB .. 128 KiB) with a multi-byte character (or a truncated sequence)
    straddling the boundary: importstr = lossy text, importbin = exact bytes, import = the value; (b) one file importing the
    same missing path at several sites of which only the k-th is evaluated: the error is reported at that site."""
    seed, = args
    rng = random.Random(seed)
    agg = Agg()
    os.makedirs(common.SCRATCH, exist_ok=True)
    tmp = tempfile.mkdtemp(dir=common.SCRATCH)
    try:
        n = 0
        for base in (4096, 8192, 16384, 32768, 65536, 131072):
            for off in (-4, -3, -2, -1, 0, 1):
                seq = rng.choice(["\u00e9".encode(), "\u20ac".encode(), "\U0001f642".encode(), b"\xf0\x9f\x98", b"\xe2\x82", b"\xc3",
                                  "\U0001f642\U0001f642".encode()])
                k = base + off
                data = b"a" * k + seq + b"tail\n"
                n += 1
                name = "long%d.txt" % n
                with open(os.path.join(tmp, name), "wb") as f:
                    f.write(data)
                text = oracles.lossy_utf8(data)
                lo = max(0, k - 2)
                prog = ("local s = importstr %s, b = importbin %s; [std.length(s), std.map(std.codepoint, std.stringChars(std.substr(s, %d, 8))), "
                        "std.length(b), b[%d:%d]]") % (jstr(name), jstr(name), lo, lo, lo + 10)
                root = os.path.join(tmp, "root%d.jsonnet" % n)
                with open(root, "w") as f:
                    f.write(prog)
                rc, out, err = run_cli([root])
                agg.evaluations += 1
                want = [len(text), [ord(c) for c in text[lo:lo + 8]], len(data), list(data[lo:lo + 10])]
                try:
                    got = json.loads(out.decode("utf-8")) if rc == 0 else None
                except ValueError:
                    got = None
                if got != want:
                    agg.violation({"kind": "import_delivers_wrong_content", "what": "long_file"},
                                  {"size_before_sequence": k, "sequence": list(seq), "expected": want, "got": got, "exit": rc,
                                   "stderr": err.decode("utf-8", "replace")[-200:]}, None)
                    continue
                # the same bytes as a Jsonnet string literal in an imported file
                if not seq.startswith((b"\xf0\x9f\x98", b"\xe2\x82", b"\xc3")) or seq in ("\U0001f642".encode(), "\u00e9".encode(), "\u20ac".encode(), "\U0001f642\U0001f642".encode()):
                    lib = os.path.join(tmp, "lib%d.libsonnet" % n)
                    with open(lib, "wb") as f:
                        f.write(b'"' + b"a" * k + seq + b'tail"')
                    with open(root, "w") as f:
                        f.write("local v = import %s; [std.length(v), std.codepoint(v[%d])]" % (jstr("lib%d.libsonnet" % n), k))
                    rc, out, err = run_cli([root])
                    agg.evaluations += 1
                    t2 = (b"a" * k + seq + b"tail").decode("utf-8")
                    try:
                        got = json.loads(out.decode("utf-8")) if rc == 0 else None
                    except ValueError:
                        got = None
                    if got != [len(t2), ord(t2[k])]:
                        agg.violation({"kind": "import_delivers_wrong_content", "what": "long_source_file"},
                                      {"size_before_sequence": k, "expected": [len(t2), ord(t2[k])], "got": got, "exit": rc}, None)
                        continue
                agg.count("long_files_ok")
                agg.nontrivial.add(common.h64("long", str(k), seq))
        # (b) several sites importing the same failing path
        os.mkdir(os.path.join(tmp, "adir.libsonnet"))
        for kind in ("import", "importstr", "importbin"):
            for target in ("missing.libsonnet", "adir.libsonnet"):
                for evaluated in (0, 1, 2, 3):
                    imp = "%s %s" % (kind, jstr(target))
                    lines = ["local a = if %s then %s else 0;" % ("true" if evaluated == 0 else "false", imp),
                             "local b = function() %s;" % imp,
                             "local c = {f: %s};" % imp,
                             "[a, %s, %s, %s]" % ("b()" if evaluated == 1 else "0", "c.f" if evaluated == 2 else "0",
                                                  "(%s)" % imp if evaluated == 3 else "0")]
                    src = "\n".join(lines) + "\n"
                    # where the evaluated import expression starts (1-based line / column)
                    site_line = [1, 2, 3, 4][evaluated]
                    site_col = lines[site_line - 1].rindex(imp) + 1 if evaluated != 0 else lines[0].index(imp) + 1
                    root = os.path.join(tmp, "multi.jsonnet")
                    with open(root, "w") as f:
                        f.write(src)
                    rc, out, err = run_cli([root])
                    agg.evaluations += 1
                    e2 = err.decode("utf-8", "replace")
                    desc = {"program": src, "evaluated_site": evaluated, "exit": rc, "stderr": e2[-500:].replace(tmp, "<tmp>")}
                    if rc != 1 or out != b"":
                        agg.violation({"kind": "failing_import_contract", "fault": "multi_site", "exit": rc}, desc, None)
                        continue
                    m = re.search(r"--> (.*):([0-9]+):([0-9]+)", e2)
                    if m is None or m.group(1) != root or (int(m.group(2)), int(m.group(3))) != (site_line, site_col):
                        agg.violation({"kind": "import_error_not_at_import_site", "fault": "multi_site"},
                                      dict(desc, expected=[site_line, site_col], got=(m.groups()[1:] if m else None)), None)
                        continue
                    agg.count("multi_site_failures_located")
                    agg.nontrivial.add(common.h64("multi", kind, target, str(evaluated)))
    finally:
        shutil.rmtree(tmp, ignore_errors=True)
    return agg


def run(tier, seed):
    t0 = time.time()
    quick = tier != "thorough"
    total = Agg()
    n = 800 if quick else 40000
    for a in common.pmap(shard, [(seed * 1409 + i, n // 16, quick) for i in range(16)]):
        total.merge(a)
    masks = list(range(16))
    for a in common.pmap(precedence_shard, [(seed, masks[i::16]) for i in range(16)]):
        total.merge(a)
    for a in common.pmap(importers_shard, [(seed, masks[i::16]) for i in range(16)]):
        total.merge(a)
    for a in common.pmap(long_and_multisite_shard, [(seed * 1423 + i,) for i in range(4 if quick else 32)]):
        total.merge(a)
    ik = [(a, b, c, d) for a in ("file", "exec", "stdin", "ext_code", "tla_code", "ext_code_file", "tla_code_file")
          for b in ("rel", "sub", "abs", "jonly") for c in (0, 1, 2) for d in ("import", "importstr", "importbin")]
    for a in common.pmap(importer_kinds_shard, [(ik[i::16],) for i in range(16)]):
        total.merge(a)
    rule = ("generated directory trees (importer dir, subdir, up to five -J flags over three directories (repeats allowed) incl. one with a space, files "
            "duplicated across them, ./ ../ sub/../ spellings, absolute paths, symlinks to files and directories, "
            "nested imports relative to the imported file, an unforced import cycle, binary/invalid-UTF-8 content) run "
            "through the real CLI: each import must deliver the file the search order selects (importer directory "
            "first, then -J right-most first, absolute bypasses), every file is evaluated once however spelled "
            "(trace per file), std.thisFile is the first load path, importstr = lossy text, importbin = exact bytes; "
            "faults (missing, directory, dangling symlink, symlink loop, unreadable via setuid child): exit 1, empty "
            "stdout, error located at the import expression; exhaustive: one name in every subset of {importer dir, "
            "J1, J2, J3} x every sequence of 0-4 -J flags over three directories (repeats included); two importers in "
            "different directories using the same relative string with import/importstr/importbin, in both "
            "evaluation orders, x every placement x every -J sequence up to 2; importer kinds: the importing source as file / -e / stdin / --ext-code / "
            "--tla-code / --ext-code-file / --tla-code-file x relative, sub-directory, absolute and -J-only paths x 0-2 -J x the three "
            "import kinds, and a code file that is also imported is evaluated once; files of 4 KiB .. 128 KiB with a multi-byte or truncated sequence "
            "straddling the power-of-two boundary through importstr / importbin / import; the same failing path imported at four sites of "
            "one file of which only the k-th is evaluated: the error points at that site. distinct_nontrivial = distinct trees / placements decided.")
    return common.finish(PROP, tier, seed, total, rule, t0,
                         assumptions=["the Python model of the search (os.path.exists per candidate) is what the property states"])

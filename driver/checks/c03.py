"""C03 - garbage collection is invisible to programs and exact about reachability."""
import os
import random
import re
import subprocess
import time

import common
import genbytes
from common import Agg, Crashed, Server, hx, run_lines

PROP = "C03"

MODES = ["never", "default", "every:1", "every:2", "every:3", "every:7"]

STRESS = [
    # cyclic object graphs
    "local a = {b: b, n: 1}, b = {a: a, n: 2}; [a.b.a.b.n, b.a.b.n]",
    "local o = {self_ref: self, x: 1, y: self.self_ref.self_ref.x + 1}; o.y",
    "local mk(n) = if n == 0 then {} else {child: mk(n - 1), up:: self, d: n}; std.length(std.toString(mk(30)))",
    "local xs = [{i: i, next: xs[(i + 1) % 50]} for i in std.range(0, 49)]; xs[0].next.next.next.i",
    # closures captured by comprehension-built arrays / objects
    "local fs = [function(x) x + i for i in std.range(0, 200)]; std.foldl(function(a, f) f(a), fs, 0)",
    "local o = {['k' + i]: function(x) x * i for i in std.range(0, 100)}; std.foldl(function(a, k) a + o[k](1), std.objectFields(o), 0)",
    # long folds with accumulators
    "std.foldl(function(acc, i) acc + [i], std.range(1, 600), [])[599]",
    "std.foldl(function(acc, i) acc {['f' + (i % 7)]+: [i]}, std.range(1, 300), {})",
    "std.foldr(function(i, acc) {v: i, rest: acc}, std.range(1, 200), null).rest.rest.v",
    "std.length(std.foldl(function(acc, i) acc + std.toString(i), std.range(1, 500), ''))",
    # sort / set with allocating key functions (values held in side tables)
    "std.sort(std.range(1, 300), function(x) {k: -x}.k)[0]",
    "std.set([{a: i % 13, b: [i]} for i in std.range(1, 400)], function(o) o.a)",
    "std.sort([[i % 5, i] for i in std.range(1, 500)], function(e) [e[0]])[499]",
    "std.uniq(std.sort([std.toString(i % 17) for i in std.range(1, 300)]))",
    "std.setUnion(std.set([[i] for i in std.range(1, 100)]), std.set([[i * 2] for i in std.range(1, 100)]))[57]",
    # pending call thunks forced late
    "local a = std.makeArray(300, function(i) {v: i, s: std.toString(i)}); [a[299].s, a[0].v, std.length(a)]",
    "local m = std.mapWithKey(function(k, v) {k: k, v: [v, v]}, {[std.toString(i)]: i for i in std.range(1, 200)}); m['150'].v",
    "local a = std.map(function(x) [x, {y: x}], std.range(1, 400)); a[399][1].y + a[0][0]",
    "std.filterMap(function(x) x % 3 == 0, function(x) {x: x}, std.range(1, 600))[100].x",
    "std.flatMap(function(x) [x, [x]], std.range(1, 300))[599]",
    # values held only by in-flight builtin states
    "std.format('%s %s %(a)s', [[i for i in std.range(1, 50)], {a: std.range(1, 50)}, 1]) == '' || true",
    "std.manifestTomlEx({a: [{b: i, c: [i, i]} for i in std.range(1, 60)], t: {u: {v: 'w'}}}, '  ') != ''",
    "std.manifestYamlDoc({a: [{b: i, c: {d: [i]}} for i in std.range(1, 80)]}) != ''",
    "std.length(std.manifestJsonEx([{a: std.range(1, i)} for i in std.range(1, 60)], ' '))",
    "std.parseJson(std.manifestJsonEx({a: [{b: std.range(1, 20)} for i in std.range(1, 50)]}, ''))['a'][49].b[19]",
    "std.parseYaml(std.manifestYamlDoc({a: [{b: std.range(1, 10)} for i in std.range(1, 50)]})).a[49].b[9]",
    "std.mergePatch({a: {b: {c: std.range(1, 100)}}, d: [1]}, {a: {b: {e: [2]}}, d: null}).a.b.c[99]",
    "std.prune({a: [null, {}, [], {b: [null, [[]], {c: 1}]}], d: std.range(1, 100)}).d[99]",
    "std.join(',', [std.toString({i: i}) for i in std.range(1, 300)]) != ''",
    "std.base64(std.map(function(i) i % 256, std.range(1, 2000))) != ''",
    "std.deepJoin([[std.toString(i), [std.toString(i * 2)]] for i in std.range(1, 300)]) != ''",
    "std.trace(std.toString([i for i in std.range(1, 50)]), std.length(std.range(1, 1000)))",
    # thunks of every kind that are created but never forced before their owner becomes garbage
    "std.length([{a+: [i], b+: {c: i}} for i in std.range(1, 60)])",
    "std.objectFields({a: 1, b: [2]} + {a+: 2, b+: [3], c+: error 'never forced'})",
    "local o = {x+: error 'never', y+: self.x}; [std.objectHas(o, 'x'), std.length(o)]",
    "std.length(std.objectFields(std.mapWithKey(function(k, v) v, {a: 1} + {a+: 2, b+: 3})))",
    "std.objectFields(std.mergePatch({a: {b+: 1}}, {a: {c: 2}}))",
    "std.length(std.map(function(x) {v+: x}, std.range(1, 100)))",
    "std.length(std.makeArray(100, function(i) {v+: i} + {v+: 1}))",
    "std.length([function(x) x + i for i in std.range(1, 100)])",
    "local f(a, b={x+: a}) = a; [f(i) for i in std.range(1, 50)][49]",
    "std.length({[k]+: 1 for k in ['a', 'b', 'c']} + {a+: 2})",
    "local o = {a+: 1} + {a+: error 'unforced'}; std.objectHasAll(o, 'a')",
    # errors raised deep inside (stack trace must be identical)
    "local f(n) = if n == 0 then error 'bottom' else [f(n - 1)][0]; f(100)",
    "local o = {a: [{b: error 'deep field'}]}; std.manifestJsonEx(o, ' ')",
    "std.sort(std.range(1, 200), function(x) if x == 137 then error 'key' else -x)",
    "std.foldl(function(a, i) if i == 250 then error 'fold' else a + [i], std.range(1, 400), [])",
    "local f(n) = f(n + 1) + 1; f(0)",
    "local a = [b[0]], b = [a[0]]; a[0]",
    "{assert std.length(std.range(1, 500)) == 499 : 'assert msg ' + std.toString(std.range(1, 30)), a: 1}.a",
    # equality / comparison of big structures
    "[{a: i, b: [i, {c: i}]} for i in std.range(1, 300)] == [{a: i, b: [i, {c: i}]} for i in std.range(1, 300)]",
    "std.range(1, 1000) < std.range(1, 1001)",
    "std.assertEqual([{a: std.range(1, 50)} for i in std.range(1, 40)], [{a: std.range(1, 50)} for i in std.range(1, 40)])",
    # objects with inheritance chains and super
    "local base = {a: 1, l+: [0]}; std.foldl(function(o, i) o {a+: i, l+: [i], s: super.a}, std.range(1, 150), base).l[150]",
    "local o = std.foldl(function(o, i) o + {['f' + i]: i, tot: (if 'tot' in super then super.tot else 0) + i}, std.range(1, 200), {}); o.tot",
    "std.objectRemoveKey(std.foldl(function(o, i) o + {['f' + i]: [i]}, std.range(1, 200), {}), 'f7').f199",
]


# one heap object referenced from N places (N around the limits of 8- and 16-bit counters), all of it garbage afterwards
FANIN_TEMPLATES = [
    "local fs = [function() i for i in std.range(1, N)]; std.length(fs)",
    "local o = {a: 1}; std.length(std.makeArray(N, function(i) o))",
    "local x = [1, 2]; std.length(std.repeat([x], N))",
    "local o = {me: self, arr: std.makeArray(N, function(i) $)}; std.length(o.arr)",
    "local t = {v: 1}; std.length([t for i in std.range(1, N)])",
    "local o = {k: 1}; std.length(std.objectFields({['f' + i]: o for i in std.range(1, N)}))",
    "local base = {v: 0}; std.length(std.map(function(i) base {w: i}, std.range(1, N)))",
]
FANIN_N = [255, 256, 257, 65535, 65536, 65537, 70000]


def fanin_programs(rng, k):
    return [rng.choice(FANIN_TEMPLATES).replace("N", str(rng.choice(FANIN_N))).encode() for _ in range(k)]


WIDE_TEMPLATES = [
    # arrays of W items whose source becomes garbage while items are still held by a builtin's in-flight state
    "std.sum(std.flatMap(function(x) local r = std.range(x, x + W); r, std.range(1, 40)))",
    "std.length(std.flatMap(function(x) {a: std.makeArray(W, function(i) [i, x])}.a, std.range(1, 25)))",
    "std.sum(std.map(function(x) std.length(std.filter(function(y) y % 2 == 0, {a: std.range(x, x + W)}.a)), std.range(1, 25)))",
    "local rows = [{a: std.range(x, x + W)} for x in std.range(1, 25)]; std.sum([std.sum(std.reverse(r.a)) for r in rows])",
    "std.sum(std.foldl(function(acc, x) {a: acc + [x]}.a, std.range(1, W + 3), []))",
    "std.length(std.join([0], [{a: std.range(1, W)}.a for x in std.range(1, 20)]))",
    "std.sum(std.sort({a: std.map(function(i) (i * 37) % 101, std.range(0, W))}.a))",
    "std.sum([x[W - 1] for x in [std.makeArray(W, function(i) i + j) for j in std.range(1, 25)]])",
    "std.sum(std.flatMap(function(x) std.set({a: std.range(x, x + W)}.a)[0:W:2], std.range(1, 20)))",
    "std.sum(std.filterMap(function(x) x % 3 != 0, function(x) x * 2, {a: std.range(1, W * 2)}.a))",
    "local big = {a: [{v: i} for i in std.range(0, W)]}; std.sum([o.v for o in big.a + big.a])",
    "std.length(std.manifestJsonEx({a: [[i, [i]] for i in std.range(0, W)]}.a, ' '))",
    "local f(a) = std.length(a); std.sum([f({a: std.range(0, W + i)}.a[i:]) for i in std.range(0, 12)])",
    "std.sum(std.mapWithIndex(function(i, x) i + x, {a: std.range(0, W)}.a))",
    "std.length(std.format('%s', [{a: std.range(0, W)}.a]))",
]
WIDTHS = [31, 32, 33, 34, 63, 64, 65, 66, 96, 97, 128, 129, 130, 257]


def wide_programs(rng, k):
    out = []
    for _ in range(k):
        w = rng.choice(WIDTHS)
        out.append(("wide", rng.choice(WIDE_TEMPLATES).replace("W", str(w)).encode()))
    return out


def record_key(recs):
    """The complete observable outcome of a script, excluding counters that legitimately differ."""
    out = []
    for r in recs:
        d = dict(r)
        out.append((r.status, tuple(sorted(d.items()))))
    return tuple(out)


def schedule_shard(args):
    seed, n, use_stress = args
    rng = random.Random(seed)
    agg = Agg()
    srv = Server()
    try:
        programs = []
        if use_stress:
            for s in STRESS:
                programs.append(("stress", s.encode()))
        programs.extend(wide_programs(rng, max(2, n // 6)))
        while len(programs) < n:
            fam, data = genbytes.gen_input(rng)
            programs.append((fam, data))
        for fam, data in programs:
            stack = rng.choice([None, None, 40, 500, 2000])
            modes = list(MODES) + ["sched:%d:%d" % (rng.randrange(1, 1 << 30), rng.choice([2, 5, 17, 101])) for _ in range(4)]
            base = None
            base_mode = None
            stats = {}
            for mode in modes:
                lines = run_lines(data, path="<prog>", gcmode=mode, stack=stack, walk=1)
                lines.append("COUNT")
                agg.evaluations += 1
                try:
                    recs = srv.request(lines, timeout=120)
                except Crashed as e:
                    if e.kind in ("timeout", "oom"):
                        agg.inconc(e.kind)
                        base = None
                        break
                    agg.violation({"kind": "crash_under_schedule", "mode": mode.split(":")[0]},
                                  {"program": data[:600].decode("latin-1"), "crash": e.detail[-400:]}, {"script": lines})
                    base = None
                    break
                count = recs[-1]
                body = recs[:-1]
                for r in body:
                    if r.status == "PANIC":
                        msg = r.s("msg") or ""
                        kind = "destroyed_object" if "destroyed object" in msg else "panic_under_schedule"
                        agg.violation({"kind": kind, "mode": mode.split(":")[0], "msg": re.sub(r"[0-9]+", "N", msg)[:80]},
                                      {"program": data[:600].decode("latin-1"), "mode": mode, "panic": msg, "loc": r.s("loc")},
                                      {"script": lines})
                key = record_key(body)
                if count.status == "OK":
                    stats[mode] = (int(count["gcs"]), int(count["steps"]), int(count["objs"]))
                    agg.count("collections_performed", int(count["gcs"]))
                    agg.count("evaluator_steps", int(count["steps"]))
                    if int(count["gcs"]) > 0:
                        agg.add("collection_points", (mode.split(":")[0], int(count["gcs"]), int(count["steps"])))
                if base is None:
                    base, base_mode = key, mode
                elif key != base:
                    diff = first_diff(base, key)
                    agg.violation({"kind": "outcome_depends_on_schedule", "mode": mode.split(":")[0], "what": diff[0]},
                                  {"program": data[:800].decode("latin-1"), "mode_a": base_mode, "mode_b": mode,
                                   "diff": diff[1]}, {"script": lines})
                    break
            if base is not None:
                st = body[-1].status if body else "?"
                cls = common.Outcome(body).cls
                agg.count("class:" + cls)
                agg.count("family:" + fam)
                # non-trivial: at least one schedule actually collected during evaluation
                if any(v[0] > 0 for v in stats.values()) and cls in ("value", "eval"):
                    agg.nontrivial.add(common.h64(data))
                if fam == "stress" and len(agg.samples) < 3:
                    agg.sample({"program": data[:160].decode("latin-1"), "outcome": cls,
                                "collections_by_mode": {m: v[0] for m, v in stats.items()},
                                "steps": stats.get("never", (0, 0, 0))[1]})
    finally:
        srv.close()
    return agg


def first_diff(a, b):
    for i, (x, y) in enumerate(zip(a, b)):
        if x != y:
            dx, dy = dict(x[1]), dict(y[1])
            for k in sorted(set(dx) | set(dy)):
                if dx.get(k) != dy.get(k):
                    vx, vy = dx.get(k, ""), dy.get(k, "")
                    try:
                        vx, vy = common.unhx(vx).decode("utf-8", "replace"), common.unhx(vy).decode("utf-8", "replace")
                    except Exception:
                        pass
                    return (k if x[0] == y[0] else "status", "op %d %s/%s field %s: %r vs %r" % (i, x[0], y[0], k, vx[:300], vy[:300]))
            return ("status", "op %d: %s vs %s" % (i, x[0], y[0]))
    return ("length", "%d vs %d records" % (len(a), len(b)))


# ------------------------------------------------------------------------------------------------
# exactness on real heaps: a long-lived state returns to its baseline object count

def conservation_shard(args):
    seed, rounds, batch = args[:3]
    asan = len(args) > 3 and args[3]
    rng = random.Random(seed)
    agg = Agg()
    if asan:
        srv = Server(binary=common.ASAN_EVALSRV, mem_gib=None,
                     env=dict(os.environ, ASAN_OPTIONS="detect_leaks=1:halt_on_error=1:exitcode=66"))
    else:
        srv = Server()
    try:
        progs = [s.encode() for s in STRESS] + fanin_programs(rng, 6) + [p for _, p in wide_programs(rng, 4)]
        while len(progs) < batch:
            fam, data = genbytes.gen_input(rng)
            progs.append(data)
        rng.shuffle(progs)
        progs = progs[:batch]
        lines = ["NEW", "GC", "COUNT"]
        marks = []
        for rnd in range(rounds):
            for i, p in enumerate(progs):
                # (a collection costs time proportional to the heap: programs with tens of thousands of objects only under the
                # default heuristic or without collections during evaluation)
                big = re.search(rb"\b(6553[5-7]|70000)\b", p) is not None
                mode = rng.choice(["default", "never"]) if big else rng.choice(["default", "every:5", "never", "sched:7:13"])
                lines.append(f"GCMODE {mode}")
                lines.append(f"LOAD {i} {hx('<p%d>' % i)} {hx(p)} 1")
                lines.append(f"EVAL {i} {i} 0")
                lines.append(f"MANI {i} 1")
                if rng.random() < 0.15:
                    lines.append("GC")            # explicit collections while results are still held
            # every order of "collect" and "drop the results" must end at the baseline (a collection requested after the
            # handles are gone has to run even if nothing was allocated since the previous one)
            tail = rng.choice([["DROP all", "GC"], ["GC", "DROP all", "GC"], ["GC", "GC", "DROP all", "GC"], ["DROP all", "GC", "GC"],
                               ["GCMODE every:1", f"LOAD 9999 {hx('<tail>')} {hx('[{a: i} for i in std.range(1, 20)]')} 1", "EVAL 9999 9999 0",
                                "GCMODE never", "DROP all", "GC"]])
            lines.extend(tail)
            marks.append(len(lines))
            lines.append("COUNT")
        agg.evaluations += rounds * len(progs)
        try:
            recs = srv.request(lines, timeout=600)
        except Crashed as e:
            if e.kind in ("timeout", "oom"):
                agg.inconc(e.kind)
                return agg
            agg.violation({"kind": "crash_long_lived_state"}, {"crash": e.detail[-400:]}, None)
            return agg
        if any(r.status == "PANIC" for r in recs):
            r = [r for r in recs if r.status == "PANIC"][0]
            agg.violation({"kind": "panic_long_lived_state", "msg": re.sub(r"[0-9]+", "N", r.s("msg") or "")[:80]},
                          {"panic": r.s("msg"), "loc": r.s("loc")}, {"script": lines[:50]})
            return agg
        c0 = int(recs[2]["objs"])
        counts = [int(recs[m]["objs"]) for m in marks]
        agg.count("baseline_objects", c0)
        agg.sample({"baseline": c0, "after_each_round": counts, "programs_per_round": len(progs)})
        ok = sum(1 for r in recs if r.status == "OK")
        agg.count("ops_ok", ok)
        for i, c in enumerate(counts):
            agg.nontrivial.add(common.h64("round", str(seed), str(i)))
            if c != c0:
                agg.violation({"kind": "object_count_not_back_to_baseline"},
                              {"baseline": c0, "after_rounds": counts, "seed": seed}, {"script": lines[:200]})
                break
    finally:
        if asan and srv.proc is not None and srv.proc.poll() is None:
            # a normal exit lets LeakSanitizer look for Rc cycles that survive the drop of the program state
            rc, err = srv.quit(timeout=600)
            agg.count("lsan_clean_exits" if rc == 0 else "lsan_exit_%s" % rc)
            if rc not in (0, None) or "Sanitizer" in err:
                m = re.search(r"(AddressSanitizer|LeakSanitizer): ([a-z-]+)", err)
                agg.violation({"kind": "sanitizer_report", "what": m.group(0) if m else "exit %s" % rc},
                              {"stderr": err[-1500:], "seed": seed}, None)
        else:
            srv.close()
    return agg


# ------------------------------------------------------------------------------------------------
# scripted heap (gcheap)

def gcheap_run(argv, timeout=3000):
    p = subprocess.run([common.GCHEAP] + argv, capture_output=True, text=True, timeout=timeout)
    m = re.search(r"^GCRUN (.*)$", p.stdout, re.M)
    if p.returncode != 0 or not m:
        raise common.Broken("gcheap failed: %s %s" % (p.returncode, p.stderr[-300:]))
    line = m.group(1)
    first = line.split(" first=", 1)[1]
    d = dict(kv.split("=", 1) for kv in line.split(" first=", 1)[0].split(" "))
    d["first"] = first
    return d


def gcheap_shard(args):
    argv = args
    agg = Agg()
    d = gcheap_run(argv)
    agg.evaluations += int(d["seqs"])
    for k in ("ops", "gcs", "freed", "gcs_with_survivors", "distinct_heap_shapes_at_gc"):
        agg.count("gcheap_" + argv[0] + "_" + k, int(d[k]))
    agg.count("gcheap_max_live", 0)
    agg.add("gcheap_runs", " ".join(argv))
    # non-trivial: distinct heap shapes on which a collection ran
    for i in range(min(int(d["distinct_heap_shapes_at_gc"]), 200000)):
        agg.nontrivial.add(common.h64("shape", " ".join(argv), str(i)))
    if int(d["violations"]) > 0:
        first = d["first"]
        what = re.sub(r"[0-9]+", "N", first.split(" | script=")[0])[:100]
        script = first.split(" | script=")[1] if " | script=" in first else ""
        agg.violation({"kind": "scripted_heap_disagrees_with_model", "what": what},
                      {"first": first[:600], "violations": int(d["violations"]), "run": argv},
                      {"gcheap": ["replay", script] + [a for a in argv if a.startswith("salt=")]})
    else:
        agg.sample({"gcheap": " ".join(argv), "sequences": int(d["seqs"]), "collections": int(d["gcs"]),
                    "objects_reclaimed": int(d["freed"]), "distinct_heap_shapes_at_gc": int(d["distinct_heap_shapes_at_gc"])})
    return agg


def miri_leg(agg, seeds):
    """gcheap random histories under Miri: UB / leak detection inside the collector's own structures."""
    env = dict(common.CARGO_ENV, CARGO_TARGET_DIR=os.path.join(common.TARGET, "miri"),
               MIRIFLAGS="-Zmiri-disable-isolation")
    procs = []
    manifest = common._harness_manifest()
    for s in seeds:
        cmd = ["cargo", "+nightly", "miri", "run", "--offline", "--manifest-path",
               manifest, "--bin", "gcheap", "--", "random", str(s), "12", "6", "40"]
        procs.append((s, subprocess.Popen(cmd, env=env, stdout=subprocess.PIPE, stderr=subprocess.PIPE, text=True)))
        if s == seeds[0]:
            # first one builds; wait for it so the others reuse the build
            procs[-1][1].wait()
    for s, p in procs:
        try:
            out, err = p.communicate(timeout=3000)
        except subprocess.TimeoutExpired:
            p.kill()
            agg.inconc("miri_timeout")
            continue
        m = re.search(r"^GCRUN (.*)$", out, re.M)
        if p.returncode != 0 or not m:
            if "Undefined Behavior" in err or "memory leaked" in err or "leaked" in err:
                agg.violation({"kind": "miri_report", "what": re.sub(r"[0-9]+", "N", err.strip().split("\n")[0])[:100]},
                              {"stderr": err[-1500:], "seed": s}, {"gcheap_miri": ["random", str(s), "12", "6", "40"]})
            else:
                agg.inconc("miri_failed")
                agg.sample({"miri_stderr": err[-400:]})
            continue
        agg.count("miri_histories", 12)
        agg.evaluations += 12
        if " violations=0 " not in m.group(1):
            agg.violation({"kind": "scripted_heap_disagrees_with_model", "what": "under miri"}, {"line": m.group(1)[:600]}, None)
    return agg


def run(tier, seed):
    t0 = time.time()
    quick = tier != "thorough"
    total = Agg()
    # leg 3: scripted heap
    shards = []
    if quick:
        shards += [["exhaustive", "3", "4", "6", str(i), "8", "salt=%d" % ((seed + i) % 4)] for i in range(8)]
        shards += [["exhaustive", "4", "5", "5", str(i), "4", "salt=%d" % i] for i in range(4)]
        shards += [["exhaustive", "3", "4", "5", "0", "1", "salt=%d" % i] for i in range(4)]
        shards += [["random", str(seed * 1000 + i), "6000", str(rng_nodes), "300", "salt=%d" % i] for i, rng_nodes in enumerate([3, 5, 8, 16])]
        shards += [["random", str(seed * 1000 + 50 + i), "1500", str([3, 6, 10, 16][i]), "200", "salt=%d" % i, "burst=12"] for i in range(4)]
    else:
        shards += [["exhaustive", "3", "4", "7", str(i), "32", "salt=%d" % ((seed + i) % 4)] for i in range(32)]
        shards += [["exhaustive", "3", "4", "6", "0", "1", "salt=%d" % i] for i in range(4)]
        shards += [["exhaustive", "4", "5", "6", str(i), "16", "salt=%d" % (i % 4)] for i in range(16)]
        shards += [["exhaustive", "2", "6", "7", str(i), "8", "salt=%d" % (i % 4)] for i in range(8)]
        shards += [["random", str(seed * 1000 + i), "400000", str([3, 4, 5, 8, 12, 16, 24, 32][i % 8]), "300", "salt=%d" % (i // 8)] for i in range(32)]
        shards += [["random", str(seed * 1000 + 500 + i), "60000", str([3, 5, 8, 12, 16, 24, 32, 6][i % 8]), "200", "salt=%d" % (i % 4), "burst=12"] for i in range(16)]
    for a in common.pmap(gcheap_shard, shards):
        total.merge(a)
    # leg 1: schedule independence
    n = 25 if quick else 1500
    for a in common.pmap(schedule_shard, [(seed * 911 + i, n, i == 0) for i in range(32)]):
        total.merge(a)
    # leg 2: conservation
    for a in common.pmap(conservation_shard, [(seed * 613 + i, 3, 60 if quick else 400) for i in range(8 if quick else 32)]):
        total.merge(a)
    if not quick:
        miri_leg(total, [seed * 10 + i for i in range(16)])
        common.build_asan()
        for a in common.pmap(conservation_shard, [(seed * 617 + i, 2, 120, True) for i in range(16)]):
            total.merge(a)
    rule = ("(1) scripted heaps through the verif_gc facade against a reachability model: every op sequence up to a "
            "length bound over <= 3-4 nodes / <= 4-6 external handles (alloc, alloc_view, clone, view_of, weak_of, "
            "add/del edge, drop, gc; an implicit final collection, then all handles dropped and a last collection) + "
            "random histories up to 32 nodes / 300 ops, a share of them with bursts of 20-70 edges from one node (wide nodes); "
            "each node keeps its edges in one of four containers (Vec, boxed slice, Option + Vec, OnceCell + boxed slice; "
            "assignment rotated by salt) so that every container tracer of the collector is driven: reclaimed set == unreachable set from the freed-event log, "
            "nothing destroyed outside a collection, flags reset, every held handle and edge still viewable; "
            "(2) every program (heap-stress templates, wide-array templates at widths 31..257 whose source array becomes garbage "
            "while a builtin still holds its items, ui-tests corpus and its mutants) under never/default/"
            "every:1,2,3,7 and 4 random schedules in identical program states: complete outcome records (value walk, "
            "error debug incl. resolved spans, stack-trace hash, trace messages) must be equal; (3) a long-lived "
            "Program returns to its baseline object count after each round of load/eval/manifest (incl. programs in which one heap object "
            "is referenced from 255..70000 places, and wide arrays) with explicit collections at random points and every order of "
            "'collect' and 'drop the results' at the end of the round. "
            "distinct_nontrivial = distinct heap shapes at a collection + distinct programs during whose evaluation "
            "at least one schedule collected + conservation rounds.")
    return common.finish(PROP, tier, seed, total, rule, t0, exhaustive=None,
                         extra={"modes": MODES + ["4 x sched:seed:period"], "stress_templates": len(STRESS)},
                         assumptions=["the facade's node type traces exactly its edges (the collector code is untouched)",
                                      "identical load order gives identical span ids, so error records are comparable byte for byte"])

"""C05 - every emitted document is well-formed and decodes to the value it came from."""
import ast
import json
import math
import os
import random
import re
import shutil
import subprocess
import tempfile
import time
import tomllib

import common
import oracles
import genrmkey
from common import Agg, Ev, jstr, jnum, same_value, rand_value, rand_string, HOSTILE_CHARS

try:
    import yaml as pyyaml
except Exception:  # pragma: no cover
    pyyaml = None

PROP = "C05"

YAML_SENSITIVE_KEYS = [
    "", "-", "---", "...", "null", "Null", "NULL", "~", "true", "True", "TRUE", "false", "y", "Y", "yes", "Yes", "n",
    "N", "no", "NO", "on", "On", "off", "OFF", ".nan", ".NaN", ".inf", "+.inf", "-.inf", ".Inf", "0", "-0", "1",
    "-1", "0x1f", "-0x1f", "0X1F", "0o17", "017", "0b101", "-0b1", "1_000", "1e5", "1E5", "1.5", "1.", ".5",
    "1.5e3", "-1.5e-3", "+1", "1e", "e1", "2001-01-01", "2001-1-1", "12:30", "12:30:45", "1:2", "a b", "a:b",
    "a: b", "a #b", "#a", "a,b", "[a]", "{a}", "&a", "*a", "!a", "|", ">", "'a'", '"a"', "%a", "@a", "`a`", "a\nb",
    "a\tb", " a", "a ", "a-b", "a_b", "a.b", "a/b", "-a", "a-", ".a", "a.", "/", "_", ".", "..", "-.", "<<", "=",
    "?", "? a", ": a", "- a", "a\\b", "\u00e9", "\u20ac", "\U0001f600", "\ufeff", "\u2028", "\u0085", "0.0",
    "00", "0_0", "1__0", "_1", "1_", "0x", "0b", "0o", "0xg", "1e+5", "1e-5", "-.5", "+.5", "1.e5", "Inf", "NaN",
    "nan", "inf", "TRUE ", "nulll", "yess", "table", "a=b", "a.b.c", "key with spaces", "\u0000", "\u001f", "\u007f",
]


def gen_string_for(rng, kind):
    s = rand_string(rng, maxlen=6)
    if rng.random() < 0.25:
        s = rng.choice(YAML_SENSITIVE_KEYS)
    if kind == "yaml":
        s = s.rstrip("\n")
    return s


def gen_value(rng, kind, depth=0):
    strings = lambda r: gen_string_for(r, kind)  # noqa: E731
    v = rand_value(rng, depth, 3, strings)
    return v


def strip_nulls_for_toml(v, top=True):
    """TOML cannot represent null: replace nulls; top-level must be an object."""
    if v is None:
        return "null-replaced"
    if isinstance(v, list):
        return [strip_nulls_for_toml(x, False) for x in v]
    if isinstance(v, dict):
        return {k: strip_nulls_for_toml(x, False) for k, x in v.items()}
    return v


def fancy(v, rng, depth=0):
    """Jsonnet source whose value is v, written with hidden fields, inheritance, computed keys,
    objectRemoveKey, comprehensions: only visible fields must be emitted."""
    if isinstance(v, dict):
        items = list(v.items())
        rng.shuffle(items)
        style = rng.randrange(6)

        def field(k, x, vis=":"):
            if rng.random() < 0.2:
                return "[%s]%s %s" % (jstr(k), vis, fancy(x, rng, depth + 1))
            return "%s%s %s" % (jstr(k), vis, fancy(x, rng, depth + 1))
        hidden = "%s:: %s" % (jstr("h" + rand_string(rng, 3)), rng.choice(['"hid"', "error 'hidden-forced'", "1"]))
        if style == 0 or not items:
            body = [field(k, x) for k, x in items]
            if rng.random() < 0.5:
                body.insert(rng.randint(0, len(body)), hidden)
            return "{" + ", ".join(body) + "}"
        if style == 1:
            cut = rng.randint(0, len(items))
            a = "{" + ", ".join(field(k, x) for k, x in items[:cut]) + "}"
            b = "{" + ", ".join([field(k, x) for k, x in items[cut:]] + [hidden]) + "}"
            return "(%s + %s)" % (a, b)
        if style == 2:
            # hidden in the base, forced visible in the extension / visible overridden to hidden and removed
            k0, x0 = items[0]
            base = "{" + ", ".join(["%s:: %s" % (jstr(k0), '"old"')] + [field(k, x) for k, x in items[1:]]) + "}"
            ext = "{%s::: %s}" % (jstr(k0), fancy(x0, rng, depth + 1))
            return "(%s + %s)" % (base, ext)
        if style == 3:
            extra = "zz" + rand_string(rng, 3)
            if extra in v:
                return "{" + ", ".join(field(k, x) for k, x in items) + "}"
            return "std.objectRemoveKey({%s}, %s)" % (
                ", ".join([field(k, x) for k, x in items] + ["%s: 1" % jstr(extra)]), jstr(extra))
        if style == 4:
            ks = "[" + ", ".join("[%s, %s]" % (jstr(k), fancy(x, rng, depth + 1)) for k, x in items) + "]"
            return "{[kv[0]]: kv[1] for kv in %s}" % ks
        body = [field(k, x) for k, x in items]
        return "{local q = 1, " + ", ".join(body + ["%s:: q" % jstr("hq" + rand_string(rng, 2))]) + "}"
    if isinstance(v, list):
        if v and rng.random() < 0.2:
            return "[x for x in [" + ", ".join(fancy(x, rng, depth + 1) for x in v) + "]]"
        return "[" + ", ".join(fancy(x, rng, depth + 1) for x in v) + "]"
    if isinstance(v, str):
        return common.jstr_esc(v) if rng.random() < 0.3 else jstr(v)
    return common.jval(v)


def check_json_text(text, expected, want_sorted=True):
    """Returns None if OK else (kind, message)."""
    try:
        got = oracles.strict_json(text, want_sorted=want_sorted)
    except oracles.Invalid as e:
        return ("invalid_json", str(e))
    try:
        got2 = json.loads(text, parse_float=float, parse_int=float,
                          parse_constant=lambda c: (_ for _ in ()).throw(ValueError(c)))
    except ValueError as e:
        return ("python_json_rejects", str(e))
    if not same_value(got, expected, strict_zero=True):
        return ("json_value_mismatch", "decoded value differs")
    if not same_value(got2, expected, strict_zero=True):
        return ("python_json_value_mismatch", "decoded value differs")
    return None


def pynorm(v):
    if isinstance(v, bool) or v is None or isinstance(v, str):
        return v
    if isinstance(v, (int, float)):
        return float(v)
    if isinstance(v, (list, tuple)):
        return [pynorm(x) for x in v]
    if isinstance(v, dict):
        return {k: pynorm(x) for k, x in v.items()}
    return v


JSONEX_INDENTS = ["", " ", "\t", "    ", "  "]
JSONEX_NEWLINES = ["\n", "", "\r\n", " "]
JSONEX_SEPS = [": ", ":", " : "]


def yaml_sanitize(v):
    """The property excludes strings that end in a newline from the YAML emitters (block scalars)."""
    if isinstance(v, str):
        return v.rstrip("\n")
    if isinstance(v, list):
        return [yaml_sanitize(x) for x in v]
    if isinstance(v, dict):
        return {k: yaml_sanitize(x) for k, x in v.items()}
    return v


def emit_case(rng, agg, ev, v, emitter, src_v=None):
    """Runs one (value, emitter) case."""
    if "yaml" in emitter.lower() and src_v is None:
        v = yaml_sanitize(v)
    if src_v is None:
        src_v = fancy(v, rng)
    detail = {"emitter": emitter, "value_src": src_v[:600]}
    sig_base = {"emitter": emitter}

    def viol(kind, msg, text, r):
        agg.violation(dict(sig_base, kind=kind, msg=re.sub(r"[0-9]+", "N", msg)[:80]),
                      dict(detail, problem=msg, text=(text or "")[:600]), {"script": r.lines})

    if emitter in ("manifest_multi", "manifest_single"):
        r = ev.run(src_v, walk=1, multiline=1 if emitter == "manifest_multi" else 0)
        text = r.out
    else:
        if emitter == "manifestJsonEx":
            ind, nl, sep = rng.choice(JSONEX_INDENTS), rng.choice(JSONEX_NEWLINES), rng.choice(JSONEX_SEPS)
            form = rng.randrange(3)
            if form == 0:
                src = "std.manifestJsonEx(%s, %s)" % (src_v, jstr(ind))
            elif form == 1:
                src = "std.manifestJsonEx(%s, %s, %s)" % (src_v, jstr(ind), jstr(nl))
            else:
                src = "std.manifestJsonEx(%s, %s, %s, %s)" % (src_v, jstr(ind), jstr(nl), jstr(sep))
        elif emitter == "manifestJsonMinified":
            src = "std.manifestJsonMinified(%s)" % src_v
        elif emitter == "manifestJson":
            src = "std.manifestJson(%s)" % src_v
        elif emitter == "toString":
            src = "std.toString(%s)" % src_v
        elif emitter == "concat":
            src = '"" + %s' % src_v
        elif emitter == "manifestPython":
            src = "std.manifestPython(%s)" % src_v
        elif emitter == "manifestPythonVars":
            src = "std.manifestPythonVars(%s)" % src_v
        elif emitter == "manifestTomlEx":
            src = "std.manifestTomlEx(%s, %s)" % (src_v, jstr(rng.choice(["", " ", "  ", "\t"])))
        elif emitter == "manifestToml":
            src = "std.manifestToml(%s)" % src_v
        elif emitter == "manifestYamlDoc":
            flags = rng.randrange(4)
            detail["flags"] = flags
            src = "std.manifestYamlDoc(%s, %s, %s)" % (src_v, "true" if flags & 1 else "false",
                                                      "true" if flags & 2 else "false")
            if flags == 2 and rng.random() < 0.3:
                src = "std.manifestYamlDoc(%s)" % src_v
        elif emitter == "manifestYamlStream":
            flags = rng.randrange(8)
            detail["flags"] = flags
            # std.manifestYamlStream(value, indent_array_in_object, c_document_end, quote_keys)
            src = "std.manifestYamlStream(%s, %s, %s, %s)" % (src_v, "true" if flags & 1 else "false",
                                                             "true" if flags & 4 else "false",
                                                             "true" if flags & 2 else "false")
            if flags == 6 and rng.random() < 0.5:
                src = "std.manifestYamlStream(%s)" % src_v
        elif emitter == "yaml_roundtrip":
            src = "local v = %s; std.parseYaml(std.manifestYamlDoc(v, %s, %s)) == v" % (
                src_v, rng.choice(["true", "false"]), rng.choice(["true", "false"]))
        elif emitter == "json_roundtrip":
            src = "local v = %s; [std.parseJson(std.manifestJsonEx(v, '  ')) == v, std.parseJson(std.toString([v])) == [v], " \
                  "std.parseJson(std.manifestJsonMinified(v)) == v]" % src_v
        else:
            raise AssertionError(emitter)
        detail["src"] = src[:800]
        r = ev.run(src, walk=1)
        text = r.value if r.cls == "value" else None
    if r.cls == "inconclusive":
        return
    agg.count("emitter:" + emitter)
    if r.cls != "value":
        viol("emitter_failed", "%s: %s %s" % (r.cls, r.kind, (r.msg or "")[:80]), None, r)
        return
    if emitter.endswith("roundtrip"):
        ok = r.value is True or r.value == [True, True, True]
        if not ok:
            viol("roundtrip_false", "parse(manifest(v)) != v", r.out, r)
        return
    if not isinstance(text, str):
        viol("emitter_not_string", "result is not a string", repr(text), r)
        return
    expected = v
    if emitter.startswith("manifest_"):
        # ground truth from the Value API walk must equal the generated value
        if not same_value(r.value, expected):
            viol("walk_mismatch", "value seen through the API differs from the generated value", r.out, r)
            return
    if emitter in ("manifest_multi", "manifest_single", "manifestJsonEx", "manifestJsonMinified", "manifestJson"):
        bad = check_json_text(text, expected)
        if bad:
            viol(bad[0], bad[1], text, r)
    elif emitter in ("toString", "concat"):
        if isinstance(expected, str):
            if text != expected:
                viol("tostring_string_changed", "toString of a string is not the string", text, r)
        else:
            bad = check_json_text(text, expected)
            if bad:
                viol(bad[0], bad[1], text, r)
    elif emitter == "manifestPython":
        try:
            got = pynorm(ast.literal_eval(text))
        except Exception as e:
            viol("python_rejects", type(e).__name__ + ": " + str(e)[:60], text, r)
            return
        if not same_value(got, expected, strict_zero=False):
            viol("python_value_mismatch", "literal_eval differs", text, r)
    elif emitter == "manifestPythonVars":
        got = {}
        try:
            for line in text.split("\n"):
                if not line:
                    continue
                name, _, expr = line.partition(" = ")
                if name in got:
                    raise ValueError("duplicate variable")
                got[name] = pynorm(ast.literal_eval(expr))
            if not text.endswith("\n") and expected:
                raise ValueError("no trailing newline")
        except Exception as e:
            viol("pythonvars_rejects", type(e).__name__ + ": " + str(e)[:60], text, r)
            return
        if not same_value(got, expected, strict_zero=False):
            viol("pythonvars_value_mismatch", "decoded differs", text, r)
    elif emitter in ("manifestTomlEx", "manifestToml"):
        try:
            got = pynorm(tomllib.loads(text))
        except Exception as e:
            viol("toml_rejects", type(e).__name__ + ": " + re.sub(r"\(at.*", "", str(e))[:60], text, r)
            return
        if not same_value(got, expected, strict_zero=False):
            viol("toml_value_mismatch", "tomllib value differs", text, r)
    elif emitter in ("manifestYamlDoc", "manifestYamlStream"):
        try:
            if emitter == "manifestYamlDoc":
                got = oracles.yaml_subset_doc(text)
            else:
                got = oracles.yaml_subset_stream(text, document_end=bool(detail["flags"] & 4))
        except oracles.BlockScalar:
            agg.count("yaml_block_scalar_skipped")
            return
        except oracles.Invalid as e:
            viol("yaml_not_in_subset", str(e), text, r)
            return
        if not same_value(got, expected, strict_zero=True):
            viol("yaml_value_mismatch", "subset reader value differs", text, r)
            return
        if pyyaml is not None and not re.search("[\u2028\u2029\u0085\ufeff\ufffe\uffff]", text):
            try:
                if emitter == "manifestYamlDoc":
                    got2 = pyyaml.safe_load(text)
                else:
                    got2 = list(pyyaml.safe_load_all(text))
            except Exception as e:
                viol("pyyaml_rejects", type(e).__name__ + ": " + re.sub(r"\s+", " ", str(e))[:70], text, r)
                return
            agg.count("pyyaml_checked")
            exp2 = yaml11_keys(expected)
            if not same_value(pynorm_yaml(got2), exp2, strict_zero=False):
                viol("pyyaml_value_mismatch", "PyYAML value differs", text, r)
    agg.nontrivial.add(common.h64(emitter, json.dumps(common.jsonable(v), sort_keys=True)))


def yaml11_keys(v):
    return v


def pynorm_yaml(v):
    if isinstance(v, bool) or v is None or isinstance(v, str):
        return v
    if isinstance(v, (int, float)):
        return float(v)
    if isinstance(v, list):
        return [pynorm_yaml(x) for x in v]
    if isinstance(v, dict):
        return {(k if isinstance(k, str) else KeyNotString(k)): pynorm_yaml(x) for k, x in v.items()}
    return v


class KeyNotString:
    def __init__(self, k):
        self.k = k

    def __repr__(self):
        return "KeyNotString(%r)" % (self.k,)


EMITTERS = ["manifest_multi", "manifest_single", "manifestJsonEx", "manifestJsonMinified", "manifestJson", "toString",
            "concat", "manifestPython", "manifestPythonVars", "manifestTomlEx", "manifestToml", "manifestYamlDoc",
            "manifestYamlStream", "yaml_roundtrip", "json_roundtrip"]


def value_for(rng, emitter):
    if emitter in ("manifestYamlDoc", "manifestYamlStream", "yaml_roundtrip"):
        v = gen_value(rng, "yaml")
        if emitter == "manifestYamlStream":
            v = [gen_value(rng, "yaml") for _ in range(rng.randint(1, 3))]
        return v
    if emitter in ("manifestTomlEx", "manifestToml"):
        v = strip_nulls_for_toml(gen_value(rng, "toml"))
        if not isinstance(v, dict):
            v = {rand_string(rng, 4): v}
        return v
    if emitter == "manifestPythonVars":
        v = gen_value(rng, "py")
        d = {}
        for i in range(rng.randint(0, 4)):
            d[rng.choice(["a", "b", "_x", "Var1", "long_name", "c3"])] = gen_value(rng, "py")
        return d
    return gen_value(rng, "json")


def random_shard(args):
    seed, n = args
    rng = random.Random(seed)
    agg = Agg()
    ev = Ev(agg)
    try:
        for i in range(n):
            emitter = rng.choice(EMITTERS)
            v = value_for(rng, emitter)
            emit_case(rng, agg, ev, v, emitter)
            if i < 1:
                agg.sample({"emitter": emitter, "value": common.jsonable(v)})
    finally:
        ev.close()
    return agg


def history_shard(args):
    """Objects that are the result of a history (inheritance, std.objectRemoveKey of the same key several times, shared
    sub-objects, prior observation): every emitter must show exactly the fields the layer-deletion model calls visible."""
    seed, n = args
    rng = random.Random(seed)
    agg = Agg()
    ev = Ev(agg)
    try:
        for i in range(n):
            emitter = rng.choice(EMITTERS)
            hs = [genrmkey.gen(rng) for _ in range(rng.choice([1, 1, 2]))]
            heads, roots, vals = [], [], []
            for j, h in enumerate(hs):
                head, root = genrmkey.render(h)
                # several histories in one program: keep their local names apart
                head = re.sub(r"\bB(\d+)\b", lambda m: "H%dB%s" % (j, m.group(1)), head)
                root = re.sub(r"\bB(\d+)\b", lambda m: "H%dB%s" % (j, m.group(1)), root)
                heads.append(head)
                roots.append(root)
                vals.append(genrmkey.model(h)[0])
            pre = "".join(heads)
            if emitter == "manifestYamlStream":
                v, src = vals, "[" + ", ".join(roots) + "]"
            elif emitter == "manifestPythonVars":
                v = {"v%d" % j: x for j, x in enumerate(vals)}
                src = "{" + ", ".join("v%d: %s" % (j, r) for j, r in enumerate(roots)) + "}"
            elif len(hs) == 1:
                v, src = vals[0], roots[0]
            else:
                v = {"p": vals[0], "q": [vals[1]]}
                src = "{p: %s, q: [%s], hid:: %s}" % (roots[0], roots[1], roots[1])
            emit_case(rng, agg, ev, v, emitter, src_v="(%s%s)" % (pre, src))
            agg.count("history_objects_emitted")
            agg.add("history_shapes", genrmkey.shape_key(hs[0]))
            if i < 1:
                agg.sample({"leg": "history", "emitter": emitter, "source": (pre + src)[:500], "value": common.jsonable(v)})
    finally:
        ev.close()
    return agg


def exhaustive_shard(args):
    """Every code point of a range and every sensitive key, as value, as key, first/last char."""
    seed, cps, keys = args
    rng = random.Random(seed)
    agg = Agg()
    ev = Ev(agg)
    try:
        for cp in cps:
            ch = chr(cp)
            for emitter in ("manifest_single", "manifestJsonEx", "toString", "manifestPython", "manifestTomlEx",
                            "manifestYamlDoc", "yaml_roundtrip"):
                v = {"k": ch, ch: "v", "a" + ch: [ch + "z", "z" + ch + "z"]}
                if emitter == "toString":
                    v = [ch, {ch: ch}]
                emit_case(rng, agg, ev, v, emitter)
            agg.add("code_points", cp)
        for k in keys:
            for emitter in ("manifestYamlDoc", "manifestYamlDoc", "manifestTomlEx", "manifestPython",
                            "manifest_single", "yaml_roundtrip"):
                kk = k.rstrip("\n") if "Yaml" in emitter or "yaml" in emitter else k
                v = {kk: kk, "x": [kk, {kk: [kk]}]}
                emit_case(rng, agg, ev, v, emitter)
            agg.add("sensitive_keys", k)
    finally:
        ev.close()
    return agg


def cli_shard(args):
    """Default output, -y items and -m files through the real CLI are valid JSON of the value."""
    seed, n = args
    rng = random.Random(seed)
    agg = Agg()
    os.makedirs(common.SCRATCH, exist_ok=True)
    for i in range(n):
        mode = rng.choice(["default", "y", "m", "o", "oy", "my", "my"])
        if mode in ("default", "o"):
            v = gen_value(rng, "json")
        elif mode in ("y", "oy"):
            v = [gen_value(rng, "json") for _ in range(rng.randint(1, 3))]
        elif mode == "my":
            # one YAML stream per file: several files, several documents each (also none)
            v = {k: [gen_value(rng, "json") for _ in range(rng.randint(0, 3))] for k in rng.sample(["a", "b.json", "c_d", "e-f", "g h"], rng.randint(2, 4))}
        else:
            v = {k: gen_value(rng, "json") for k in rng.sample(["a", "b.json", "c_d", "e-f", "g h"], rng.randint(1, 3))}
        src = fancy(v, rng)
        if "\x00" in src:
            continue
        d = tempfile.mkdtemp(dir=common.SCRATCH)
        try:
            ofile = os.path.join(d, "out.json")
            argv = {"default": [], "y": ["-y"], "m": ["-m", d], "o": ["-o", ofile], "oy": ["-y", "-o", ofile], "my": ["-m", d, "-y"]}[mode] + ["-"]
            # the documents land in files that may already exist (an earlier, longer or shorter output)
            existing = rng.choice([None, None, b"", b"{}\n", b"[\n" + b"   1,\n" * 3000 + b"   1\n]\n", b"x" * 100000])
            if existing is not None:
                if mode in ("o", "oy"):
                    with open(ofile, "wb") as f:
                        f.write(existing)
                elif mode in ("m", "my"):
                    for k_ in list(v)[: rng.randint(1, len(v))]:
                        with open(os.path.join(d, k_), "wb") as f:
                            f.write(existing)
            p = subprocess.run([common.CLI] + argv, input=src.encode("utf-8"), capture_output=True, timeout=60,
                               env=dict(os.environ, NO_COLOR="1"))
            agg.evaluations += 1
            replay = {"argv": argv, "stdin": src}
            if p.returncode != 0:
                agg.violation({"kind": "cli_failed", "mode": mode}, {"src": src[:500], "stderr": p.stderr[-300:]}, replay)
                continue
            out = p.stdout.decode("utf-8")
            if mode in ("o", "oy"):
                try:
                    with open(ofile, encoding="utf-8") as f:
                        out = f.read()
                except (OSError, UnicodeDecodeError) as e:
                    agg.violation({"kind": "output_file_unreadable", "mode": mode}, {"src": src[:500], "why": str(e)}, replay)
                    continue
            docs = []
            if mode in ("default", "o"):
                docs = [(out, v)]
            elif mode == "my":
                bad_my = None
                for k, xs in v.items():
                    with open(os.path.join(d, k), encoding="utf-8", errors="replace") as f:
                        text = f.read()
                    if not xs:
                        if text.strip() != "":
                            bad_my = (k, "empty stream prints something")
                        continue
                    parts = text.split("---\n")
                    if parts[0] != "" or not text.endswith("...\n") or len(parts) - 1 != len(xs):
                        bad_my = (k, "framing / number of documents")
                        break
                    body = parts[1:]
                    body[-1] = body[-1][:-len("...\n")]
                    docs.extend(zip(body, xs))
                if bad_my:
                    agg.violation({"kind": "multi_yaml_stream_file", "what": bad_my[1]}, {"src": src[:500], "file": bad_my[0]}, replay)
                    continue
            elif mode in ("y", "oy"):
                parts = out.split("---\n")
                if parts[0] != "" or not out.endswith("...\n"):
                    agg.violation({"kind": "yaml_stream_framing"}, {"src": src[:500], "out": out[:300]}, replay)
                    continue
                body = parts[1:]
                body[-1] = body[-1][:-len("...\n")]
                if len(body) != len(v):
                    agg.violation({"kind": "yaml_stream_count"}, {"src": src[:500], "out": out[:300]}, replay)
                    continue
                docs = list(zip(body, v))
            else:
                for k, x in v.items():
                    with open(os.path.join(d, k), encoding="utf-8", errors="replace") as f:
                        docs.append((f.read(), x))
            for text, exp in docs:
                bad = check_json_text(text, exp)
                if bad:
                    agg.violation({"kind": bad[0], "emitter": "cli:" + mode, "msg": re.sub(r"[0-9]+", "N", bad[1])[:80]},
                                  {"src": src[:500], "text": text[:400], "problem": bad[1]}, replay)
            agg.count("cli:" + mode + (":existing_target" if existing is not None and mode != "default" and mode != "y" else ""))
            agg.nontrivial.add(common.h64("cli", mode, src))
        finally:
            shutil.rmtree(d, ignore_errors=True)
    return agg


def run(tier, seed):
    t0 = time.time()
    quick = tier != "thorough"
    total = Agg()
    n = 30_000 if quick else 1_500_000
    shards = [(seed * 1009 + i, n // 64) for i in range(64)]
    for a in common.pmap(random_shard, shards):
        total.merge(a)
    # exhaustive part: U+0000..U+02FF + boundary code points, sensitive keys
    cps = list(range(0x300)) + [0x7FF, 0x800, 0xFFF, 0x2028, 0x2029, 0xD7FF, 0xE000, 0xFEFF, 0xFFFD, 0xFFFE, 0xFFFF,
                                0x10000, 0x1F600, 0x10FFFF, 0x85, 0x200B, 0x200D, 0x202E]
    if not quick:
        rng = random.Random(seed)
        cps += [rng.randrange(0x300, 0xD800) for _ in range(3000)] + [rng.randrange(0xE000, 0x110000) for _ in range(3000)]
    keys = YAML_SENSITIVE_KEYS
    shards = [(seed + i, cps[i::32], keys[i::32]) for i in range(32)]
    for a in common.pmap(exhaustive_shard, shards):
        total.merge(a)
    nh = 4800 if quick else 300_000
    for a in common.pmap(history_shard, [(seed * 1013 + i, nh // 16) for i in range(16)]):
        total.merge(a)
    ncli = 320 if quick else 16000
    for a in common.pmap(cli_shard, [(seed * 13 + i, ncli // 16) for i in range(16)]):
        total.merge(a)
    rule = ("hostile JSON-representable values (all C0 controls, DEL, C1, BMP edges, astral, YAML/TOML-sensitive keys, "
            "boundary doubles) written as Jsonnet with hidden fields/inheritance/objectRemoveKey/comprehensions, sent "
            "through 15 emitters; decoded by an own strict RFC 8259 parser (sorted keys, no duplicates, no raw "
            "controls) + Python json, ast.literal_eval, tomllib, an own reader of the emitted YAML subset + PyYAML, "
            "and round trips through std.parseJson/parseYaml; exhaustive over U+0000..U+02FF and boundary code points "
            "(as value, key, first/last char) and over a list of sensitive plain keys; CLI default / -y / -m / -m -y / -o / -y -o outputs, also into files that already exist (empty, shorter, longer); "
            "history objects (genrmkey: inheritance chains with std.objectRemoveKey of the same key applied repeatedly, "
            "shared sub-objects, prior observation) through every emitter against the layer-deletion model's visible fields. "
            "distinct_nontrivial = distinct (emitter, value) pairs whose document was decoded and compared.")
    return common.finish(PROP, tier, seed, total, rule, t0,
                         extra={"pyyaml": pyyaml.__version__ if pyyaml else None},
                         assumptions=["Python json/ast/tomllib and PyYAML (YAML 1.1) are correct decoders",
                                      "mapping keys are compared as strings (YAML 1.1/1.2 resolve plain keys differently)",
                                      "YAML strings do not end in a newline; TOML values are null-free"])

"""C14 - lexing tiles the input and decodes literals exactly."""
import itertools
import os
import random
import re
import time

import common
import genbytes
import reflex
from common import Agg, Crashed, Server, hx, unhx

PROP = "C14"


def parse_tokens(field):
    toks = []
    if field == "":
        return toks
    for t in field.split(","):
        p = t.split(":")
        kind = p[0]
        s, e = int(p[1]), int(p[2])
        payload = None
        if kind in ("O", "I", "Q", "B"):
            payload = unhx(p[3]).decode("utf-8")
        elif kind == "N":
            payload = (unhx(p[3]).decode("ascii"), int(p[4]))
        if len(p) > 5 or (kind not in ("N",) and len(p) > 4):
            payload = ("WRONGCTX", payload)
        toks.append((kind, s, e, payload))
    return toks


def lex_request(srv, data, pre=None):
    line = "LEX " + hx(data) + (" %d:%d" % pre if pre else "")
    recs = srv.request([line], timeout=60)
    return recs[0], line


def check_input(agg, srv, data, family, pre=None, expect=None):
    """Runs the tiling monitor and the reference comparison on one input."""
    agg.evaluations += 1
    try:
        rec, line = lex_request(srv, data, pre)
    except Crashed as e:
        if e.kind in ("timeout", "oom"):
            agg.inconc(e.kind)
            return
        agg.violation({"kind": "lexer_crash", "family": family}, {"input": data[:300].decode("latin-1"), "crash": e.detail[-300:]},
                      {"script": ["LEX " + hx(data)]})
        return
    replay = {"script": [line]}
    desc = {"family": family, "input": data[:400].decode("latin-1")}
    if rec.status == "PANIC":
        agg.violation({"kind": "lexer_panic", "msg": re.sub(r"[0-9]+", "N", rec.s("msg") or "")[:80]},
                      dict(desc, panic=rec.s("msg"), loc=rec.s("loc")), replay)
        return
    if rec.status != "OK":
        raise common.Broken("LEX answered " + rec.raw[:200])
    n = len(data)
    full_err = rec.get("full") == "ERR"
    filt_err = rec.get("filt") == "ERR"
    if full_err != filt_err:
        agg.violation({"kind": "filtered_and_full_disagree_on_failure"}, desc, replay)
        return
    try:
        ref = reflex.lex(data)
        ref_state = "ok"
    except reflex.LexErr as e:
        ref, ref_state = None, "err"
        ref_why = e.what
    except reflex.Unmodelled:
        ref, ref_state = None, "unmodelled"
    if full_err:
        agg.count("lex_error")
        agg.add("error_kinds", rec.get("fullkind"))
        spans = rec.get("fullspans", "-")
        if spans == "-" or "," in spans:
            agg.violation({"kind": "error_not_exactly_one_location"}, dict(desc, spans=spans), replay)
            return
        src, s, e, ln = spans.split(":")
        if src == "?" or not (0 <= int(s) <= int(e) <= n) or int(ln) != n:
            agg.violation({"kind": "error_span_outside_input"}, dict(desc, spans=spans, length=n), replay)
        if rec.get("fullspans") != rec.get("filtspans") or rec.get("fullkind") != rec.get("filtkind"):
            agg.violation({"kind": "filtered_and_full_report_different_errors"}, desc, replay)
        if ref_state == "ok":
            agg.violation({"kind": "valid_input_rejected", "errkind": rec.get("fullkind")},
                          dict(desc, error=rec.s("fulldbg")), replay)
        elif ref_state == "err":
            agg.nontrivial.add(common.h64(data))
        return
    full = parse_tokens(rec["full"])
    filt = parse_tokens(rec["filt"])
    agg.count("lexed_ok")
    agg.count("tokens", len(full))
    # tiling
    pos = 0
    for k, s, e, p in full:
        if s != pos or e < s:
            agg.violation({"kind": "tokens_do_not_tile"}, dict(desc, at=pos, token=[k, s, e]), replay)
            return
        if isinstance(p, tuple) and p and p[0] == "WRONGCTX":
            agg.violation({"kind": "token_span_in_wrong_context"}, dict(desc, token=[k, s, e]), replay)
            return
        pos = e
    if not full or full[-1][0] != "E" or full[-1][1] != n or full[-1][2] != n or pos != n:
        agg.violation({"kind": "no_eof_token_at_end"}, dict(desc, last=full[-1][:3] if full else None, length=n), replay)
        return
    if any(k == "E" for k, _, _, _ in full[:-1]):
        agg.violation({"kind": "eof_token_in_the_middle"}, desc, replay)
        return
    if [t for t in full if t[0] not in ("W", "C")] != filt:
        agg.violation({"kind": "filtered_list_differs"}, desc, replay)
        return
    if ref_state == "err":
        agg.violation({"kind": "invalid_input_accepted", "why": ref_why}, dict(desc, reference=ref_why), replay)
        return
    if ref_state == "unmodelled":
        agg.count("reference_unmodelled")
        return
    agg.nontrivial.add(common.h64(data))
    if ref != full:
        k = next((i for i, (a, b) in enumerate(zip(ref, full)) if a != b), min(len(ref), len(full)))
        a = ref[k] if k < len(ref) else None
        b = full[k] if k < len(full) else None
        what = "kind_or_extent" if (a is None or b is None or a[:3] != b[:3]) else "payload:" + a[0]
        agg.violation({"kind": "token_differs_from_reference", "what": what, "family": family if family.startswith("exh") else "gen"},
                      dict(desc, index=k, reference=repr(a)[:300], got=repr(b)[:300]), replay)
        return
    for t in full:
        agg.add("token_kinds", t[0][:1] if t[0][0] != "S" else "S")
    if expect is not None and expect != [t for t in full if t[0] not in ("W", "C", "E")]:
        agg.violation({"kind": "token_differs_from_construction", "family": family},
                      dict(desc, expected=repr(expect)[:300], got=repr(full)[:300]), replay)


# ------------------------------------------------------------------------------------------------
# grammar-generated token sequences (expected tokens known by construction)

def esc_string(rng, s, delim):
    """Writes s as a quoted literal choosing escapes at random; returns bytes."""
    out = []
    for ch in s:
        o = ord(ch)
        k = rng.random()
        simple = {'"': '\\"', "'": "\\'", "\\": "\\\\", "\n": "\\n", "\r": "\\r", "\t": "\\t", "\b": "\\b", "\f": "\\f", "/": "\\/"}
        if ch == delim or ch == "\\":
            out.append(simple[ch] if k < 0.7 else "\\u%04x" % o)
        elif ch in simple and k < 0.5:
            out.append(simple[ch])
        elif k < 0.25 or (o < 0x20 and ch not in "\n\t" and k < 0.9):
            if o < 0x10000:
                out.append(("\\u%04x" if rng.random() < 0.5 else "\\u%04X") % o)
            else:
                o2 = o - 0x10000
                out.append("\\u%04x\\u%04x" % (0xD800 + (o2 >> 10), 0xDC00 + (o2 & 0x3FF)))
        else:
            out.append(ch)
    return (delim + "".join(out) + delim).encode("utf-8")


STR_ALPHA = ["a", "b", " ", "\n", "\t", "\r", '"', "'", "\\", "/", "\x00", "\x1f", "\x7f", "\x80", "\u00e9", "\u20ac", "\U0001f600", "\ud7ff",
             "", "\uffff", "\U0010ffff", "|", "%", "{", "@", "\b", "\f", " ", "\ufeff", "\u0301"]


def gen_token(rng):
    """(source bytes, expected token (kind, payload)) for one literal-carrying token."""
    k = rng.randrange(9)
    if k == 0:
        s = "".join(rng.choice(STR_ALPHA) for _ in range(rng.randint(0, 8)))
        d = rng.choice(['"', "'"])
        return esc_string(rng, s, d), ("Q", s)
    if k == 1:
        s = "".join(rng.choice(STR_ALPHA) for _ in range(rng.randint(0, 8)))
        d = rng.choice(['"', "'"])
        return ("@" + d + s.replace(d, d + d) + d).encode("utf-8"), ("Q", s)
    if k == 2:
        # text block
        prefix = rng.choice([" ", "  ", "\t", " \t", "    "])
        lines = []
        for _ in range(rng.randint(1, 4)):
            body = "".join(rng.choice(["a", "b", " ", "\t", "|", "|||", "\u20ac", "\U0001f600", "'", '"', "\\", "\\n", "x"]) for _ in range(rng.randint(0, 6)))
            if rng.random() < 0.2 and lines:
                lines.append(None)   # blank line
            lines.append(rng.choice(["", " ", "\t"]) + body if rng.random() < 0.3 else body)
        if lines[0] is None:
            lines = lines[1:]
        # line endings: LF, CR LF, or mixed per line (a CR before LF is content; a CR LF line is blank)
        eol_mode = rng.choice(["\n", "\n", "\r\n", "mixed"])

        def eol():
            return rng.choice(["\n", "\r\n"]) if eol_mode == "mixed" else eol_mode
        ends = [eol() for _ in lines]
        text = "".join(e if ln is None else ln + e for ln, e in zip(lines, ends))
        src = "".join(e if ln is None else prefix + ln + e for ln, e in zip(lines, ends))
        chomp = rng.random() < 0.4
        head = "|||" + ("-" if chomp else "") + rng.choice(["", " ", "\t "]) + eol()
        lead_blank = rng.choice(["", "", eol(), eol() + eol()])
        term = rng.choice(["", " ", prefix[:-1], "\t"]) + "|||"
        if term.startswith(prefix):
            term = "|||"
        exp = lead_blank + text
        if chomp:
            exp = exp[:-1]
        return (head + lead_blank + src + term).encode("utf-8"), ("B", exp)
    if k == 3:
        def grp(n):
            return "".join(rng.choice("0123456789") for _ in range(n))
        ip = rng.choice(["0", str(rng.randint(1, 9)) + grp(rng.randint(0, 6))])
        text = ip
        digits = ip
        if rng.random() < 0.4 and ip != "0":
            extra = [grp(rng.randint(1, 3)) for _ in range(rng.randint(1, 3))]
            text += "_" + "_".join(extra)
            digits += "".join(extra)
        frac = ""
        if rng.random() < 0.5:
            parts = [grp(rng.randint(1, 4)) for _ in range(rng.randint(1, 2))]
            text += "." + "_".join(parts)
            frac = "".join(parts)
        exp = 0
        if rng.random() < 0.5:
            parts = [grp(rng.randint(1, 2)) for _ in range(rng.randint(1, 2))]
            sign = rng.choice(["", "+", "-"])
            text += rng.choice("eE") + sign + "_".join(parts)
            exp = int("".join(parts)) * (-1 if sign == "-" else 1)
        return text.encode(), ("N", (digits + frac, exp - len(frac)))
    if k == 4:
        w = rng.choice(sorted(reflex.KEYWORDS))
        return w.encode(), ("S" + reflex.KW_NAMES[w], None)
    if k == 5:
        w = rng.choice(["x", "_", "_a1", "ifx", "locals", "Self", "a_b", "nulll", "e1", "E", "x9", "importstrx", "tailstrict_"])
        return w.encode(), ("I", w)
    if k == 6:
        op = rng.choice(sorted(reflex.SIMPLE_OPS))
        return op.encode(), ("S" + reflex.SIMPLE_OPS[op], None)
    if k == 7:
        sym = rng.choice(sorted(reflex.SYMBOLS))
        return sym.encode(), ("S" + reflex.SYMBOLS[sym], None)
    op = rng.choice(["<=>", "=>", "->", "<-", "**", "%%", "<<<", ">>=", "&&&", "^^", "!==", "===", "<>", "$$", "::=", "+=", "-=", "|>", "~>"])
    return op.encode(), ("O", op)


SEPARATORS = [b" ", b"\n", b"\t", b"\r\n", b"  ", b" /* c */ ", b" // c\n", b" # c\n", b"\n\n", b" /* \xf0\x9f\x98\x80 */ ",
              b" /* \xff\xfe */ ", b" // \xc3\x28\n", b"/**/ ", b" /*/*/ "]


def gen_sequence(rng):
    parts = []
    expected = []
    for _ in range(rng.randint(1, 10)):
        src, tok = gen_token(rng)
        parts.append(src)
        parts.append(rng.choice(SEPARATORS))
        expected.append(tok)
    if rng.random() < 0.5:
        parts.pop()
        parts.append(b" ")
    return b"".join(parts), expected


def gen_shard(args):
    seed, n = args
    rng = random.Random(seed)
    agg = Agg()
    srv = Server()
    try:
        for i in range(n):
            k = rng.random()
            if k < 0.55:
                data, expected = gen_sequence(rng)
                pre = rng.choice([None, None, (1, 0), (3, 1000), (2, (1 << 38) + 5), (1, 1 << 25)])
                # expected by construction: kinds and payloads (extents come from the reference lexer)
                agg.evaluations += 0
                check_input(agg, srv, data, "grammar", pre)
                try:
                    got = [(t[0], t[3]) for t in reflex.lex(data) if t[0] not in ("W", "C", "E")]
                    if got != expected:
                        # the construction itself disagrees with the reference: generator problem, not rsjsonnet's
                        agg.count("construction_vs_reference_mismatch")
                except Exception:
                    agg.count("construction_not_lexable_by_reference")
            else:
                family, data = genbytes.gen_input(rng)
                check_input(agg, srv, data, family)
            if i < 2:
                agg.sample({"input": data[:100].decode("latin-1")})
    finally:
        srv.close()
    return agg


# ------------------------------------------------------------------------------------------------
# exhaustive parts

def exh_ops_shard(args):
    seed, combos = args
    agg = Agg()
    srv = Server()
    try:
        for combo in combos:
            for ctx in (b"%s", b"a%sb", b"1 %s 2", b"%s\n", b"x%s-1"):
                data = ctx.replace(b"%s", combo)
                check_input(agg, srv, data, "exh_ops")
            agg.add("op_clusters", combo)
    finally:
        srv.close()
    return agg


def exh_chars_shard(args):
    seed, cps = args
    agg = Agg()
    srv = Server()
    try:
        # batches of 32 code points inside each string form
        for i in range(0, len(cps), 32):
            chunk = [chr(c) for c in cps[i:i + 32]]
            s = "".join(chunk)
            forms = []
            raw = "".join(c for c in chunk if c not in '"\\')
            forms.append(('"' + raw + '"').encode("utf-8"))
            raw = "".join(c for c in chunk if c not in "'\\")
            forms.append(("'" + raw + "'").encode("utf-8"))
            forms.append(('@"' + s.replace('"', '""') + '"').encode("utf-8"))
            forms.append(("@'" + s.replace("'", "''") + "'").encode("utf-8"))
            esc = "".join("\\u%04x" % ord(c) if ord(c) < 0x10000 else
                          "\\u%04x\\u%04x" % (0xD800 + ((ord(c) - 0x10000) >> 10), 0xDC00 + ((ord(c) - 0x10000) & 0x3FF)) for c in chunk)
            forms.append(('"' + esc + '"').encode("ascii"))
            tb = "|||\n" + "".join("  " + c + "x\n" for c in chunk if c not in "\n\r") + "|||"
            forms.append(tb.encode("utf-8"))
            forms.append(("/* " + s.replace("*/", "* /") + " */ 1").encode("utf-8"))
            forms.append(("# " + s.replace("\n", " ") + "\n1").encode("utf-8"))
            for f in forms:
                check_input(agg, srv, f, "exh_chars")
            for c in cps[i:i + 32]:
                agg.add("code_points", c)
    finally:
        srv.close()
    return agg


def invalid_prefixes():
    """Every 1-, 2- and 3-byte sequence class that is an invalid or incomplete UTF-8 prefix (sampled by class
    boundaries for the continuation bytes)."""
    out = []
    conts = [0x00, 0x7F, 0x80, 0x8F, 0x90, 0x9F, 0xA0, 0xBF, 0xC0, 0xFF, 0x22, 0x5C]
    for b0 in range(0x80, 0x100):
        out.append(bytes([b0]))
        for b1 in conts:
            out.append(bytes([b0, b1]))
            if b0 >= 0xE0:
                for b2 in conts:
                    out.append(bytes([b0, b1, b2]))
    res = []
    for b in out:
        try:
            b.decode("utf-8")
        except UnicodeDecodeError:
            res.append(b)
    return res


def exh_invalid_shard(args):
    seed, seqs = args
    agg = Agg()
    srv = Server()
    try:
        for b in seqs:
            body = b.replace(b'"', b"").replace(b"\\", b"")
            forms = [b'"a' + body + b'z"', b"'" + body.replace(b"'", b"") + b"'", b'@"' + body + b'"',
                     b"|||\n  a" + b.replace(b"\n", b"").replace(b"\r", b"") + b"z\n|||", b"/* " + b + b" */ 1", b"// " + b.replace(b"\n", b"") + b"\n1",
                     b"1 + " + b]
            for f in forms:
                check_input(agg, srv, f, "exh_invalid_utf8")
            agg.add("invalid_prefixes", b)
    finally:
        srv.close()
    return agg


NUMBER_FORMS = ["1_000", "1_0.5_0e1_0", "1_.5", "1_e5", "1_E5", "1.5_e3", "1.5_", "1_", "1__0", "_1", "1._5", "1.e5", "1e_5",
                "1e5_", "1e+_5", "0_1", "0_", "00", "01", "0.0_0", "1e0_0", "1_0e1_0", "9_9.9_9", "1.5_5e-1_0", "1_2_3_4", "1e1__0",
                "1.0__0", "1_.", "1_x", "1_ 2", "0x_1", "1e", "1e+", "1.", "1.x", ".5", "1..2", "1.2.3", "1e5e5", "1e5.5"]


def number_forms_shard(args):
    """Every underscore / fraction / exponent junction of the number grammar, in several contexts."""
    agg = Agg()
    srv = Server()
    try:
        for form in NUMBER_FORMS:
            for ctx in (b"%s", b"[%s]", b"x + %s;", b"%s\n", b"{a: %s}", b"f(%s, 2)"):
                check_input(agg, srv, ctx.replace(b"%s", form.encode()), "exh_number_forms")
            agg.add("number_forms", form)
    finally:
        srv.close()
    return agg


# ------------------------------------------------------------------------------------------------
# giant tokens: one token whose span length sits around the limits of the span encoding (2^25, 2^26 bytes).  The
# input is described to the harness in run-length form (no 64 MiB through the pipe); the expected token list is
# known by construction.

def giant_cases():
    """-> (name, parts, expected tokens [(kind, start, end, payload-or-None)]) ; parts: bytes | (count, bytes)."""
    out = []
    for T in (2 ** 25 - 1, 2 ** 25, 2 ** 25 + 1, 2 ** 26 - 1, 2 ** 26, 2 ** 26 + 1, 3 * 2 ** 24 + 5):
        def mk(name, parts, toks):
            out.append(("%s:%d" % (name, T), parts, toks))
        # leading '1', then the giant token of length T starting at offset 1, then ' 2'
        mk("whitespace", [b"1", (T, b" "), b"2"], [("N", 0, 1, ("1", 0)), ("W", 1, 1 + T, None), ("N", 1 + T, 2 + T, ("2", 0))])
        mk("newlines", [b"1", (T, b"\n"), b"2"], [("N", 0, 1, ("1", 0)), ("W", 1, 1 + T, None), ("N", 1 + T, 2 + T, ("2", 0))])
        mk("block_comment", [b"1/*", (T - 4, b"x"), b"*/2"], [("N", 0, 1, ("1", 0)), ("C", 1, 1 + T, None), ("N", 1 + T, 2 + T, ("2", 0))])
        # (a single-line comment token includes its line terminator, as in the reference lexer)
        mk("line_comment", [b"1//", (T - 3, b"y"), b"\n2"], [("N", 0, 1, ("1", 0)), ("C", 1, 1 + T, None), ("N", 1 + T, 2 + T, ("2", 0))])
        mk("hash_comment", [b"1#", (T - 2, b"z"), b"\n2"], [("N", 0, 1, ("1", 0)), ("C", 1, 1 + T, None), ("N", 1 + T, 2 + T, ("2", 0))])
        mk("dq_string", [b"1 \"", (T - 2, b"a"), b"\" 2"], [("N", 0, 1, ("1", 0)), ("W", 1, 2, None), ("Q", 2, 2 + T, b"a" * (T - 2)),
                                                             ("W", 2 + T, 3 + T, None), ("N", 3 + T, 4 + T, ("2", 0))])
        mk("sq_string_utf8", [b"'", ((T - 2) // 2, "\u00e9".encode()), b"'" if (T - 2) % 2 == 0 else b"q'"],
           [("Q", 0, T, "\u00e9".encode() * ((T - 2) // 2) + (b"" if (T - 2) % 2 == 0 else b"q"))])
        mk("verbatim_string", [b"@\"", (T - 3, b"b"), b"\""], [("Q", 0, T, b"b" * (T - 3))])
        mk("identifier", [(T, b"i"), b" "], [("I", 0, T, b"i" * T), ("W", T, T + 1, None)])
        # text block: |||\n + M lines of '  x...x\n' + '|||' ; total length T = 4 + M * L + 3
        L = 64
        M = (T - 7) // L
        pad = (T - 7) - M * L          # a first, shorter line
        first = b"  " + b"f" * max(pad - 3, 0) + b"\n" if pad >= 3 else b""
        extra = pad - len(first)
        parts = [b"|||\n", first, (M, b"  " + b"x" * (L - 3) + b"\n"), b" " * extra + b"|||"]
        payload = (first[2:] if first else b"") + (b"x" * (L - 3) + b"\n") * M
        mk("text_block", parts, [("B", 0, T, payload)])
    return out


def giant_arg(parts):
    segs = []
    for p in parts:
        if isinstance(p, tuple):
            if p[0] > 0:
                segs.append("r%d:%s" % (p[0], p[1].hex()))
        elif p:
            segs.append("x" + p.hex())
    return "+".join(segs) + ("+x" if len(segs) == 1 and segs[0].startswith("x") else "")


def giant_shard(args):
    cases, = args
    import zlib
    agg = Agg()
    srv = Server(mem_gib=6)
    try:
        for name, parts, expect in cases:
            total = sum((p[0] * len(p[1])) if isinstance(p, tuple) else len(p) for p in parts)
            line = "LEX " + giant_arg(parts)
            agg.evaluations += 1
            desc = {"family": "giant:" + name.split(":")[0], "token_length": int(name.split(":")[1]), "input_length": total,
                    "input": line[:200]}
            replay = {"script": [line]}
            try:
                rec = srv.request([line], timeout=300)[0]
            except Crashed as e:
                if e.kind in ("timeout", "oom"):
                    agg.inconc(e.kind)
                    continue
                agg.violation({"kind": "lexer_crash", "family": "giant"}, dict(desc, crash=e.detail[-300:]), replay)
                continue
            if rec.status == "PANIC":
                agg.violation({"kind": "lexer_panic", "msg": re.sub(r"[0-9]+", "N", rec.s("msg") or "")[:80]},
                              dict(desc, panic=rec.s("msg"), loc=rec.s("loc")), replay)
                continue
            if rec.status != "OK":
                raise common.Broken("LEX answered " + rec.raw[:200])
            if rec.get("full") == "ERR":
                agg.violation({"kind": "valid_input_rejected", "errkind": rec.get("fullkind")}, dict(desc, error=rec.s("fulldbg")), replay)
                continue
            got = []
            for t in rec["full"].split(","):
                p = t.split(":")
                if "WRONGCTX" in p:
                    agg.violation({"kind": "token_span_in_wrong_context"}, dict(desc, token=t[:80]), replay)
                    break
                kind = p[0]
                pay = None
                if kind in ("Q", "B", "I"):
                    pay = (p[3] + ":" + p[4]) if p[3].startswith("#") else unhx(p[3])
                elif kind == "N":
                    pay = (unhx(p[3]).decode("ascii"), int(p[4]))
                got.append((kind, int(p[1]), int(p[2]), pay))
            else:
                exp = []
                for k, s0, e0, pay in expect:
                    if isinstance(pay, bytes) and len(pay) > (1 << 20):
                        pay = "#%d:%08x" % (len(pay), zlib.crc32(pay) & 0xFFFFFFFF)
                    exp.append((k, s0, e0, pay))
                exp.append(("E", total, total, None))
                if got != exp:
                    k = next((i for i, (a, b) in enumerate(zip(exp, got)) if a != b), min(len(exp), len(got)))
                    agg.violation({"kind": "giant_token_differs_from_construction", "family": "giant:" + name.split(":")[0]},
                                  dict(desc, index=k, expected=repr(exp[k] if k < len(exp) else None)[:200],
                                       got=repr(got[k] if k < len(got) else None)[:200]), replay)
                    continue
                filt = rec["filt"].split(",")
                if len(filt) != len([t for t in exp if t[0] not in ("W", "C")]):
                    agg.violation({"kind": "filtered_list_differs", "family": "giant"}, desc, replay)
                    continue
                agg.count("giant_tokens_ok")
                agg.add("giant_token_cells", name)
                agg.nontrivial.add(common.h64("giant", name))
                if len(agg.samples) < 1:
                    agg.sample({"leg": "giant", "case": name, "input": line[:120], "tokens": [list(map(str, t[:3])) for t in got]})
    finally:
        srv.close()
    return agg


def fuzz_judge(agg, d):
    data = d["data"]
    desc = {"family": "fuzz", "input": data[:400].decode("latin-1")}
    replay = {"script": ["LEX " + hx(data)], "fuzz_input_hex": data.hex()}
    if d["cls"] == "monitor" and d["prop"] == PROP:
        agg.violation({"kind": "fuzz_monitor", "msg": re.sub(r"[0-9]+", "N", d["msg"])[:100]}, dict(desc, monitor=d["msg"]), replay)
    elif d["cls"] == "panic":
        agg.violation({"kind": "lexer_panic", "msg": re.sub(r"[0-9]+", "N", d["msg"])[:80]},
                      dict(desc, panic=d["msg"], loc="%s:%s" % (d["loc"], d["line"])), replay)
    elif d["cls"] in ("sanitizer", "crash", "native_stack_overflow"):
        agg.violation({"kind": "lexer_crash", "family": "fuzz"}, dict(desc, stderr=d["stderr"][-600:]), replay)
    elif d["cls"] in ("timeout", "resource"):
        agg.inconc("fuzz_" + d["cls"])
    else:
        agg.count("fuzz_artifact_not_reproduced")


def fuzz_corpus_shard(args):
    inputs = args[0]
    agg = Agg()
    srv = Server()
    try:
        for data in inputs:
            check_input(agg, srv, data, "fuzz_corpus")
    finally:
        srv.close()
    return agg


def fuzz_corpus(agg, inputs):
    agg.count("fuzz_corpus_inputs_through_reference_lexer", len(inputs))
    for a in common.pmap(fuzz_corpus_shard, [(inputs[i::16],) for i in range(16)]):
        agg.merge(a)


def run(tier, seed):
    t0 = time.time()
    quick = tier != "thorough"
    total = Agg()
    if not quick:
        # coverage-guided inputs: tiling monitors in process (libFuzzer + ASan), the kept corpus through the reference lexer
        import fuzzleg
        fuzzleg.run_leg(total, PROP, "fz_lex", int(os.environ.get("VERIF_FUZZ_SECONDS") or 600), seed, 4096, fuzz_judge, fuzz_corpus)
    gc_ = giant_cases()
    if quick:
        # every token kind at one of the boundary lengths each (rotating with the seed), all lengths in the thorough tier
        kinds = sorted({c[0].split(":")[0] for c in gc_})
        lens = sorted({int(c[0].split(":")[1]) for c in gc_})
        keep = {"%s:%d" % (k, lens[(i + seed + j * 3) % len(lens)]) for i, k in enumerate(kinds) for j in range(2)}
        gc_ = [c for c in gc_ if c[0] in keep]
    for a in common.pmap(giant_shard, [(gc_[i::8],) for i in range(8)], nproc=8):
        total.merge(a)
    for a in common.pmap(number_forms_shard, [(seed,)]):
        total.merge(a)
    n = 160_000 if quick else 6_000_000
    for a in common.pmap(gen_shard, [(seed * 503 + i, n // 64) for i in range(64)]):
        total.merge(a)
    opchars = [bytes([c]) for c in reflex.OPCHARS]
    combos = [a + b for a in opchars for b in opchars] + [a + b + c for a in opchars for b in opchars for c in opchars]
    if not quick:
        rng = random.Random(seed)
        combos += [b"".join(rng.choice(opchars) for _ in range(rng.randint(4, 6))) for _ in range(20000)]
    for a in common.pmap(exh_ops_shard, [(seed, combos[i::16]) for i in range(16)]):
        total.merge(a)
    cps = [c for c in range(0x10000) if not 0xD800 <= c < 0xE000]
    rng = random.Random(seed + 1)
    cps += [rng.randrange(0x10000, 0x110000) for _ in range(2000)] + [0x10000, 0x10FFFF, 0x1F600]
    if quick:
        cps = cps[:0x3000] + rng.sample(cps[0x3000:], 6000) + [0xFFFE, 0xFFFF, 0xE000, 0xD7FF, 0x10FFFF]
    for a in common.pmap(exh_chars_shard, [(seed, cps[i::32]) for i in range(32)]):
        total.merge(a)
    inv = invalid_prefixes()
    for a in common.pmap(exh_invalid_shard, [(seed, inv[i::16]) for i in range(16)]):
        total.merge(a)
    rule = ("byte inputs (random, token soup, mutated ui-tests corpus) and grammar-generated token sequences with every "
            "literal form (quoted strings with every escape form and surrogate pairs, verbatim strings, ||| and |||- "
            "text blocks with blank lines and odd terminators, numbers with underscores/fractions/exponents, keywords, "
            "identifiers, all simple and some other operators) separated by whitespace/comments (some with invalid "
            "UTF-8), optionally after dummy contexts up to 2^38 bytes; monitors: spans tile [0,len] ending in an EOF "
            "token, filtered list == full minus whitespace/comments, one located error; oracle: an independent "
            "reference lexer written from the lexical grammar (token kind, extent, decoded payload), lossy UTF-8 via "
            "Python's decoder; exhaustive: all pairs and triples of the 15 operator characters in 5 contexts, every "
            "BMP scalar value (thorough; 18k in quick) + 2000 astral in 8 string/comment forms, every class of "
            "invalid 1-3 byte UTF-8 prefix in 7 forms; giant tokens (one whitespace run / comment of 3 kinds / quoted, UTF-8 and verbatim "
            "string / identifier / text block whose span length is 2^25-1, 2^25, 2^25+1, 2^26-1, 2^26, 2^26+1 or 3*2^24+5 bytes, sent "
            "run-length encoded) with extents and payload checksums known by construction; thorough tier: a coverage-guided libFuzzer campaign with the tiling / "
            "filter / located-error monitors in process, its kept corpus then compared with the reference lexer. distinct_nontrivial = distinct inputs on which the full token "
            "list was compared with the reference (or both rejected).")
    return common.finish(PROP, tier, seed, total, rule, t0,
                         assumptions=["reference lexer = my reading of the lexical grammar; text blocks with a stray CR right after the opening ||| are "
                                      "only checked for tiling (not modelled)"])

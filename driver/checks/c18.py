"""C18 - strings are sequences of Unicode code points in every string function."""
import random
import time

import common
from common import Agg, Ev, jstr, jnum
from tablecheck import Err, Any, run_cases

PROP = "C18"

ALPHA = ["a", "b", "aa", "ab", "aba", "\u20ac", "\u20ac\u20ac", "\u00e9", "\U0001f600", " ", "\t", "\n", "x", "-", ",",
         "", "A", "z", "\u0301", "1", "0", "\u00df", "\U00010000", "\ud7ff", "\ue000", "e\u0301", ",,", "\u00a0", "Z"]
SEPS = ["a", "aa", "aba", "ab", "\u20ac", "\u20ac\u20ac", ",", ",,", "\U0001f600", " ", "-", "\u0301", "x", "\n"]
TRIM_WS = " \t\n\f\r\u0085\u00a0"


def lookalikes(c):
    """Code points that share the low byte / low 16 bits with the ASCII character c, and neighbours that share UTF-8 lead bytes."""
    o = ord(c)
    return [chr(o + 0x100), chr(o + 0x2000), chr(o + 0x4E00), chr(o + 0x10000), chr(o + 0x80), chr(o + 0xFF00)]


_LOOK = None          # set per case family by with_lookalikes()


def with_lookalikes(rng):
    """Every 6th case draws its strings from {c, look-alikes of c, one multi-byte neighbour pair}: a function that compares
    code points through a truncated or byte-wise representation confuses them."""
    global _LOOK
    if rng.random() < 0.17:
        c = rng.choice(["a", "b", "x", " ", "\n", "\t", "-", ",", "A", "z", "0", "1"])
        _LOOK = [c, c] + lookalikes(c) + rng.choice([["\u00e9", "\u00e8"], ["\u20ac", "\u20ad"], ["\U0001f600", "\U0001f601"], []])
    else:
        _LOOK = None


def rs(rng, maxn=8):
    if _LOOK is not None:
        return "".join(rng.choice(_LOOK) for _ in range(rng.randint(0, maxn)))
    return "".join(rng.choice(ALPHA) for _ in range(rng.randint(0, maxn)))


def up(s):
    return "".join(chr(ord(c) - 32) if "a" <= c <= "z" else c for c in s)


def low(s):
    return "".join(chr(ord(c) + 32) if "A" <= c <= "Z" else c for c in s)


def find_all(pat, s):
    if not pat or not s or len(pat) > len(s):
        return []
    return [p for p in range(len(s) - len(pat) + 1) if s.startswith(pat, p)]


def jsonnet_slice(s, a, b, st):
    """Jsonnet std.slice: negative indexes count from the end, step >= 1, Python-like clamping."""
    return s[slice(a, b, st)]


def gen_cases(rng, n):
    J = jstr
    for _ in range(n):
        with_lookalikes(rng)
        s = rs(rng, rng.choice([0, 1, 3, 6, 10, 14]))
        c = rng.choice(SEPS) if _LOOK is None else rng.choice(_LOOK[:3] + [_LOOK[0] * 2])
        t = rs(rng, 3)
        if rng.random() < 0.12:
            # periodic strings: the separator / pattern is a unit repeated with a proper border (u u prefix(u)), the subject a
            # longer run of the unit with noise - occurrences overlap at every shift of the period
            unit = rng.choice(["ab", "abc", "a\u20ac", "\u00e9\U0001f60e", "aab", "xyx", "\U0001f600a\u0301"])
            c = unit * rng.randint(1, 2) + unit[:rng.randint(1, len(unit))]
            s = rng.choice(["", "x", unit[-1:], "\u20ac"]) + unit * rng.randint(2, 6) + rng.choice(["", unit[:1], "z", unit])
            t = rng.choice([unit, c, unit[:1]])
        L = len(s)
        i = rng.randint(-3, L + 3)
        k = rng.randint(0, L + 3)
        fam = rng.randrange(30)
        if fam == 0:
            yield ("length", "std.length(%s)" % J(s), L)
        elif fam == 1:
            if 0 <= i < L:
                yield ("index", "%s[%d]" % (J(s), i), s[i])
            else:
                yield ("index_out_of_range", "%s[%d]" % (J(s), i), Err())
        elif fam == 2:
            a = rng.choice([None] + list(range(-L - 3, L + 4)))
            b = rng.choice([None] + list(range(-L - 3, L + 4)))
            st = rng.choice([None, 1, 2, 3, 7])

            def cl(x):
                return "" if x is None else str(x)
            form = rng.randrange(3)
            if form == 0:
                yield ("slice", "%s[%s:%s:%s]" % (J(s), cl(a), cl(b), cl(st)), jsonnet_slice(s, a, b, st))
            elif form == 1 and st is None:
                yield ("slice", "%s[%s:%s]" % (J(s), cl(a), cl(b)), jsonnet_slice(s, a, b, None))
            else:
                def jn(x):
                    return "null" if x is None else str(x)
                yield ("std.slice", "std.slice(%s, %s, %s, %s)" % (J(s), jn(a), jn(b), jn(st)), jsonnet_slice(s, a, b, st))
        elif fam == 3:
            if i >= 0:
                yield ("substr", "std.substr(%s, %d, %d)" % (J(s), i, k), s[i:i + k])
            else:
                yield ("substr_negative", "std.substr(%s, %d, %d)" % (J(s), i, k), Err())
        elif fam == 4:
            yield ("findSubstr", "std.findSubstr(%s, %s)" % (J(c), J(s)), find_all(c, s))
            sub = s[rng.randint(0, L):][:rng.randint(0, 3)] if L else ""
            yield ("findSubstr", "std.findSubstr(%s, %s)" % (J(sub), J(s)), find_all(sub, s))
        elif fam == 5:
            yield ("stringChars", "std.stringChars(%s)" % J(s), list(s))
        elif fam == 6:
            yield ("split", "std.split(%s, %s)" % (J(s), J(c)), s.split(c))
            yield ("join_split", "std.join(%s, std.split(%s, %s))" % (J(c), J(s), J(c)), s)
        elif fam == 7:
            m = rng.randint(0, 4)
            yield ("splitLimit", "std.splitLimit(%s, %s, %d)" % (J(s), J(c), m), s.split(c, m))
            yield ("splitLimitR", "std.splitLimitR(%s, %s, %d)" % (J(s), J(c), m), s.rsplit(c, m))
            yield ("splitLimit_all", "std.splitLimit(%s, %s, -1)" % (J(s), J(c)), s.split(c))
            yield ("splitLimitR_all", "std.splitLimitR(%s, %s, -1)" % (J(s), J(c)), s.split(c))
            yield ("join_splitLimit", "std.join(%s, std.splitLimit(%s, %s, %d))" % (J(c), J(s), J(c), m), s)
            yield ("join_splitLimitR", "std.join(%s, std.splitLimitR(%s, %s, %d))" % (J(c), J(s), J(c), m), s)
        elif fam == 8:
            yield ("strReplace", "std.strReplace(%s, %s, %s)" % (J(s), J(c), J(t)), s.replace(c, t))
        elif fam == 9:
            yield ("stripChars", "std.stripChars(%s, %s)" % (J(s), J(t)), s.strip(t) if t else s)
            yield ("lstripChars", "std.lstripChars(%s, %s)" % (J(s), J(t)), s.lstrip(t) if t else s)
            yield ("rstripChars", "std.rstripChars(%s, %s)" % (J(s), J(t)), s.rstrip(t) if t else s)
        elif fam == 10:
            # other Unicode white space is NOT in std.trim's list and must stay
            other_ws = "\u000b\u001c\u1680\u2000\u2003\u200a\u2028\u2029\u202f\u205f\u3000\ufeff\u200b"
            w = "".join(rng.choice(TRIM_WS + "ab" + other_ws) for _ in range(rng.randint(0, 4)))
            w2 = "".join(rng.choice(TRIM_WS + "ab" + other_ws) for _ in range(rng.randint(0, 4)))
            yield ("trim", "std.trim(%s)" % J(w + s + w2), (w + s + w2).strip(TRIM_WS))
            yield ("trim_eq_stripChars", "local t = %s; std.trim(t) == std.stripChars(t, %s)" % (J(w + s + w2), J(TRIM_WS)), True)
        elif fam == 11:
            yield ("asciiUpper", "std.asciiUpper(%s)" % J(s), up(s))
            yield ("asciiLower", "std.asciiLower(%s)" % J(s), low(s))
        elif fam == 12:
            yield ("startsWith", "std.startsWith(%s, %s)" % (J(s), J(t)), s.startswith(t))
            yield ("endsWith", "std.endsWith(%s, %s)" % (J(s), J(t)), s.endswith(t))
            p = s[:rng.randint(0, L)]
            q = s[rng.randint(0, L):]
            yield ("startsWith", "std.startsWith(%s, %s)" % (J(s), J(p)), True)
            yield ("endsWith", "std.endsWith(%s, %s)" % (J(s), J(q)), True)
        elif fam == 13:
            yield ("reverse", "std.join(\"\", std.reverse(std.stringChars(%s)))" % J(s), s[::-1])
            yield ("reverse_str", "std.reverse(%s)" % J(s), lambda r, s=s: None if r.cls == "error" or
                   r.value in (list(s[::-1]), s[::-1]) else "std.reverse of a string is neither its reversed chars nor an error")
        elif fam == 14:
            yield ("map_str", "std.map(function(ch) ch + \"|\", %s)" % J(s), [ch + "|" for ch in s])
            yield ("flatMap_str", "std.flatMap(function(ch) ch + ch, %s)" % J(s), "".join(ch + ch for ch in s))
            yield ("mapWithIndex_str", "std.mapWithIndex(function(i, ch) [i, ch], %s)" % J(s),
                   lambda r, s=s: None if r.cls == "error" or r.value == [[float(i), ch] for i, ch in enumerate(s)]
                   else "mapWithIndex over a string does not enumerate code points")
            yield ("filter_str", "std.filter(function(ch) ch != \"a\", std.stringChars(%s))" % J(s), [ch for ch in s if ch != "a"])
            yield ("foldl_str", "std.foldl(function(acc, ch) acc + 1, %s, 0)" % J(s),
                   lambda r, s=s: None if r.cls == "error" or r.value == float(len(s)) else "foldl over a string does not visit code points")
            yield ("comprehension_str", "[ch for ch in std.stringChars(%s)]" % J(s), list(s))
        elif fam == 15:
            ch = rng.choice(["a", "\u20ac", "\U0001f600", "\u00e9", "\x00", "\U0010ffff", "\ud7ff", "\ue000", "\uffff", " "])
            yield ("codepoint", "std.codepoint(%s)" % J(ch), ord(ch))
            cp = rng.choice([0, 65, 0x7f, 0x80, 0x7ff, 0x800, 0x20ac, 0xffff, 0x10000, 0x1f600, 0x10ffff, 0xd7ff, 0xe000])
            yield ("char", "std.char(%d)" % cp, chr(cp))
            yield ("char_codepoint", "std.codepoint(std.char(%d))" % cp, cp)
            yield ("char_length", "std.length(std.char(%d))" % cp, 1)
            bad = rng.choice([0x110000, -1, 0xd800, 0xdfff, 1e300, 2 ** 32, 0.5])
            yield ("char_invalid", "std.char(%s)" % jnum(bad), Err() if bad not in (0.5,) else Any())
            if len(s) != 1:
                yield ("codepoint_not_single", "std.codepoint(%s)" % J(s), Err())
        elif fam == 16:
            yield ("member", "std.member(%s, %s)" % (J(s), J(c)), c in s)
        elif fam == 17:
            a2 = rs(rng, 4)
            b2 = rng.choice([a2, up(a2), low(a2), rs(rng, 4)])
            yield ("equalsIgnoreCase", "std.equalsIgnoreCase(%s, %s)" % (J(a2), J(b2)), low(a2) == low(b2))
        elif fam == 18:
            # huge / fractional / negative numeric arguments: an error, never a wrong answer or a crash
            x = rng.choice([2 ** 53, 1e300, -1e300, 2 ** 31, 2 ** 32, 1.5, -0.5, 2 ** 63, 2 ** 64])
            tmpl = rng.choice(["%s[%s]", "std.substr(%s, %s, 1)", "std.substr(%s, 0, %s)", "%s[%s:]", "%s[:%s]",
                               "%s[::%s]", "std.splitLimit(%s, \"a\", %s)", "std.splitLimitR(%s, \"a\", %s)",
                               "std.repeat(%s, %s)" if abs(x) > 2 ** 40 or x != int(x) or x < 0 else "std.length(%s) + %s"])
            src = tmpl % (J(s), jnum(x))
            if tmpl in ("%s[%s]",):
                yield ("index_huge", src, Err())
            elif tmpl == "std.substr(%s, 0, %s)" and x == int(x) and x > 0:
                yield ("substr_huge_len", src, s)
            elif tmpl == "%s[:%s]" and x == int(x) and x > 0:
                yield ("slice_huge_end", src, s)
            elif tmpl == "%s[%s:]" and x == int(x) and x > 0:
                yield ("slice_huge_start", src, "")
            else:
                yield ("huge_arg", src, Any())
        elif fam == 19:
            yield ("concat_length", "std.length(%s + %s)" % (J(s), J(t)), len(s) + len(t))
            yield ("compare_codepoint_order", "%s < %s" % (J(s), J(t)), [ord(x) for x in s] < [ord(x) for x in t])
        elif fam == 20:
            w = rng.randint(0, 12)
            src = "std.length(std.format(\"%%%ds\", [%s]))" % (w, J(s))
            yield ("format_width", src, max(w, len(s)))
            src = "std.format(\"%%-%ds|\", [%s])" % (w, J(s))
            yield ("format_width_left", src, s + " " * max(0, w - len(s)) + "|")
        elif fam == 21:
            yield ("isEmpty", "std.isEmpty(%s)" % J(s), s == "")
            yield ("count_chars", "std.count(std.stringChars(%s), %s)" % (J(s), J(c[:1] or "a")), list(s).count(c[:1] or "a"))
        elif fam == 22:
            yield ("escapeStringJson_len", "std.length(std.parseJson(std.escapeStringJson(%s)))" % J(s), L)
            yield ("toString_string", "std.toString(%s)" % J(s), s)
        elif fam == 23:
            yield ("repeat", "std.repeat(%s, %d)" % (J(s), k), s * k)
            yield ("repeat_length", "std.length(std.repeat(%s, %d))" % (J(s), k), L * k)
        elif fam == 24:
            arr = [rs(rng, 3) for _ in range(rng.randint(0, 5))]
            yield ("join", "std.join(%s, %s)" % (J(c), "[" + ", ".join(J(x) for x in arr) + "]"), c.join(arr))
            yield ("lines", "std.lines(%s)" % ("[" + ", ".join(J(x) for x in arr) + "]"), "".join(x + "\n" for x in arr))
        elif fam == 25:
            yield ("encode_decode", "std.decodeUTF8(std.encodeUTF8(%s))" % J(s), s)
            yield ("encodeUTF8_len", "std.length(std.encodeUTF8(%s))" % J(s), len(s.encode("utf-8")))
        elif fam == 26:
            yield ("in_string_index_type", "%s[\"0\"]" % J(s), Err())
            yield ("string_times", "std.length(%s) * 2" % J(s), 2 * L)
        elif fam == 27:
            yield ("objectFields_key", "std.objectFields({[%s]: 1})[0]" % J(s), s)
            yield ("field_key_length", "std.length(std.objectFields({[%s]: 1})[0])" % J(s), L)
        elif fam == 28:
            yield ("parseJson_string", "std.length(std.parseJson(%s))" % J(jstr(s)), L)
            yield ("strReplace_identity", "std.strReplace(%s, %s, %s)" % (J(s), J(c), J(c)), s)
        else:
            yield ("stripChars_maximal", "local r = std.stripChars(%s, %s); [std.length(r), r]" % (J(s), J(t)),
                   [len(s.strip(t) if t else s), s.strip(t) if t else s])


def shard(args):
    seed, n = args
    rng = random.Random(seed)
    agg = Agg()
    ev = Ev(agg)
    try:
        run_cases(agg, ev, gen_cases(rng, n))
    finally:
        ev.close()
    return agg


def named_args_shard(args):
    """Every argument bound by name (reversed order, and positional-then-named) must give what the positional call gives:
    documented parameter names, driver/stdparams.py."""
    import stdparams
    from tablecheck import run_cases as _run_cases
    agg = Agg()
    ev = Ev(agg)
    try:
        _run_cases(agg, ev, stdparams.named_cases(['substr', 'findSubstr', 'startsWith', 'endsWith', 'split', 'splitLimit', 'splitLimitR', 'strReplace', 'stripChars', 'lstripChars', 'rstripChars', 'join', 'repeat', 'slice', 'member', 'count', 'map', 'flatMap', 'format']))
    finally:
        ev.close()
    return agg


def run(tier, seed):
    t0 = time.time()
    quick = tier != "thorough"
    total = Agg()
    for a in common.pmap(named_args_shard, [(seed,)]):
        total.merge(a)
    n = 40_000 if quick else 3_000_000
    for a in common.pmap(shard, [(seed * 211 + i, n // 64) for i in range(64)]):
        total.merge(a)
    rule = ("strings over a mixed alphabet (ASCII, 2-/3-/4-byte characters, combining marks, every 6th case over an ASCII character and "
            "the code points sharing its low byte / low 16 bits plus neighbours sharing UTF-8 lead bytes, periodic subjects and patterns (a unit repeated with a proper border, so that occurrences overlap), separators that are "
            "substrings/overlaps of each other, empty) x index/len/limit arguments incl. negative, fractional, 2^53, "
            "1e300; oracle = Python str operations (code-point based) for ~60 function families and identities "
            "(join(split) == s, findSubstr = all overlapping positions, maximal strip, first/last n separators). "
            "documented parameter names: every argument bound by name (reversed order, and positional-then-named) gives what the positional call gives (driver/stdparams.py). distinct_nontrivial = distinct (family, source) pairs whose result was compared.")
    return common.finish(PROP, tier, seed, total, rule, t0,
                         assumptions=["Python str is a code point sequence; std.trim strips ' \\t\\n\\f\\r\\u0085\\u00a0' (upstream definition)"])

"""C12 - the command-line tool's exit status, streams and output modes form one contract."""
import json
import os
import random
import re
import shutil
import subprocess
import tempfile
import time

import common
import oracles
from common import Agg, jstr, jval, rand_value, rand_string

PROP = "C12"
import resource
resource.setrlimit(resource.RLIMIT_CORE, (0, 0))
SAFE_NAMES = ["a", "b.json", "c_d", "e-f", "g h", "x.txt", "Z9", "\u00e9"]


def cli(argv, stdin=None, env=None, cwd=None, stdout=None, uid=None, close_stdout=False, timeout=60):
    e = dict(os.environ, NO_COLOR="1")
    e.pop("RUST_BACKTRACE", None)
    if env:
        e.update(env)

    def pre():
        if close_stdout:
            os.close(1)
        if uid is not None:
            os.setgid(uid)
            os.setuid(uid)
    need_pre = close_stdout or uid is not None
    out_target = subprocess.PIPE if stdout is None else stdout
    try:
        p = subprocess.run([common.CLI] + argv, input=stdin, stdout=out_target, stderr=subprocess.PIPE, env=e, cwd=cwd,
                           preexec_fn=pre if need_pre else None, timeout=timeout)
    except subprocess.TimeoutExpired:
        return None, b"", b""
    except PermissionError:
        # the unprivileged child cannot reach the binary/scratch directory from here (e.g. a checkout under /root)
        return "noperm", b"", b""
    return p.returncode, (p.stdout if stdout is None else b""), p.stderr


def gen_value(rng, kind):
    def strings(r):
        return rand_string(r, 6)
    if kind == "string":
        base = rand_string(rng, 12).replace("\x00", "")
        if rng.random() < 0.4:
            # texts that begin / end the way the output framing does
            edge = ["\n", "\n\n", "\n\n\n", "\r\n", " ", "\t", "...", "...\n", "---", "\n---\n", "---\n", "\n...\n"]
            k = rng.randrange(4)
            if k == 0:
                base = base + rng.choice(edge)
            elif k == 1:
                base = rng.choice(edge) + base
            elif k == 2:
                base = rng.choice(edge) + base + rng.choice(edge)
            else:
                base = rng.choice(edge) * rng.randint(1, 3)
        return base
    if kind == "array":
        return [rand_value(rng, 1, 3, strings) for _ in range(rng.randint(0, 4))]
    if kind == "object":
        return {n: rand_value(rng, 1, 3, strings) for n in rng.sample(SAFE_NAMES, rng.randint(0, 4))}
    if kind == "number":
        return common.rand_double(rng)
    return rand_value(rng, 0, 3, strings)


def clean(v):
    """NUL cannot travel through argv; drop it from generated strings."""
    if isinstance(v, str):
        return v.replace("\x00", "")
    if isinstance(v, list):
        return [clean(x) for x in v]
    if isinstance(v, dict):
        return {clean(k): clean(x) for k, x in v.items()}
    return v


def plain_manifest(src, tmp):
    """The default-mode output for a source (the reference all other modes are compared with)."""
    rc, out, err = cli(["-"], stdin=src.encode("utf-8"))
    return rc, out, err


def violation(agg, kind, detail, argv, stdin=None, **sig):
    agg.violation(dict({"kind": kind}, **sig), dict(detail, argv=argv), {"argv": argv, "stdin": stdin})


def element_text(ev, x):
    r = ev.run(jval(x) if not isinstance(x, float) else common.jnum(x), walk=0, multiline=1)
    return r.out + "\n"


def modes_shard(args):
    seed, n = args
    rng = random.Random(seed)
    agg = Agg()
    ev = common.Ev(Agg())
    os.makedirs(common.SCRATCH, exist_ok=True)
    for i in range(n):
        kind = rng.choice(["string", "array", "object", "number", "any", "string", "array", "object", "object_of_strings",
                           "object_of_arrays", "history_object"])
        hist_src = None
        if kind == "history_object":
            # an object that is the result of a construction history (inheritance, hidden / forced-visible overrides, +:,
            # std.objectRemoveKey): -m must write exactly the fields the layer-deletion model calls visible
            import genrmkey
            h = genrmkey.gen(rng)
            head, root = genrmkey.render(h)
            v = genrmkey.model(h)[0]
            hist_src = "(" + head + root + ")"
        elif kind == "object_of_strings":
            v = {n_: clean(gen_value(rng, "string")) for n_ in rng.sample(SAFE_NAMES, rng.randint(1, 4))}
        elif kind == "object_of_arrays":
            v = {n_: clean(gen_value(rng, "array")) for n_ in rng.sample(SAFE_NAMES, rng.randint(1, 3))}
        else:
            v = clean(gen_value(rng, kind))
        src = jval(v) if not isinstance(v, float) else common.jnum(v)
        if hist_src is not None:
            src = hist_src
        elif rng.random() < 0.4 and not isinstance(v, float):
            # the same value written with hidden / forced-visible / inherited / computed / removed fields, comprehensions
            from checks.c05 import fancy
            src = fancy(v, rng)
        preexisting = rng.random() < 0.5    # output targets that already exist (longer / shorter / equal junk)
        tmp = tempfile.mkdtemp(dir=common.SCRATCH)
        try:
            rc0, out0, err0 = plain_manifest(src, tmp)
            agg.evaluations += 1
            if rc0 != 0:
                violation(agg, "plain_run_failed", {"src": src[:400], "stderr": err0[-300:]}, ["-"], src)
                continue
            try:
                dec = oracles.strict_json(out0.decode("utf-8"))
            except (oracles.Invalid, UnicodeDecodeError) as e:
                violation(agg, "plain_output_invalid", {"src": src[:400], "why": str(e)}, ["-"], src)
                continue
            if not out0.endswith(b"\n") or out0.endswith(b"\n\n"):
                violation(agg, "plain_output_newline", {"src": src[:400]}, ["-"], src)
                continue
            # input channel: -e / stdin / file must agree
            how = rng.choice(["exec", "stdin", "file"])
            flags = []
            mode = rng.choice(["plain", "S", "y", "m", "S", "y", "m", "Sy"])
            sub = None          # per-file mode under -m
            if kind == "history_object":
                mode = rng.choice(["m", "m", "plain"])
            elif kind == "object_of_strings":
                mode, sub = "m", rng.choice(["S", "S", None])
            elif kind == "object_of_arrays":
                mode, sub = "m", rng.choice(["y", "y", None])
            ntn = rng.random() < 0.4
            use_o = rng.random() < 0.4
            if rng.random() < 0.3:
                flags += ["-s", str(rng.choice([50, 500, 100000]))]
            if rng.random() < 0.3:
                flags += ["-t", str(rng.choice([0, 1, 5]))]
            if mode == "S":
                flags += [rng.choice(["-S", "--string"])]
            elif mode == "y":
                flags += [rng.choice(["-y", "--yaml-stream"])]
            elif mode == "Sy":
                flags += ["-S", "-y"]
            mdir = None
            if mode == "m" and isinstance(v, dict) and not all(k in SAFE_NAMES for k in v):
                mode = "plain"      # arbitrary keys are not file names
            if mode == "m":
                mdir = os.path.join(tmp, "multi")
                os.mkdir(mdir)
                flags += [rng.choice(["-m", "--multi"]), mdir]
                if preexisting and isinstance(v, dict):
                    for k_ in list(v.keys())[: rng.randint(0, len(v))]:
                        with open(os.path.join(mdir, k_), "wb") as f:
                            f.write(b"OLD-CONTENT " * rng.choice([0, 1, 50, 5000]))
                    with open(os.path.join(mdir, "zz_stranger.keep"), "wb") as f:
                        f.write(b"not ours")
                if sub == "S":
                    flags += ["-S"]
                elif sub == "y":
                    flags += ["-y"]
            if ntn:
                flags += ["--no-trailing-newline"]
            ofile = None
            if use_o:
                ofile = os.path.join(tmp, "out.txt")
                flags += [rng.choice(["-o", "--output-file"]), ofile]
                if preexisting:
                    old_content = b"OLD-CONTENT " * rng.choice([0, 1, 50, 5000])
                    with open(ofile, "wb") as f:
                        f.write(old_content)
            # the value can also reach the output modes as the result of a top-level function (called with the TLAs)
            root = rng.choice(["value", "value", "fn_default", "fn_tla_code", "fn_noargs", "fn_tla_str"])
            src_plain = src
            if root == "fn_default":
                src = "function(p=null, q=1) " + src_plain
            elif root == "fn_noargs":
                src = "function() " + src_plain
            elif root == "fn_tla_code":
                flags += ["--tla-code", "v=" + src_plain]
                src = "function(v, unused=error 'unused default') v"
            elif root == "fn_tla_str" and isinstance(v, str) and "\x00" not in v:
                flags += ["--tla-str", "v=" + v]
                src = "function(v) v"
            else:
                root = "value"
            stdin = None
            if how == "exec" and not src.startswith("-"):
                argv = flags + ["-e", src]
            elif how == "file":
                path = os.path.join(tmp, "in put.jsonnet")
                with open(path, "w", encoding="utf-8") as f:
                    f.write(src)
                argv = flags + [path]
            else:
                argv = flags + ["-"]
                stdin = src.encode("utf-8")
            rc, out, err = cli(argv, stdin=stdin)
            agg.evaluations += 1
            detail = {"src": src[:500], "mode": mode, "stdout": out[:300].decode("utf-8", "replace"),
                      "stderr": err[-300:].decode("utf-8", "replace"), "exit": rc}
            if rc is None:
                agg.inconc("timeout")
                continue
            if rc not in (0, 1, 2):
                violation(agg, "exit_status_outside_contract", detail, argv, src, exit=rc)
                continue
            # expected outcome by the model of the modes
            nl = "" if ntn else "\n"
            expect_rc = 0
            expected_out = None
            files = {}
            if mode == "Sy":
                expect_rc = 2
            elif mode == "plain":
                expected_out = out0.decode("utf-8")[:-1] + nl
            elif mode == "S":
                if isinstance(v, str):
                    expected_out = v + nl
                else:
                    expect_rc = 1
            elif mode == "y":
                if isinstance(v, list):
                    if v:
                        parts = []
                        for x in v:
                            parts.append("---\n" + element_text(ev, x))
                        expected_out = "".join(parts) + "..." + nl
                    else:
                        expected_out = None     # the property fixes no framing for the empty stream
                else:
                    expect_rc = 1
            elif mode == "m":
                if isinstance(v, dict):
                    listing = []
                    for k in sorted(v.keys()):
                        x = v[k]
                        if sub == "S":
                            files[k] = x + nl
                        elif sub == "y":
                            files[k] = ("".join("---\n" + element_text(ev, y) for y in x) + "..." + nl) if x else None
                        else:
                            files[k] = element_text(ev, x)[:-1] + nl
                        listing.append(os.path.join(mdir, k) + "\n")
                    expected_out = "".join(listing)
                else:
                    expect_rc = 1
            if rc != expect_rc:
                violation(agg, "wrong_exit_status", dict(detail, expected=expect_rc), argv, src, mode=mode, exit=rc, expected=expect_rc)
                continue
            errs = err.decode("utf-8", "replace")
            if rc == 0:
                if re.search(r"(^|\n)error", errs):
                    violation(agg, "success_with_error_on_stderr", detail, argv, src, mode=mode)
                    continue
                got = out.decode("utf-8", "replace")
                if use_o:
                    if got != "":
                        violation(agg, "stdout_not_empty_with_output_file", detail, argv, src, mode=mode)
                        continue
                    try:
                        with open(ofile, "rb") as f:
                            got = f.read().decode("utf-8", "replace")
                    except OSError:
                        violation(agg, "output_file_missing", detail, argv, src, mode=mode)
                        continue
                if expected_out is not None and got != expected_out:
                    violation(agg, "mode_output_differs_from_model", dict(detail, expected=expected_out[:400], got=got[:400]),
                              argv, src, mode=mode, ntn=ntn)
                    continue
                if expected_out is None and mode == "y" and got.strip() != "":
                    violation(agg, "empty_stream_prints_something", dict(detail, got=got[:100]), argv, src)
                    continue
                if mode == "m":
                    bad = None
                    for k, text in files.items():
                        try:
                            with open(os.path.join(mdir, k), "rb") as f:
                                data = f.read().decode("utf-8", "replace")
                                if (text is None and data.strip() != "") or (text is not None and data != text):
                                    bad = k
                        except OSError:
                            bad = k
                    present = sorted(x for x in os.listdir(mdir) if x != "zz_stranger.keep")
                    if "zz_stranger.keep" in os.listdir(mdir):
                        with open(os.path.join(mdir, "zz_stranger.keep"), "rb") as f:
                            if f.read() != b"not ours":
                                bad = "zz_stranger.keep"
                    if bad is not None or present != sorted(files.keys()):
                        violation(agg, "multi_files_differ", dict(detail, bad=bad, listed=sorted(os.listdir(mdir))), argv, src)
                        continue
            else:
                if out != b"":
                    violation(agg, "failure_writes_stdout", detail, argv, src, mode=mode)
                    continue
                if not errs.strip():
                    violation(agg, "failure_without_message", detail, argv, src, mode=mode)
                    continue
                if use_o and os.path.exists(ofile) and not preexisting:
                    violation(agg, "failure_creates_output_file", detail, argv, src, mode=mode)
                    continue
                if use_o and preexisting:
                    with open(ofile, "rb") as f:
                        data = f.read()
                    if data != old_content:
                        violation(agg, "failure_modifies_output_file", detail, argv, src, mode=mode)
                        continue
            agg.count("mode:%s%s:%s:rc%d" % (mode, "+" + sub if sub else "", how, rc))
            agg.add("root_forms", (root, mode))
            if preexisting and (use_o or mode == "m") and rc == 0:
                agg.count("overwrote_existing_target")
            if isinstance(v, str) and mode == "S" and rc == 0:
                agg.add("string_mode_endings", (repr(v[-2:]), ntn))
            agg.nontrivial.add(common.h64(src, " ".join(argv)))
            if i < 2:
                agg.sample({"argv": argv, "exit": rc, "stdout": out[:120].decode("utf-8", "replace")})
        finally:
            shutil.rmtree(tmp, ignore_errors=True)
    ev.close()
    return agg


EXT_VALUES = ["", "plain", "a=b", "=", "x=y=z", '"quoted"', "it's", "line1\nline2", "tab\there", "\u20ac\U0001f600", "  spaced  ",
              "null", "1e308", "{a: 1}", "%d", "\\n", "-flag", "--", "\x01", "a\\b", "'", "\"", "$HOME", "`x`", "\r\n"]


def ext_shard(args):
    seed, n = args
    rng = random.Random(seed)
    agg = Agg()
    os.makedirs(common.SCRATCH, exist_ok=True)
    for i in range(n):
        tmp = tempfile.mkdtemp(dir=common.SCRATCH)
        try:
            case = rng.randrange(10)
            argv = []
            env = {}
            expect = None       # ("value", python) | ("fail", exit)
            name = rng.choice(["v", "var_1", "X", "\u00e9", "a.b", "with space"])
            val = rng.choice(EXT_VALUES)
            if case == 0:
                flag = rng.choice(["--ext-str", "-V"])
                argv = [flag, "%s=%s" % (name, val), "-e", "std.extVar(%s)" % jstr(name)]
                expect = ("value", val)
            elif case == 1:
                env = {"EXTENV": val}
                argv = [rng.choice(["--ext-str", "-V"]), "EXTENV", "-e", "std.extVar('EXTENV')"]
                expect = ("value", val)
            elif case == 2:
                p = os.path.join(tmp, "val=ue.txt") if rng.random() < 0.3 else os.path.join(tmp, "value.txt")
                with open(p, "w", encoding="utf-8", newline="") as f:
                    f.write(val)
                argv = ["--ext-str-file", "%s=%s" % (name, p), "-e", "std.extVar(%s)" % jstr(name)]
                expect = ("value", val)
            elif case == 3:
                v = clean(rand_value(rng, 1, 3, lambda r: rand_string(r, 5)))
                code = jval(v) if not isinstance(v, float) else common.jnum(v)
                if rng.random() < 0.5:
                    argv = ["--ext-code", "%s=%s" % (name, code), "-e", "std.extVar(%s)" % jstr(name)]
                else:
                    p = os.path.join(tmp, "code.jsonnet")
                    with open(p, "w", encoding="utf-8") as f:
                        f.write(code)
                    argv = ["--ext-code-file", "%s=%s" % (name, p), "-e", "std.extVar(%s)" % jstr(name)]
                expect = ("value", v)
            elif case == 4:
                # code is evaluated lazily: an unused failing / ill-typed ext-code does not fail the run
                code = rng.choice(["error 'ext-fail'", "1 + {}", "std.extVar('nope')", "local f(x) = f(x); f(1)"])
                argv = ["--ext-code", "bad=%s" % code, "--ext-str", "ok=fine", "-e", "std.extVar('ok')"]
                expect = ("value", "fine")
            elif case == 5:
                # ... but it fails when used, and ill-formed code fails the run
                code = rng.choice(["error 'ext-fail'", "1 +", "undefined_var"])
                argv = ["--ext-code", "bad=%s" % code, "-e", "std.extVar('bad')"]
                expect = ("fail", 1)
            elif case == 6:
                kinds = rng.sample(["--ext-str", "--ext-code", "-V"], 2)
                argv = [kinds[0], "dup=1", kinds[1], "dup=2", "-e", "1"]
                expect = ("fail", 1)
            elif case == 7:
                # TLAs bind by name, defaults apply
                a, b = rng.randint(0, 9), rng.choice(EXT_VALUES[:12])
                argv = ["--tla-code", "a=%d" % a, rng.choice(["--tla-str", "-A"]), "b=%s" % b, "-e",
                        "function(b, a, c='dflt') [a, b, c]"]
                expect = ("value", [float(a), b, "dflt"])
            elif case == 8:
                which = rng.randrange(4)
                if which == 0:
                    argv = ["--tla-str", "zz=1", "-e", "function(a=1) a"]           # unknown parameter
                elif which == 1:
                    argv = ["-e", "function(a) a"]                                  # missing argument
                elif which == 2:
                    argv = ["--tla-str", "a=1", "-e", "{a: 1}"]                      # TLA for a non-function
                else:
                    argv = ["--tla-code", "a=error 'tla-fail'", "-e", "function(a) a"]
                expect = ("fail", 1)
            else:
                p = os.path.join(tmp, "tla.jsonnet")
                with open(p, "w", encoding="utf-8") as f:
                    f.write("{k: 'from file'}")
                argv = ["--tla-code-file", "o=%s" % p, "--tla-code", "unused=error 'lazy tla'", "-e",
                        "function(o, unused=1) o.k"]
                expect = ("value", "from file")
            if any("\x00" in a for a in argv) or "\x00" in "".join(env.values()):
                continue
            rc, out, err = cli(argv, env=env)
            agg.evaluations += 1
            if rc is None:
                agg.inconc("timeout")
                continue
            detail = {"argv": argv, "env": env, "exit": rc, "stdout": out[:300].decode("utf-8", "replace"),
                      "stderr": err[-300:].decode("utf-8", "replace")}
            if expect[0] == "value":
                ok = False
                if rc == 0:
                    try:
                        ok = common.same_value(oracles.strict_json(out.decode("utf-8")), expect[1], strict_zero=False)
                    except Exception:
                        ok = False
                if not ok:
                    violation(agg, "ext_or_tla_value_wrong", dict(detail, expected=repr(expect[1])[:200]), argv, case=case)
                    continue
            else:
                if rc != expect[1] or out != b"" or not err.strip():
                    violation(agg, "ext_or_tla_failure_contract", dict(detail, expected_exit=expect[1]), argv, case=case)
                    continue
            agg.count("ext_case:%d" % case)
            agg.nontrivial.add(common.h64(repr(argv), repr(env)))
        finally:
            shutil.rmtree(tmp, ignore_errors=True)
    return agg


def faults_shard(args):
    seed, n = args
    rng = random.Random(seed)
    agg = Agg()
    os.makedirs(common.SCRATCH, exist_ok=True)
    os.chmod(common.SCRATCH, 0o755)
    faults = ["missing_input", "dir_input", "unreadable_input", "o_missing_dir", "o_is_dir", "o_dev_full", "m_missing_dir",
              "m_is_file", "stdout_dev_full", "stdout_dev_full_ntn", "stdout_closed", "ext_file_missing", "tla_file_missing",
              "o_unwritable", "stdout_dev_full_big", "m_unwritable_dir", "m_kth_is_dir", "m_kth_missing_subdir", "m_kth_readonly",
              "m_kth_is_dir", "m_kth_missing_subdir", "y_kth_element_fails", "m_kth_field_fails", "m_kth_wrong_type"]
    for i in range(n):
        fault = faults[i % len(faults)]
        tmp = tempfile.mkdtemp(dir=common.SCRATCH)
        os.chmod(tmp, 0o755)
        try:
            src = rng.choice(["1", '"abc"', "{a: 1, b: 2}", "[1, 2]", "std.repeat('x', 100000)"])
            argv = ["-e", src]
            kw = {}
            out_handle = None
            if fault == "missing_input":
                argv = [os.path.join(tmp, "nope.jsonnet")]
            elif fault == "dir_input":
                argv = [tmp]
            elif fault == "unreadable_input":
                p = os.path.join(tmp, "secret.jsonnet")
                with open(p, "w") as f:
                    f.write("1")
                os.chmod(p, 0)
                argv = [p]
                kw["uid"] = 65534
            elif fault == "o_missing_dir":
                argv += ["-o", os.path.join(tmp, "no", "such", "out.json")]
            elif fault == "o_is_dir":
                argv += ["-o", tmp]
            elif fault == "o_dev_full":
                argv += ["-o", "/dev/full"]
            elif fault == "o_unwritable":
                p = os.path.join(tmp, "ro.json")
                with open(p, "w") as f:
                    f.write("old")
                os.chmod(p, 0o444)
                argv += ["-o", p]
                kw["uid"] = 65534
            elif fault == "m_missing_dir":
                argv = ["-m", os.path.join(tmp, "nodir"), "-e", "{a: 1}"]
            elif fault == "m_is_file":
                p = os.path.join(tmp, "file")
                with open(p, "w") as f:
                    f.write("x")
                argv = ["-m", p, "-e", "{a: 1}"]
            elif fault == "m_unwritable_dir":
                d = os.path.join(tmp, "rodir")
                os.mkdir(d)
                os.chmod(d, 0o555)
                argv = ["-m", d, "-e", "{a: 1}"]
                kw["uid"] = 65534
            elif fault.startswith("m_kth_"):
                # a multi-file run in which exactly the k-th file (in name order) cannot be produced
                nf = rng.randint(2, 5)
                names = sorted(rng.sample(["a", "b", "c", "d", "e", "f", "g"], nf))
                k = rng.randrange(nf)
                d = os.path.join(tmp, "multi")
                os.mkdir(d)
                os.chmod(d, 0o777)
                vals = {nm: '"v-%s"' % nm for nm in names}
                flags = ["-S"] if rng.random() < 0.5 else []
                if fault == "m_kth_is_dir":
                    os.mkdir(os.path.join(d, names[k]))
                elif fault == "m_kth_missing_subdir":
                    vals = {(nm if j != k else nm + "/x"): v_ for j, (nm, v_) in enumerate(sorted(vals.items()))}
                elif fault == "m_kth_readonly":
                    pth = os.path.join(d, names[k])
                    with open(pth, "w") as f:
                        f.write("old")
                    os.chmod(pth, 0o444)
                    kw["uid"] = 65534
                elif fault == "m_kth_field_fails":
                    vals[names[k]] = "error 'field-fails'"
                elif fault == "m_kth_wrong_type":
                    vals[names[k]] = "function(x) x" if not flags else "1"
                src = "{" + ", ".join("%s: %s" % (jstr(nm), v_) for nm, v_ in vals.items()) + "}"
                argv = flags + ["-m", d, "-e", src]
                fault = fault + ":%d/%d" % (k, nf)
            elif fault == "y_kth_element_fails":
                nf = rng.randint(2, 5)
                k = rng.randrange(nf)
                src = "[" + ", ".join("error 'elem-fails'" if j == k else str(j) for j in range(nf)) + "]"
                argv = ["-y", "-e", src]
                fault = fault + ":%d/%d" % (k, nf)
            elif fault in ("stdout_dev_full", "stdout_dev_full_ntn", "stdout_dev_full_big"):
                out_handle = open("/dev/full", "wb")
                kw["stdout"] = out_handle
                if fault == "stdout_dev_full_ntn":
                    argv = ["-S", "--no-trailing-newline", "-e", '"abc"']
                if fault == "stdout_dev_full_big":
                    argv = ["-e", "std.repeat('x', 100000)"]
            elif fault == "stdout_closed":
                kw["close_stdout"] = True
            elif fault == "ext_file_missing":
                argv = ["--ext-str-file", "v=" + os.path.join(tmp, "nope.txt"), "-e", "1"]
            elif fault == "tla_file_missing":
                argv = ["--tla-code-file", "v=" + os.path.join(tmp, "nope.jsonnet"), "-e", "function(v) v"]
            try:
                rc, out, err = cli(argv, **kw)
            finally:
                if out_handle:
                    out_handle.close()
            agg.evaluations += 1
            if rc == "noperm":
                agg.inconc("setuid_child_cannot_run_here")
                continue
            if rc is None:
                agg.inconc("timeout")
                continue
            detail = {"fault": fault, "argv": argv, "exit": rc, "stderr": err[-300:].decode("utf-8", "replace"),
                      "stdout": out[:100].decode("utf-8", "replace")}
            if rc != 1 or not err.strip():
                agg.violation({"kind": "cli_fault", "fault": fault.split(":")[0], "exit": rc}, detail, {"argv": argv, "fault": fault})
                continue
            if fault.startswith(("m_kth", "y_kth")) and out.strip():
                agg.violation({"kind": "cli_fault_writes_stdout", "fault": fault.split(":")[0]}, detail, {"argv": argv, "fault": fault})
                continue
            if fault.startswith(("m_kth", "y_kth")):
                agg.add("kth_fault_positions", fault)
            if b"panicked" in err:
                agg.violation({"kind": "cli_fault_panic", "fault": fault}, detail, {"argv": argv, "fault": fault})
                continue
            if fault == "o_unwritable":
                with open(os.path.join(tmp, "ro.json")) as f:
                    if f.read() != "old":
                        agg.violation({"kind": "output_file_modified_on_failure", "fault": fault}, detail, None)
            agg.count("fault:" + fault)
            agg.nontrivial.add(common.h64(fault, src))
        finally:
            for root, dirs, files in os.walk(tmp):
                for d in dirs:
                    try:
                        os.chmod(os.path.join(root, d), 0o755)
                    except OSError:
                        pass
            shutil.rmtree(tmp, ignore_errors=True)
    return agg


def failing_programs_shard(args):
    """exit != 0 => nothing on stdout, nothing in -o; for lexical, syntactic, static, run-time and manifest failures."""
    seed, n = args
    rng = random.Random(seed)
    agg = Agg()
    os.makedirs(common.SCRATCH, exist_ok=True)
    progs = ["1 +", "'unterminated", "x", "error 'boom'", "{a: error 'manifest-time'}", "[1, function(x) x]", "1 / 0",
             "local f(n) = f(n + 1); f(0)", "{a: 1, b: {c: error 'deep'}}", "std.trace('t', error 'after trace')",
             "[std.trace('side', 1), error 'second']", "assert false : 'a'; 1", "{assert false}", "import 'nope.libsonnet'",
             "std.extVar('undefined')", "\xff", "function(x) x", "{a: 1} + {b: error 'late', a: 2}"]
    for i in range(n):
        src = rng.choice(progs)
        tmp = tempfile.mkdtemp(dir=common.SCRATCH)
        try:
            flags = rng.choice([[], ["-S"], ["-y"], ["--no-trailing-newline"], ["-t", "1"], ["-s", "5"]])
            ofile = os.path.join(tmp, "o.json")
            use_o = rng.random() < 0.5
            if use_o:
                flags = flags + ["-o", ofile]
            pre_existing = use_o and rng.random() < 0.5
            if pre_existing:
                with open(ofile, "w") as f:
                    f.write("previous content")
            argv = flags + ["-"]
            rc, out, err = cli(argv, stdin=src.encode("latin-1"))
            agg.evaluations += 1
            if rc is None:
                agg.inconc("timeout")
                continue
            detail = {"src": src, "argv": argv, "exit": rc, "stdout": out[:200].decode("utf-8", "replace"),
                      "stderr": err[-300:].decode("utf-8", "replace")}
            if rc not in (1,):
                agg.violation({"kind": "failing_program_exit", "exit": rc}, detail, {"argv": argv, "stdin": src})
                continue
            if out != b"":
                agg.violation({"kind": "failure_writes_stdout"}, detail, {"argv": argv, "stdin": src})
                continue
            if "error" not in err.decode("utf-8", "replace"):
                agg.violation({"kind": "failure_without_message"}, detail, {"argv": argv, "stdin": src})
                continue
            if use_o:
                if pre_existing:
                    with open(ofile) as f:
                        if f.read() != "previous content":
                            agg.violation({"kind": "output_file_modified_on_failure"}, detail, {"argv": argv, "stdin": src})
                            continue
                elif os.path.exists(ofile):
                    agg.violation({"kind": "failure_creates_output_file"}, detail, {"argv": argv, "stdin": src})
                    continue
            agg.count("failing_program_contract_ok")
            agg.nontrivial.add(common.h64(src, " ".join(argv)))
        finally:
            shutil.rmtree(tmp, ignore_errors=True)
    return agg


def run(tier, seed):
    t0 = time.time()
    quick = tier != "thorough"
    total = Agg()
    n = 1600 if quick else 60000
    for a in common.pmap(modes_shard, [(seed * 1301 + i, n // 16) for i in range(16)]):
        total.merge(a)
    n2 = 1200 if quick else 40000
    for a in common.pmap(ext_shard, [(seed * 1303 + i, n2 // 16) for i in range(16)]):
        total.merge(a)
    for a in common.pmap(faults_shard, [(seed * 1307 + i, 72 if quick else 720) for i in range(8)]):
        total.merge(a)
    n3 = 640 if quick else 20000
    for a in common.pmap(failing_programs_shard, [(seed * 1319 + i, n3 // 16) for i in range(16)]):
        total.merge(a)
    rule = ("real release binary, one child per case: (1) generated values of matching and mismatching type x input "
            "channel (-e, stdin, file) x mode (plain, -S, -y, -m, -m -S, -m -y, -S -y; strings that begin/end the way the framing does: newlines, ..., ---; values also written with hidden / forced-visible / inherited / computed fields; output targets that already exist with longer, shorter or empty content; objects built by a construction history (genrmkey) under -m; the value as the result of a top-level function with defaults / no parameters / bound by --tla-code / --tla-str) x -o x --no-trailing-newline x -s x -t: exit "
            "status and every output channel against a model of the modes derived from the plain run (string itself, "
            "--- item ... framing, one file per visible field + path list, only the last newline dropped); (2) "
            "ext vars / TLAs in all eight forms with values containing '=', quotes, newlines, non-ASCII, from the "
            "environment and from files; lazy ext code, duplicates, missing/unknown/non-function TLAs; (3) 16 injected "
            "faults (missing/directory/unreadable input via a setuid child, -o/-m targets missing/directory/read-only/"
            "/dev/full, stdout /dev/full or closed, missing ext/TLA files) and faults at the k-th step of a multi-step output (-m where exactly the k-th file in name order "
            "is a directory / in a missing sub-directory / read-only / fails to evaluate / has the wrong type; -y where the k-th "
            "element fails): exit 1 with a message and nothing on stdout; (4) failing "
            "programs of every error family: stdout empty, -o file neither created nor modified. "
            "distinct_nontrivial = distinct (source/value, argv) cases decided.")
    return common.finish(PROP, tier, seed, total, rule, t0, level="fault_enumeration",
                         assumptions=["the plain run's output is the reference for the other modes (its validity is C05's)"])

"""C20 - parsing, encoding and hashing builtins compute the standard functions."""
import ast
import base64
import binascii
import hashlib
import json
import math
import random
import re
import shlex
import time

import common
import oracles
from common import Agg, Ev, jstr, jnum, rand_value, rand_string
from tablecheck import Err, Any, run_cases

PROP = "C20"

NONDIGITS = ["x", " ", "-", "+", "_", ".", "e", "g", "G", "/", ":", "@", "`", "\u20ac", "\u00e9", "\U0001f600", "\u0663", "\uff11",
             "\n", "\x00", "Z", "\u07ff"]


def ulp_close(got, exact_int):
    """got is a float; exact_int a Python int: within 1 ulp (upstream accumulates in doubles)."""
    if not isinstance(got, float):
        return False
    exp = float(exact_int) if abs(exact_int) < 10 ** 308 else math.inf
    if math.isinf(exp):
        return False
    if got == exp:
        return True
    return abs(got - exp) <= abs(exp) * 2.3e-16


def num_pred(exact_int, digits, exact_upto=15):
    def pred(r):
        if r.cls != "value":
            return "expected a number, got %s %s" % (r.cls, r.kind)
        if digits <= exact_upto:
            if r.value != float(exact_int):
                return "inexact result for a <= 15 digit input: %r" % (r.value,)
        elif not ulp_close(r.value, exact_int):
            return "result %r more than 1 ulp from %d" % (r.value, exact_int)
        return None
    return pred


def gen_num_cases(rng, n):
    J = jstr
    for _ in range(n):
        fam = rng.randrange(6)
        nd = rng.choice([1, 2, 5, 10, 15, 16, 17, 20, 25, 32, 33, 42, 43, 60, 100, 300, 400])
        nd = rng.randint(1, nd)
        if fam == 0:
            d = "".join(rng.choice("0123456789") for _ in range(nd))
            neg = rng.random() < 0.3
            s = ("-" if neg else "") + d
            v = int(s)
            if abs(v) >= 10 ** 308:
                yield ("parseInt_huge", "std.parseInt(%s)" % J(s), Any())
            else:
                yield ("parseInt", "std.parseInt(%s)" % J(s), num_pred(v, nd))
        elif fam == 1:
            d = "".join(rng.choice("01234567") for _ in range(nd))
            v = int(d, 8)
            if v >= 10 ** 308:
                yield ("parseOctal_huge", "std.parseOctal(%s)" % J(d), Any())
            else:
                # up to 42 octal / 32 hex significant digits fit the 128-bit accumulator: correctly rounded
                sig = len(d.lstrip("0"))
                yield ("parseOctal", "std.parseOctal(%s)" % J(d), num_pred(v, sig, exact_upto=42))
        elif fam == 2:
            d = "".join(rng.choice("0123456789abcdefABCDEF") for _ in range(min(nd, 250)))
            v = int(d, 16)
            if v >= 10 ** 308:
                yield ("parseHex_huge", "std.parseHex(%s)" % J(d), Any())
            else:
                sig = len(d.lstrip("0"))
                yield ("parseHex", "std.parseHex(%s)" % J(d), num_pred(v, sig, exact_upto=32))
        elif fam == 3:
            # a non-digit at a random position (every position over the run) of a digit string
            f, alphabet = rng.choice([("parseInt", "0123456789"), ("parseOctal", "01234567"),
                                      ("parseHex", "0123456789abcdef")])
            d = [rng.choice(alphabet) for _ in range(nd)]
            pos = rng.randrange(nd + 1)
            bad = rng.choice(NONDIGITS + (["8", "9"] if f == "parseOctal" else []))
            if f == "parseInt" and bad == "-" and pos == 0:
                continue
            if f == "parseHex" and bad in "eE":
                continue
            if rng.random() < 0.5:
                d.insert(pos, bad)
            elif pos < nd:
                d[pos] = bad
            else:
                d.append(bad)
            s = "".join(d)
            yield (f + "_nondigit", "std.%s(%s)" % (f, J(s)), Err())
            agg_pos = pos  # noqa: F841
        elif fam == 4:
            # rounding ties in the leading digits with a later non-zero digit (must round up)
            e = rng.randint(0, 10)
            hx_ = "8" + "0" * rng.randint(12, 14) + "4" + "0" * rng.randint(0, 6) + rng.choice("123f") + "0" * e
            if len(hx_) <= 32:
                yield ("parseHex_tie", "std.parseHex(%s)" % J(hx_), num_pred(int(hx_, 16), len(hx_), exact_upto=32))
            oc_ = "1" + "0" * rng.randint(16, 19) + "2" + "0" * rng.randint(0, 6) + rng.choice("1234567") + "0" * e
            if len(oc_) <= 42:
                yield ("parseOctal_tie", "std.parseOctal(%s)" % J(oc_), num_pred(int(oc_, 8), len(oc_), exact_upto=42))
            for f in ("parseInt", "parseOctal", "parseHex"):
                yield (f + "_empty", "std.%s(\"\")" % f, Err())
            yield ("parseInt_minus_only", "std.parseInt(\"-\")", Err())
            yield ("parseInt_zero", "std.parseInt(\"-0\")", lambda r: None if r.cls == "value" and r.value == 0 else "parseInt('-0') is not zero")
            yield ("parseInt_leading_zeros", "std.parseInt(\"000123\")", 123)
            yield ("parseHex_case", "std.parseHex(\"fF\")", 255)
            yield ("parseOctal_leading", "std.parseOctal(\"0017\")", 15)
        else:
            # type errors
            arg = rng.choice(["1", "null", "[]", "{}", "true", "[\"1\"]"])
            f = rng.choice(["parseInt", "parseOctal", "parseHex", "parseJson", "parseYaml", "base64Decode", "md5",
                            "sha256", "decodeUTF8", "encodeUTF8", "escapeStringJson"])
            yield (f + "_type", "std.%s(%s)" % (f, arg), Any() if f.startswith("escape") or (f == "decodeUTF8" and arg == "[]") else Err())


def json_variants(rng, v):
    k = rng.randrange(5)
    if k == 0:
        return json.dumps(v)
    if k == 1:
        return json.dumps(v, indent=rng.choice([1, 2, 4]), ensure_ascii=False)
    if k == 2:
        return json.dumps(v, separators=(",", ":"), ensure_ascii=rng.random() < 0.5)
    if k == 3:
        return json.dumps(v, indent=1, separators=(" ,\n", " :  "), ensure_ascii=False)
    return " \n\r" + json.dumps(v, ensure_ascii=False) + "  \n"


def json_safe_value(rng):
    def strings(r):
        return rand_string(r, 6)
    v = rand_value(rng, 0, 4, strings)
    return v


JSON_SNIPPETS = ["", " ", ",", ":", "[", "]", "{", "}", '"', "\\", "\\u", "\\u12", "\\x", "\\'", "'", "0", "1", "-", "+",
                 ".", "e", "E", "01", "1.", ".5", "1e", "1e+", "-0", "1E5", "1e400", "-1e400", "1e-400", "true", "True",
                 "false", "null", "nul", "NaN", "Infinity", "-Infinity", "//c", "/*c*/", "#c", "\t", "\n", "\x00", "\x1f",
                 "\x7f", "\u00a0", "\ufeff", " ", "\\ud83d\\ude00", "\\ud83d", "\\ude00", "\\u0000", "\\/", "\\b", "[]", "{}",
                 '"a":1', '"a":1,"a":2', "[1,]", "{,}", '{"a"}', '{"a":}', "[,1]", "1 2", "1,2", '"\\z"', "0x10", "1_0",
                 "+1", "--1", "2.", "-", "-.5", "1e5e5", "\x0c", "\x0b"]


def mutate_text(rng, text):
    t = list(text)
    for _ in range(rng.choice([1, 1, 1, 2, 3])):
        k = rng.randrange(5)
        if k == 0 and t:
            del t[rng.randrange(len(t))]
        elif k == 1:
            t.insert(rng.randint(0, len(t)), rng.choice(JSON_SNIPPETS))
        elif k == 2 and t:
            t[rng.randrange(len(t))] = rng.choice(JSON_SNIPPETS)
        elif k == 3 and t:
            i = rng.randrange(len(t))
            j = min(len(t), i + rng.randint(1, 6))
            t[i:i] = t[i:j]
        elif t:
            t = t[:rng.randint(0, len(t))]
    return "".join(t)


LONE_SURR = re.compile(r"\\u[dD][89a-fA-F][0-9a-fA-F]{2}")


def parsejson_pred(doc):
    try:
        exp = oracles.strict_json(doc)
        ok = True
    except oracles.Invalid as e:
        ok = False
        why = str(e)

    def pred(r):
        if ok:
            if r.cls != "value":
                return "valid RFC 8259 document rejected (%s: %s)" % (r.kind, (r.msg or "")[:80])
            if not common.same_value(r.value, exp, strict_zero=False):
                return "decoded value differs from the reference decoder: %r" % (r.value,)
            return None
        if r.cls == "value":
            return "invalid document accepted (reference: %s)" % why
        return None
    return pred


def gen_json_cases(rng, n):
    J = jstr
    for i in range(n):
        v = json_safe_value(rng)
        doc = json_variants(rng, v)
        if rng.random() < 0.6:
            doc = mutate_text(rng, doc)
        if "\ufeff" in doc[:1] or LONE_SURR.search(doc):
            continue
        if len(doc) > 3000:
            continue
        yield ("parseJson", "std.parseJson(%s)" % J(doc), parsejson_pred(doc))
        if rng.random() < 0.3:
            yield ("parseJson_manifest_inverse", "local v = %s; std.parseJson(std.manifestJsonEx(v, \" \")) == v" % common.jval(v), True)
        # YAML agreement on JSON documents without tabs and surrogate-pair escapes
        if "\t" not in doc and "\\u" not in doc and "\\t" not in doc:
            try:
                oracles.strict_json(doc)
            except oracles.Invalid:
                yield ("parseYaml_total", "std.parseYaml(%s)" % J(doc), Any())
                continue
            if json_depth(doc) < 90 and not has_long_key(v) and yaml_comparable(doc):
                yield ("parseYaml_equals_parseJson",
                       "local d = %s; std.parseYaml(d) == std.parseJson(d)" % J(doc), True)


def json_depth(doc):
    d = m = 0
    for c in doc:
        if c in "[{":
            d += 1
            m = max(m, d)
        elif c in "]}":
            d -= 1
    return m


def has_long_key(v):
    if isinstance(v, dict):
        return any(len(k) > 1000 or has_long_key(x) for k, x in v.items())
    if isinstance(v, list):
        return any(has_long_key(x) for x in v)
    return False


def yaml_comparable(doc):
    """JSON documents whose YAML reading is well defined and identical: exclude raw characters that YAML treats
    specially inside double-quoted scalars (line breaks U+0085/2028/2029 are folded, BOM), and multi-line quoted
    scalars."""
    if re.search("[\u0085\u2028\u2029\ufeff\x7f-\x9f]", doc):
        return False
    return True


YAML_SEEDS = ["a: 1\nb: [1, 2]\nc: {d: e}\n", "- 1\n- two\n- 3.5\n- null\n- ~\n- true\n", "&x a: 1\nb: *x\n", "a: &anc [1, 2]\nb: *anc\nc: *anc\n",
              "!!str 1\n", "!!int '1'\n", "!custom {a: 1}\n", "---\na: 1\n---\nb: 2\n...\n", "--- |\n  block\n  text\n", "a: >\n  folded\n  text\n",
              "a: |+\n  keep\n\n", "? complex\n: value\n", "{a: [1, {b: 2}], c: d}", "[1, [2, [3, [4]]]]", "a:\n  b:\n    c:\n      d: 1\n",
              "'single ''quoted'''", "\"double \\\"quoted\\\" \\n \\x41 \\u263A \\U0001F600\"", "0x1F\n", "0o17\n", "1_000\n", ".inf\n", "-.inf\n", ".nan\n",
              "1e3\n", "1.5e-3\n", "+1\n", "yes\n", "No\n", "on\n", "~\n", "null\n", "Null\n", "2001-01-01\n", "a: 1\na: 2\n", "<<: {a: 1}\nb: 2\n",
              "a: &a\n  b: *a\n", "- &a [*a]\n", "%YAML 1.2\n---\na: 1\n", "# comment\na: 1 # trailing\n", "a:\t1\n", "\ta: 1\n", "a: [1, 2\n", "a: {b: 1\n",
              "a: 'unterminated\n", "a: \"unterminated\n", "- - - - - - 1\n", "a: b: c\n", "[a, b]: c\n", "{a: 1}: b\n", "*unknown\n", "&a\n", "key: !!binary aGVsbG8=\n",
              "? |\n  block key\n: v\n", "a: !!float 1\n", "a: !!null ''\n", "- !!bool yes\n", "0b101\n", "-0x1f\n", "12:30:45\n", "1.\n", ".5\n", "''\n", "\"\"\n", "\n", "", "---\n", "...\n",
              "--- a\n--- b\n", "a: 1\n...\nb: 2\n", "\ufeffa: 1\n", "a: \"\\ud83d\\ude00\"\n", "a: \"\\ud83d\"\n", "a: \"\\z\"\n", "a: \"\\x4\"\n"]
YAML_STRUCT = list("[]{}:,-?&*!|>'\"%@`#\n\t ") + ["- ", ": ", "? ", "--- ", "...", "&a ", "*a", "!!str ", "!!map ", "<<: ", "\n  ", "\n- "]


def gen_yaml_cases(rng, n):
    J = jstr
    for i in range(n):
        seed = rng.choice(YAML_SEEDS)
        k = rng.random()
        if k < 0.2:
            doc = seed
        elif k < 0.7:
            t = list(seed)
            for _ in range(rng.choice([1, 1, 2, 3])):
                t.insert(rng.randint(0, len(t)), rng.choice(YAML_STRUCT))
            doc = "".join(t)
        elif k < 0.8:
            d = rng.choice([10, 50, 99, 100, 101, 500, 3000])
            kind = rng.randrange(4)
            doc = ["[" * d + "1" + "]" * d, "{a: " * d + "1" + "}" * d, "- " * d + "1", "".join("  " * j + "a:\n" for j in range(d)) + "  " * d + "1"][kind]
        elif k < 0.9:
            # alias bombs stay small: aliases are resolved by reference, size is bounded here
            depth = rng.randint(1, 7)
            lines = ["a0: &a0 [x, x]"]
            for j in range(1, depth):
                lines.append("a%d: &a%d [*a%d, *a%d]" % (j, j, j - 1, j - 1))
            doc = "\n".join(lines) + "\n"
        else:
            doc = mutate_text(rng, seed)
        if "\x00" in doc and rng.random() < 0.5:
            doc = doc.replace("\x00", "")
        yield ("parseYaml_total", "std.parseYaml(%s)" % J(doc), Any())


ESC_ALPHA = common.HOSTILE_CHARS + ["$", "$$", "'", '"', "\\", "<", ">", "&", "`", "!", "\n", "a", "b", " "]


def long_codec_cases(rng):
    """Inputs whose length sits around a power of two (256 .. 65536) with a multi-byte character (or a broken sequence) placed so
    that it straddles every byte offset near that boundary: block-wise implementations must not split it."""
    J = jstr
    base = rng.choice([256, 512, 1024, 2048, 4096, 8192, 16384, 65536])
    k = base + rng.randint(-6, 3)                      # ASCII bytes before the interesting sequence
    ch = rng.choice(["\u00e9", "\u20ac", "\U0001f600", "\u00e9\u20ac", "\U0001f600\U0001f600"])
    tail = rng.choice(["", "t", "tail\u20ac"])
    sj = "(std.repeat('a', %d) + %s + %s)" % (k, J(ch), J(tail))
    spy = "a" * k + ch + tail
    data = spy.encode("utf-8")
    yield ("long_decode_encode", "local s = %s; std.decodeUTF8(std.encodeUTF8(s)) == s" % sj, True)
    yield ("long_encode_length", "std.length(std.encodeUTF8(%s))" % sj, len(data))
    yield ("long_length", "std.length(%s)" % sj, len(spy))
    yield ("long_encode_window", "std.encodeUTF8(%s)[%d:%d]" % (sj, max(0, k - 2), k + 6), list(data[max(0, k - 2):k + 6]))
    f, h = rng.choice([("md5", hashlib.md5), ("sha1", hashlib.sha1), ("sha256", hashlib.sha256), ("sha512", hashlib.sha512), ("sha3", hashlib.sha3_512)])
    yield ("long_" + f, "std.%s(%s)" % (f, sj), h(data).hexdigest())
    yield ("long_base64_str_inverse", "local s = %s; std.base64DecodeBytes(std.base64(std.encodeUTF8(s))) == std.encodeUTF8(s)" % sj, True)
    yield ("long_base64", "std.length(std.base64(std.encodeUTF8(%s)))" % sj, len(base64.b64encode(data)))
    yield ("long_escape_json", "local s = %s; std.parseJson(std.escapeStringJson(s)) == s" % sj, True)
    yield ("long_manifest_parse", "local s = %s; std.parseJson(std.manifestJsonEx([s], '')) == [s]" % sj, True)
    yield ("long_split_join", "local s = %s; std.join('a', std.split(s, 'a')) == s" % sj, True)
    # raw bytes: a valid or truncated / invalid sequence across the boundary, decoded lossily
    seq = rng.choice([b"\xc3\xa9", b"\xe2\x82\xac", b"\xf0\x9f\x98\x80", b"\xe2\x82", b"\xf0\x9f\x98", b"\xc3", b"\xf0\x9f", b"\xed\xa0\x80",
                      b"\xe2\x82\xac\xe2\x82\xac", b"\xf0\x9f\x98\x80\xc3\xa9"])
    after = rng.choice([b"", b"z", b"\xa9", b"\xe2\x82\xac"])
    raw = b"a" * k + seq + after
    bj = "(std.makeArray(%d, function(i) 97) + %s)" % (k, json.dumps(list(seq + after)))
    want = raw.decode("utf-8", "replace")
    yield ("long_decodeUTF8_lossy", "local t = std.decodeUTF8(%s); [std.length(t), std.substr(t, %d, 12)]" % (bj, max(0, k - 2)),
           [float(len(want)), want[max(0, k - 2):max(0, k - 2) + 12]])
    yield ("long_base64DecodeBytes", "local b = %s; std.base64DecodeBytes(std.base64(b)) == b" % bj, True)
    yield ("long_base64Decode", "local b = %s; local t = std.base64Decode(std.base64(b)); [std.length(t), std.map(std.codepoint, std.stringChars(std.substr(t, %d, 8)))]"
           % (bj, max(0, k - 2)), [float(len(raw)), [float(x) for x in raw[max(0, k - 2):max(0, k - 2) + 8]]])


def gen_codec_cases(rng, n):
    J = jstr
    for i in range(n):
        if i % 25 == 0:
            yield from long_codec_cases(rng)
        fam = rng.randrange(12)
        s = "".join(rng.choice(ESC_ALPHA) for _ in range(rng.randint(0, 10)))
        bs = [rng.randrange(256) for _ in range(rng.randint(0, 12))]
        bj = "[" + ", ".join(str(b) for b in bs) + "]"
        raw = bytes(bs)
        if fam == 0:
            yield ("encodeUTF8", "std.encodeUTF8(%s)" % J(s), list(s.encode("utf-8")))
            yield ("decode_encode", "std.decodeUTF8(std.encodeUTF8(%s))" % J(s), s)
        elif fam == 1:
            # invalid UTF-8: lossy decoding with maximal-subpart replacement
            pieces = [rng.choice([b"a", b"\xe2\x82\xac", b"\xf0\x9f\x98\x80", b"\xc3\xa9", b"\x80", b"\xc0\x80", b"\xe2\x82",
                                  b"\xf0\x9f\x98", b"\xed\xa0\x80", b"\xf4\x90\x80\x80", b"\xff", b"\xc2", b"\xe0\x80\x80",
                                  b"\xf8\x88\x80\x80\x80", b"\xef\xbf\xbd", b"\x00", b"\x7f", b"\xf0\x80\x80\x80", b"\xe0\xa0\x80"])
                      for _ in range(rng.randint(0, 6))]
            b2 = b"".join(pieces)
            yield ("decodeUTF8_lossy", "std.decodeUTF8([%s])" % ", ".join(str(x) for x in b2),
                   b2.decode("utf-8", "replace"))
            yield ("decodeUTF8_random", "std.decodeUTF8(%s)" % bj, raw.decode("utf-8", "replace"))
        elif fam == 2:
            yield ("base64_bytes", "std.base64(%s)" % bj, base64.b64encode(raw).decode())
            yield ("base64_inverse", "std.base64DecodeBytes(std.base64(%s))" % bj, bs)
            a = "".join(rng.choice("abcXYZ019 ~!") for _ in range(rng.randint(0, 10)))
            yield ("base64_str", "std.base64(%s)" % J(a), base64.b64encode(a.encode()).decode())
            yield ("base64Decode_inverse", "std.base64Decode(std.base64(%s))" % J(a), a)
            # the decoded string has one code point per decoded byte, whatever the bytes spell (also valid UTF-8 text)
            payload = rng.choice([raw, "".join(rng.choice(["\u00e9", "\u20ac", "\U0001f600", "a", "\u00c3\u00a9", "\u00ff"])
                                               for _ in range(rng.randint(1, 4))).encode("utf-8"), b"\xc3\xa9", b"\xe2\x82\xac"])
            yield ("base64Decode_bytes", "std.map(std.codepoint, std.stringChars(std.base64Decode(%s)))" % J(base64.b64encode(payload).decode()),
                   [float(b) for b in payload])
        elif fam == 3:
            enc = base64.b64encode(raw).decode()
            yield ("base64DecodeBytes", "std.base64DecodeBytes(%s)" % J(enc), bs)
            # corrupted encodings must be rejected (python validate=True as reference)
            t = list(enc)
            if t:
                k = rng.randrange(4)
                if k == 0:
                    t[rng.randrange(len(t))] = rng.choice("!@#$%^&*()-_ \n\u20ac")
                elif k == 1:
                    del t[rng.randrange(len(t))]
                elif k == 2:
                    t.insert(rng.randrange(len(t) + 1), rng.choice("=A!"))
                else:
                    t = t[:-1]
                bad = "".join(t)
                try:
                    ref = list(base64.b64decode(bad, validate=True))
                    if len(bad) % 4 != 0:
                        raise binascii.Error("length")
                    yield ("base64DecodeBytes_mut", "std.base64DecodeBytes(%s)" % J(bad),
                           lambda r, ref=ref: None if r.cls == "error" or r.value == [float(x) for x in ref]
                           else "decoded bytes differ from the reference")
                except (binascii.Error, ValueError):
                    yield ("base64DecodeBytes_invalid", "std.base64DecodeBytes(%s)" % J(bad), Err())
        elif fam == 4:
            bad = rng.choice(["[256]", "[-1]", "[\"a\"]", "[null]", "[1e300]", "[255, 256]"])
            yield ("base64_bad_bytes", "std.base64(%s)" % bad, Err())
            yield ("decodeUTF8_bad_bytes", "std.decodeUTF8(%s)" % bad, Err())
        elif fam == 5:
            data = s.encode("utf-8")
            yield ("md5", "std.md5(%s)" % J(s), hashlib.md5(data).hexdigest())
            yield ("sha1", "std.sha1(%s)" % J(s), hashlib.sha1(data).hexdigest())
            yield ("sha256", "std.sha256(%s)" % J(s), hashlib.sha256(data).hexdigest())
            yield ("sha512", "std.sha512(%s)" % J(s), hashlib.sha512(data).hexdigest())
            yield ("sha3", "std.sha3(%s)" % J(s), hashlib.sha3_512(data).hexdigest())
        elif fam == 6:
            # block-boundary lengths for the hashes
            ln = rng.choice([0, 1, 55, 56, 57, 63, 64, 65, 71, 72, 111, 112, 119, 120, 127, 128, 129, 135, 136, 137, 143, 144,
                             200, 255, 256, 1000])
            ch = rng.choice(["a", "\u20ac", "\x00"])
            t = ch * ln
            data = t.encode("utf-8")
            src = "std.repeat(%s, %d)" % (J(ch), ln)
            f, h = rng.choice([("md5", hashlib.md5), ("sha1", hashlib.sha1), ("sha256", hashlib.sha256),
                               ("sha512", hashlib.sha512), ("sha3", hashlib.sha3_512)])
            yield (f + "_blocklen", "std.%s(%s)" % (f, src), h(data).hexdigest())
        elif fam == 7:
            def p_json(r, s=s):
                if r.cls != "value" or not isinstance(r.value, str):
                    return "not a string"
                try:
                    return None if oracles.strict_json(r.value) == s else "json decoding of the escaped string differs"
                except oracles.Invalid as e:
                    return "escaped string is not a JSON string: %s" % e
            yield ("escapeStringJson", "std.escapeStringJson(%s)" % J(s), p_json)
        elif fam == 8:
            def p_py(r, s=s):
                if r.cls != "value" or not isinstance(r.value, str):
                    return "not a string"
                try:
                    return None if ast.literal_eval(r.value) == s else "python decoding of the escaped string differs"
                except Exception as e:
                    return "escaped string is not a Python literal: %s" % type(e).__name__
            yield ("escapeStringPython", "std.escapeStringPython(%s)" % J(s), p_py)
        elif fam == 9:
            s2 = s.replace("\x00", "")

            def p_sh(r, s2=s2):
                if r.cls != "value" or not isinstance(r.value, str):
                    return "not a string"
                try:
                    return None if shlex.split(r.value) == [s2] else "shell word splitting of the escaped string differs"
                except ValueError as e:
                    return "escaped string is not one shell word: %s" % e
            yield ("escapeStringBash", "std.escapeStringBash(%s)" % J(s2), p_sh)
        elif fam == 10:
            yield ("escapeStringDollars", "std.escapeStringDollars(%s)" % J(s), s.replace("$", "$$"))
            x = s.replace("&", "&amp;").replace("<", "&lt;").replace(">", "&gt;").replace('"', "&quot;").replace("'", "&apos;")
            yield ("escapeStringXML", "std.escapeStringXML(%s)" % J(s), x)
        else:
            a = "".join(rng.choice("abc ~") for _ in range(rng.randint(0, 9)))
            yield ("base64_decode_roundtrip_len", "std.length(std.base64DecodeBytes(std.base64(%s)))" % J(a), len(a))
            yield ("hash_of_bytes_vs_string", "std.md5(%s) == std.md5(std.decodeUTF8(std.encodeUTF8(%s)))" % (J(s), J(s)), True)


# ------------------------------------------------------------------------------------------------
# systematic grids

def sign_grid_cases():
    """Every combination of a prefix (signs, doubled / mixed signs, blanks, radix prefixes, look-alike characters), a digit
    body and a suffix for the three integer parsers.  Accepted syntax (upstream): parseInt -?[0-9]+, parseOctal [0-7]+,
    parseHex [0-9a-fA-F]+; everything else is an error (never a crash), accepted strings have the integer's value."""
    prefixes = ["", "-", "+", "--", "---", "-+", "+-", "++", " ", " -", "- ", "-_", "_", "_-", "\u2212", "-\u2212", "0x", "0X", "-0x", "0o",
                "0b", "\t-", "-\n", "\ufeff", "-\u00a0", "- -", "(-", "-0-", "0-"]
    bodies = ["", "0", "5", "7", "12", "000", "007", "1f", "F", "8", "9", "123456789", "77", "0" * 40 + "1", "9" * 20]
    suffixes = ["", "-", " ", "+", "_", ".", ".0", "e1", "L", "\n"]
    out = []
    for fn, pat in (("parseInt", r"-?[0-9]+"), ("parseOctal", r"[0-7]+"), ("parseHex", r"[0-9a-fA-F]+")):
        base = {"parseInt": 10, "parseOctal": 8, "parseHex": 16}[fn]
        for pre in prefixes:
            for body in bodies:
                for suf in (suffixes if (pre in ("", "-", "--") or body in ("5", "")) else [""]):
                    text = pre + body + suf
                    if re.fullmatch(pat, text):
                        exp = num_pred(int(text, base), len(text), exact_upto=15)
                        out.append((fn + "_grid_valid", "std.%s(%s)" % (fn, jstr(text)), exp))
                    else:
                        out.append((fn + "_grid_invalid", "std.%s(%s)" % (fn, jstr(text)), Err()))
    return out


def number_grammar_cases():
    """The whole RFC 8259 number grammar (sign, integer part, fraction, exponent letter in both cases, exponent sign,
    exponent digits with leading zeros), alone / in an array / as an object value: parseJson gives the correctly rounded
    double, and parseYaml gives what parseJson gives."""
    out = []
    for sign in ("", "-"):
        for ip in ("0", "7", "12", "120", "9007199254740993"):
            for frac in ("", ".0", ".5", ".25", ".125000", ".000001", ".999999999999999999999"):
                for exp in [""] + [e + sg + dg for e in "eE" for sg in ("", "+", "-") for dg in ("0", "1", "03", "10", "22", "300")]:
                    text = sign + ip + frac + exp
                    try:
                        v = float(text)
                    except ValueError:
                        continue
                    if v in (math.inf, -math.inf):
                        out.append(("number_grammar_overflow", "std.parseJson(%s)" % jstr(text), Err()))
                        continue
                    for wrap in ("%s", "[%s]", "{\"a\": %s}", " %s ", "[1, %s, 2]"):
                        doc = wrap % text
                        if wrap == "%s":
                            out.append(("number_grammar_json_value", "std.parseJson(%s)" % jstr(doc),
                                        (lambda v: lambda r: None if r.cls == "value" and isinstance(r.value, float) and common.f2bits(r.value) == common.f2bits(v) or (v == 0 and r.cls == "value" and r.value == 0)
                                         else "parseJson(%s) is not the correctly rounded double" % r.brief())(v)))
                        out.append(("number_grammar_yaml_equals_json", "local d = %s; std.parseYaml(d) == std.parseJson(d)" % jstr(doc), True))
    # texts the JSON grammar does not allow must be rejected by parseJson
    for bad in ("01", "-01", "1.", ".5", "-.5", "1e", "1e+", "+1", "1.e5", "0x10", "1_0", "1E", "--1", "1.5.5", "1e5.5", "Infinity", "NaN", "-", "00",
                "1 2"):
        out.append(("number_grammar_invalid", "std.parseJson(%s)" % jstr(bad), Err()))
        out.append(("number_grammar_invalid", "std.parseJson(%s)" % jstr("[" + bad + "]"), Err()))
    return out


def blanks_and_escapes_cases():
    """(a) std.parseJson: the four JSON white-space characters are accepted at every position between tokens, every other
    blank / format / control character (Unicode white space that is not JSON white space) is rejected there, also after the
    value; (b) surrogate escapes in every pairing: decoded, or an error - never a crash; (c) escapeStringJson / Python write
    exactly the escapes of upstream's definition (short escapes, \\u%04x below U+0020 and for U+007F..U+009F, everything else raw)."""
    out = []
    J = jstr
    json_ws = [" ", "\t", "\n", "\r", " \n\t\r "]
    other = ["\u000b", "\u000c", "\u0085", "\u00a0", "\u1680", "\u2000", "\u2003", "\u200a", "\u2028", "\u2029", "\u202f", "\u205f", "\u3000",
             "\ufeff", "\u200b", "\u0000", "\u001f", "\u007f", "\u001c"]
    docs = [("%s1", 1), ("1%s", 1), ("[%s1, 2]", [1, 2]), ("[1%s, 2]", [1, 2]), ("[1,%s2]", [1, 2]), ("[1, 2%s]", [1, 2]), ("[1, 2]%s", [1, 2]),
            ("{%s\"a\": 1}", {"a": 1}), ("{\"a\"%s: 1}", {"a": 1}), ("{\"a\":%s1}", {"a": 1}), ("{\"a\": 1%s}", {"a": 1}), ("{\"a\": 1}%s", {"a": 1}),
            ("%snull", None), ("true%s", True), ("\"s\"%s", "s"), ("%s\"s\"", "s"), ("[]%s", []), ("{}%s", {})]
    for tmpl, val in docs:
        for w in json_ws:
            out.append(("parseJson_json_whitespace", "std.parseJson(%s)" % J(tmpl % w), val))
        for w in other:
            out.append(("parseJson_other_blank_rejected", "std.parseJson(%s)" % J(tmpl % w), Err()))
    hi, lo, bmp = ["\\ud83d", "\\uD800", "\\udbff"], ["\\ude00", "\\uDC00", "\\udfff"], ["\\u0041", "\\u00e9", "x", ""]
    for a in hi + lo + bmp:
        for b in hi + lo + bmp:
            for c in ("", "\\udc00", "z"):
                doc = '"' + a + b + c + '"'
                out.append(("parseJson_surrogate_pairing", "std.parseJson(%s)" % J(doc), Any()))
                out.append(("parseYaml_surrogate_pairing", "std.parseYaml(%s)" % J(doc), Any()))
    def esc(s_):
        o = ['"']
        short = {'"': '\\"', "\\": "\\\\", "\b": "\\b", "\f": "\\f", "\n": "\\n", "\r": "\\r", "\t": "\\t"}
        for ch in s_:
            cp = ord(ch)
            if ch in short:
                o.append(short[ch])
            elif cp < 0x20 or 0x7f <= cp <= 0x9f:
                o.append("\\u%04x" % cp)
            else:
                o.append(ch)
        return "".join(o) + '"'
    for cp in list(range(0, 0xA2)) + [0xAD, 0x2028, 0x2029, 0xFEFF, 0xFFFD, 0xFFFF, 0x10000, 0x1F600]:
        s_ = "a" + chr(cp) + "b"
        out.append(("escapeStringJson_exact", "std.escapeStringJson(%s)" % J(s_), esc(s_)))
        out.append(("escapeStringPython_exact", "std.escapeStringPython(%s)" % J(s_), esc(s_)))
    return out


def grid_shard(args):
    i, k = args
    cases = (sign_grid_cases() + number_grammar_cases() + blanks_and_escapes_cases())[i::k]
    agg = Agg()
    ev = Ev(agg)
    try:
        run_cases(agg, ev, cases, timeout=60.0)
    finally:
        ev.close()
    return agg


GENS = {"num": gen_num_cases, "json": gen_json_cases, "yaml": gen_yaml_cases, "codec": gen_codec_cases}


def shard(args):
    seed, which, n = args
    rng = random.Random(seed)
    agg = Agg()
    ev = Ev(agg)
    try:
        run_cases(agg, ev, GENS[which](rng, n), timeout=60.0)
    finally:
        ev.close()
    return agg


def named_args_shard(args):
    """Every argument bound by name (reversed order, and positional-then-named) must give what the positional call gives:
    documented parameter names, driver/stdparams.py."""
    import stdparams
    from tablecheck import run_cases as _run_cases
    agg = Agg()
    ev = Ev(agg)
    try:
        _run_cases(agg, ev, stdparams.named_cases(['parseInt', 'base64', 'manifestJsonEx', 'manifestYamlDoc']))
    finally:
        ev.close()
    return agg


def run(tier, seed):
    t0 = time.time()
    quick = tier != "thorough"
    total = Agg()
    for a in common.pmap(named_args_shard, [(seed,)]):
        total.merge(a)
    scale = 1 if quick else 60
    shards = []
    for i in range(16):
        shards.append((seed * 17 + i, "num", 500 * scale))
        shards.append((seed * 19 + i, "json", 500 * scale))
        shards.append((seed * 23 + i, "yaml", 400 * scale))
        shards.append((seed * 29 + i, "codec", 500 * scale))
    for a in common.pmap(shard, shards):
        total.merge(a)
    grid = sign_grid_cases() + number_grammar_cases() + blanks_and_escapes_cases()
    total.count("grid_cases", len(grid))
    for a in common.pmap(grid_shard, [(i, 32) for i in range(32)]):
        total.merge(a)
    rule = ("digit strings of 1..400 digits (exact when <= 15 digits, <= 1 ulp beyond) and the same with a non-digit "
            "(ASCII and 2-/3-/4-byte) at a random position for parseInt/Octal/Hex; generated + mutated JSON documents "
            "vs an own strict RFC 8259 decoder with duplicate-key/overflow rejection (accept/reject and value); "
            "parseYaml totality on a mutated YAML corpus (anchors, aliases, tags, multi-docs, deep nesting) and "
            "agreement with parseJson on JSON documents without tabs/escapes; base64/UTF-8/hash functions vs "
            "Python's base64/codecs/hashlib incl. block-boundary lengths and corrupted encodings; escapeString* "
            "inverted by json/ast/shlex; systematic grids: 29 prefixes (signs doubled/mixed, blanks, radix prefixes, look-alike "
            "characters) x 15 digit bodies x 10 suffixes for parseInt/Octal/Hex against the accepted syntax; the whole RFC 8259 number "
            "grammar (sign x integer part x fraction x e/E x exponent sign x exponent digits) alone, in arrays and objects: parseJson "
            "correctly rounded, parseYaml == parseJson, non-JSON number texts rejected; JSON white space accepted and 19 other blanks / "
            "format characters rejected at every position between tokens and after the value; every pairing of high / low / non-surrogate "
            "escapes (value or error, never a crash); escapeStringJson / escapeStringPython exactly as upstream defines them for every code "
            "point up to U+00A1. documented parameter names: every argument bound by name (reversed order, and positional-then-named) gives what the positional call gives (driver/stdparams.py). distinct_nontrivial = distinct (family, source) pairs compared.")
    return common.finish(PROP, tier, seed, total, rule, t0,
                         assumptions=["Python hashlib/base64/codecs/shlex/ast are correct", "lone surrogate escapes are excluded from parseJson accept/reject comparison"])

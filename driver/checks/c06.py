"""C06 - numbers are always finite doubles, read and printed exactly."""
import itertools
import json
import math
import random
import re
import time

import common
from common import Agg, Ev, BOUNDARY_DOUBLES, jnum, f2bits

PROP = "C06"

GRID = sorted(set(BOUNDARY_DOUBLES + [-x for x in BOUNDARY_DOUBLES if x != 0] + [
    1e154, 1.3407807929942597e154, 1.3407807929942596e154, 2.0 ** 512, 2.0 ** 511, 2.0 ** 1023, 2.0 ** -1074,
    2.0 ** -1022, 709.782712893384, 709.7827128933841, 710.0, -745.2, 1e-320, 0.7, 52.0, 53.0, 63.0, 64.0, 1024.0,
    1023.0, -1074.0, 1e19, 1.8446744073709552e19, 9.223372036854776e18, 0.9, 1.1, 89.99999999999999, 90.0,
    1.5707963267948966, 3.0e-9, 1e-16,
]), key=lambda x: (abs(x), x))


def nonfinite_text(out):
    return re.search(r"(?<![A-Za-z\"])(inf|nan|NaN|Infinity)\b", out or "") is not None


def numbers_in(v):
    if isinstance(v, bool) or v is None:
        return
    if isinstance(v, float):
        yield v
    elif isinstance(v, list):
        for x in v:
            yield from numbers_in(x)
    elif isinstance(v, dict):
        for x in v.values():
            yield from numbers_in(x)


def gate(agg, r, src, leg):
    """The finiteness gate on one evaluation result.  Returns True if the case was decidable."""
    if r.cls == "inconclusive":
        return False
    if r.cls in ("panic", "crash"):
        agg.violation(common.panic_signature(r, {"leg": leg}), {"src": src, "outcome": r.brief()}, {"script": r.lines})
        return True
    if r.cls == "error":
        agg.add("error_kinds", r.kind)
        return True
    bad = [x for x in numbers_in(r.value) if not math.isfinite(x)]
    if bad or r.kind == "nonfinite" or (isinstance(r.value, float) and nonfinite_text(r.out)):
        fn = re.match(r"\s*(std\.[A-Za-z0-9_]+|.)", src)
        agg.violation({"kind": "nonfinite_value", "leg": leg, "via": ",".join(sorted(set(re.findall(r"std\.[A-Za-z0-9_]+|<<|>>|[-+*/%&|^]", re.sub(r"[0-9.]+e[-+][0-9]+|\(-", "", src)))))[:80]},
                      {"src": src, "out": (r.out or "")[:200], "nonfinite": [repr(x) for x in bad[:3]]},
                      {"script": r.lines})
    return True


# ------------------------------------------------------------------------------------------------

def py_binop(op, a, b):
    """Expected result of a numeric binary operator as ('v', x) | ('e',) | None (not modelled)."""
    try:
        if op == "+":
            r = a + b
        elif op == "-":
            r = a - b
        elif op == "*":
            r = a * b
        elif op == "/":
            if b == 0:
                return ("e",)
            r = a / b
        else:
            return None
    except OverflowError:
        return ("e",)
    if not math.isfinite(r):
        return ("e",)
    return ("v", r)


def ops_shard(args):
    seed, pairs = args
    agg = Agg()
    ev = Ev(agg)
    try:
        for (a, b) in pairs:
            for op in ("+", "-", "*", "/", "%", "&", "|", "^", "<<", ">>"):
                src = f"{jnum(a)} {op} {jnum(b)}"
                r = ev.run(src)
                if not gate(agg, r, src, "binop"):
                    continue
                agg.nontrivial.add(common.h64(src))
                agg.count("binop:" + r.cls)
                exp = py_binop(op, a, b)
                if exp is not None and r.cls in ("value", "error"):
                    if exp[0] == "e" and r.cls == "value":
                        agg.violation({"kind": "expected_error_got_value", "op": op},
                                      {"src": src, "out": r.out}, {"script": r.lines})
                    elif exp[0] == "v" and (r.cls != "value" or not isinstance(r.value, float) or r.value != exp[1]):
                        agg.violation({"kind": "arith_mismatch", "op": op},
                                      {"src": src, "expected": repr(exp[1]), "got": r.brief()}, {"script": r.lines})
                if len(agg.samples) < 2 and r.cls == "error":
                    agg.sample({"leg": "binop", "src": src, "outcome": r.brief()})
    finally:
        ev.close()
    return agg


ARRAY_FUNCS = ["std.sum(%s)", "std.avg(%s)", "std.minArray(%s)", "std.maxArray(%s)",
               "std.foldl(function(a, b) a + b, %s, 0)", "std.foldr(function(a, b) a * b, %s, 1)",
               "std.foldl(function(a, b) a - b, %s, 0)", "std.map(function(x) x * 2, %s)",
               "std.sort(%s)", "std.set(%s)", "std.foldl(std.max, %s, 0)", "std.map(function(x) -x, %s)",
               "std.map(std.abs, %s)", "std.foldl(function(a, b) a / b, %s, 1)",
               "std.foldl(function(a, b) std.pow(a, b), %s, 2)", "std.reverse(%s)", "[x + 1e308 for x in %s]",
               "std.sum(%s) - std.sum(%s)", "std.avg(%s) < 1", "std.sum(%s) == std.sum(%s)",
               "local s = std.sum(%s); std.sum([s, -s])", "local s = std.avg(%s); [s, s - s, s * 0]",
               "std.mapWithIndex(function(i, x) i * x, %s)", "std.clamp(%s[0], -1e308, 1e308)"]


NUMERIC2 = {"pow", "atan2", "hypot", "mod", "modulo", "max", "min", "log", "round", "clamp", "__compare", "primitiveEquals", "xor", "xnor"}
SPECIAL2 = [0.0, -0.0, 0.5, -0.5, 1.0, -1.0, 2.0, -2.0, 3.0, 1 / 3, 0.25, 1.5, 10.0, 1e308, -1e308, 5e-324, 1024.0, -1024.0, 2.0 ** 53, 0.1]


def builtins_shard(args):
    seed, funcs, n_tuples = args
    rng = random.Random(seed)
    agg = Agg()
    ev = Ev(agg)
    try:
        for fname, arity in funcs:
            if arity == 0 or arity > 4:
                continue
            if arity == 1:
                tuples = [(x,) for x in GRID]
            elif arity == 2 and fname in NUMERIC2:
                # builtins that take two numbers and return one: the whole grid x a sub-grid of "special" second operands
                # (fast paths live at particular exponents / divisors / bounds), plus random pairs
                tuples = [(a, b) for a in GRID for b in SPECIAL2] + [tuple(rng.choice(GRID) for _ in range(2)) for _ in range(n_tuples)]
            else:
                tuples = [tuple(rng.choice(GRID) for _ in range(arity)) for _ in range(n_tuples)]
            for t in tuples:
                if fname in ("repeat", "range", "makeArray") and any(abs(x) > 1e5 for x in t):
                    continue
                src = "std.%s(%s)" % (fname, ", ".join(jnum(x) for x in t))
                r = ev.run(src)
                if not gate(agg, r, src, "builtin"):
                    continue
                if r.cls == "value" and any(True for _ in numbers_in(r.value)):
                    agg.nontrivial.add(common.h64(src))
                    agg.add("numeric_builtins", fname)
                agg.count("builtin:" + r.cls)
                if len(agg.samples) < 2 and r.cls == "value" and isinstance(r.value, float):
                    agg.sample({"leg": "builtin", "src": src, "outcome": r.brief()})
    finally:
        ev.close()
    return agg


def arrays_shard(args):
    seed, n = args
    rng = random.Random(seed)
    agg = Agg()
    ev = Ev(agg)
    big = [x for x in GRID if abs(x) >= 1e300] + [1e308, -1e308, 1.7976931348623157e308]
    try:
        for i in range(n):
            k = rng.randint(1, 6)
            pool = big if rng.random() < 0.5 else GRID
            arr = [rng.choice(pool) for _ in range(k)]
            a = "[" + ", ".join(jnum(x) for x in arr) + "]"
            tmpl = rng.choice(ARRAY_FUNCS)
            src = tmpl.replace("%s", a)
            r = ev.run(src)
            if not gate(agg, r, src, "array"):
                continue
            agg.nontrivial.add(common.h64(src))
            agg.count("array:" + r.cls)
            if i < 2:
                agg.sample({"leg": "array", "src": src, "outcome": r.brief()})
    finally:
        ev.close()
    return agg


PARSE_TEXTS = ["1e999", "-1e999", "1e309", "1.7976931348623157e308", "1.7976931348623159e308", "1.8e308",
               "9" * 400, "-" + "9" * 400, "0." + "0" * 400 + "1", "1e-999", "1E400", "123e306", "0.1e310",
               ".inf", "-.inf", ".nan", ".NaN", ".Inf", "+.inf", ".INF", "inf", "nan", "Infinity", "NaN", "-Infinity",
               "0x7fffffffffffffffffff", "0o7777777777", "1_000", "0b1", "1e+308", "17976931348623157" + "0" * 292,
               "17976931348623159" + "0" * 292, "2e308", "4.9e-324", "2e-324", "1e1000000000000", "1e-1000000000000",
               "1e18446744073709551616", "1e-18446744073709551616", "1e9223372036854775808", "0e999", "-0e999",
               "1.0e", "1e", "--1", "+1", "01", "1.", ".5", "5.", "1e5.5"]


def parse_shard(args):
    seed, n = args
    rng = random.Random(seed)
    agg = Agg()
    ev = Ev(agg)
    try:
        cases = []
        for t in PARSE_TEXTS:
            for f in ("std.parseJson(%s)", "std.parseYaml(%s)", "std.parseInt(%s)", "std.parseHex(%s)",
                      "std.parseOctal(%s)", "std.parseJson('[' + %s + ']')", "std.parseYaml('a: ' + %s)",
                      "std.parseYaml('- ' + %s)", "std.parseJson('{\"a\":' + %s + '}')"):
                cases.append(f % common.jstr(t))
        for _ in range(n):
            digits = "".join(rng.choice("0123456789") for _ in range(rng.randint(1, 330)))
            f = rng.choice(["std.parseInt(%s)", "std.parseHex(%s)", "std.parseOctal(%s)", "std.parseJson(%s)",
                            "std.parseYaml(%s)"])
            if "Octal" in f:
                digits = re.sub("[89]", "7", digits)
            if "Hex" in f and rng.random() < 0.5:
                digits = "".join(rng.choice("0123456789abcdefABCDEF") for _ in range(rng.randint(1, 300)))
            if "Json" in f or "Yaml" in f:
                digits = digits.lstrip("0") or "0"
                if rng.random() < 0.5:
                    digits += "e" + rng.choice(["", "+", "-"]) + str(rng.randint(0, 400))
            cases.append(f % common.jstr(digits))
        for src in cases:
            r = ev.run(src)
            if not gate(agg, r, src, "parse"):
                continue
            agg.nontrivial.add(common.h64(src))
            agg.count("parse:" + r.cls)
    finally:
        ev.close()
    return agg


# ------------------------------------------------------------------------------------------------
# literals

def rand_literal(rng):
    """(text as written in Jsonnet, text for Python float())"""
    k = rng.random()
    if k < 0.25:
        # around a rounding boundary: (m + 1/2) * 2^e printed exactly, then perturbed in the last place
        m = rng.getrandbits(52) | (1 << 52)
        e = rng.randint(-1074, 960)
        from fractions import Fraction
        v = (Fraction(2 * m + 1, 2)) * (Fraction(2) ** e)
        # exact decimal expansion (finite since denominator is a power of two)
        den = v.denominator
        num = v.numerator
        k2 = den.bit_length() - 1
        digits = str(num * 5 ** k2)
        if k2 > 0:
            digits = digits.rjust(k2 + 1, "0")
            text = digits[:-k2] + "." + digits[-k2:]
        else:
            text = digits
        if len(text) > 420:
            # use exponent form with a long mantissa
            text = text.rstrip("0")
        tweak = rng.randrange(3)
        if tweak == 1:
            text = text + "0000000000000000000001" if "." in text else text + ".0000000000000000000001"
        elif tweak == 2 and "." in text:
            # decrement the last digit => just below the tie
            t = text.rstrip("0")
            if t[-1] not in ".0":
                text = t[:-1] + str(int(t[-1]) - 1) + "9999999999999999999"
        return text, text
    if k < 0.31:
        # very long digit strings whose exponent compensates for their length (the value itself is moderate): n digits,
        # optionally a long fraction, and an exponent near -n / +n
        n = rng.choice([401, 450, 700, 1100, 2000])
        ip = str(rng.randint(1, 9)) + "".join(rng.choice("0123456789") for _ in range(rng.randint(0, 20))) + "0" * rng.choice([0, n])
        fr = ""
        if rng.random() < 0.5:
            fr = "." + "0" * rng.choice([0, n]) + "".join(rng.choice("0123456789") for _ in range(rng.randint(1, 20)))
        shift = (len(ip) - 1) if not fr.startswith(".0" * 1 + "0" * 50) else -(len(fr) - 1)
        e = -shift + rng.randint(-320, 300)
        text = ip + fr + rng.choice("eE") + str(e)
        return text, text
    if k < 0.5:
        nd = rng.randint(1, rng.choice([3, 17, 20, 40, 400]))
        ip = "".join(rng.choice("0123456789") for _ in range(nd)).lstrip("0") or "0"
        text = ip
        if rng.random() < 0.6:
            text += "." + "".join(rng.choice("0123456789") for _ in range(rng.randint(1, rng.choice([2, 17, 60, 400]))))
        if rng.random() < 0.6:
            e = rng.choice([rng.randint(-30, 30), rng.randint(-420, 420), rng.choice([308, 309, 307, -323, -324, -325, -308])])
            text += rng.choice("eE") + rng.choice(["", "+", "-"]) + rng.choice(["", "0", "00"]) + str(abs(e))
        return text, text
    if k < 0.65:
        # underscores between digits
        def grp(n):
            s = "".join(rng.choice("0123456789") for _ in range(n))
            return s
        ip = (str(rng.randint(1, 9)) + grp(rng.randint(0, 5)))
        parts = [ip]
        for _ in range(rng.randint(1, 4)):
            parts.append(grp(rng.randint(1, 4)))
        text = "_".join(parts)
        if rng.random() < 0.5:
            text += "." + "_".join(grp(rng.randint(1, 3)) for _ in range(rng.randint(1, 3)))
        if rng.random() < 0.5:
            text += "e" + rng.choice(["", "+", "-"]) + "_".join(grp(rng.randint(1, 2)) for _ in range(rng.randint(1, 2)))
        return text, text.replace("_", "")
    if k < 0.85:
        x = common.rand_double(rng)
        r = repr(abs(x))
        if rng.random() < 0.5:
            # 17 significant digits instead of the shortest
            r = "%.17g" % abs(x)
        return r, r
    # near overflow / underflow thresholds
    base = rng.choice(["1.7976931348623157", "1.7976931348623158", "1.7976931348623159", "1.797693134862315807",
                       "1.797693134862315808", "4.9406564584124654", "2.4703282292062327", "2.4703282292062328",
                       "2.2250738585072014", "2.2250738585072011", "9.9999999999999999", "1"])
    e = rng.choice(["e308", "e-324", "e-308", "e309", "e-325", "e-323", "e400", "e-400", "e4000", "e-4000"])
    return base + e, base + e


def literals_shard(args):
    seed, n = args
    rng = random.Random(seed)
    agg = Agg()
    ev = Ev(agg)
    try:
        for i in range(n):
            text, pytext = rand_literal(rng)
            try:
                exp = float(pytext)
            except (ValueError, OverflowError):
                continue
            via = rng.choice(["literal", "literal", "parseJson", "parseYaml", "neg", "thunk", "thunk"])
            if via == "thunk":
                # the literal in a delayed position (array element, field, local, argument): same value, same errors
                w = rng.choice(["[%s][0]", "{a: %s}.a", "local x = %s; x", "(function(v) v)(%s)", "std.max(%s, -1e308)",
                                "local x = %s; [x, x][1]", "{a: %s}.a + 0", "[%s, 1][0] * 1", "std.abs(%s)"])
                src = w % text
            elif via == "literal":
                src = text
            elif via == "neg":
                src = "-" + text
                exp = -exp
            elif via == "parseJson":
                if "_" in text or re.match(r"0[0-9]", text):
                    continue
                src = "std.parseJson(%s)" % common.jstr(text)
            else:
                if "_" in text or re.match(r"0[0-9]", text):
                    continue
                src = "std.parseYaml(%s)" % common.jstr(text)
            r = ev.run(src)
            if r.cls == "inconclusive":
                continue
            agg.count(f"literal:{via}:{r.cls}")
            if r.cls in ("panic", "crash"):
                agg.violation(common.panic_signature(r, {"leg": "literal"}), {"src": src}, {"script": r.lines})
                continue
            if len(re.sub(r"[^0-9]", "", text)) > 17:
                agg.nontrivial.add(common.h64(src))
            if math.isinf(exp) and via == "thunk":
                # also without projecting: the structure itself must not contain an infinity
                r2 = ev.run(rng.choice(["[%s]", "{a: %s}", "[[%s]]", "std.toString(%s)", "'' + %s", "-%s", "local x = %s; -x"]) % text)
                if r2.cls == "value":
                    agg.violation({"kind": "overflowing_literal_accepted", "via": "thunk-structure"},
                                  {"src": r2.lines[-3][:200] if r2.lines else "", "out": (r2.out or "")[:100]}, {"script": r2.lines})
                    continue
            if math.isinf(exp):
                if r.cls == "value":
                    agg.violation({"kind": "overflowing_literal_accepted", "via": via},
                                  {"src": src[:300], "out": r.out[:100]}, {"script": r.lines})
                else:
                    agg.count("literal_overflow_rejected")
                continue
            if r.cls != "value" or not isinstance(r.value, float):
                if via == "parseYaml" and r.cls == "value" and isinstance(r.value, str):
                    # YAML resolves some spellings (e.g. '1e5' without a dot in YAML 1.1) as strings; not C06's
                    agg.count("yaml_resolved_as_string")
                    continue
                agg.violation({"kind": "literal_rejected", "via": via},
                              {"src": src[:300], "expected": repr(exp), "got": r.brief()}, {"script": r.lines})
                continue
            if f2bits(r.value) != f2bits(exp) and not (exp == 0 and r.value == 0 and via != "neg"):
                agg.violation({"kind": "literal_not_correctly_rounded", "via": via},
                              {"src": src[:500], "expected": repr(exp), "got": repr(r.value),
                               "expected_bits": "%016x" % f2bits(exp), "got_bits": "%016x" % f2bits(r.value)},
                              {"script": r.lines})
            if i < 2:
                agg.sample({"leg": "literal", "src": src[:100], "expected": repr(exp), "got": repr(r.value)})
    finally:
        ev.close()
    return agg


# ------------------------------------------------------------------------------------------------
# printing

PRINT_PATHS = {
    "manifest": "%s",
    "toString": "std.toString(%s)",
    "concat": '"" + %s',
    "percent_s": '"%%s" %% [%s]',
    "manifestJson": "std.manifestJson(%s)",
    "manifestJsonMinified": "std.manifestJsonMinified([%s])",
    "manifestJsonEx": 'std.manifestJsonEx({a: %s}, " ")',
    "manifestYamlDoc": "std.manifestYamlDoc([%s])",
    "manifestPython": "std.manifestPython(%s)",
    "manifestTomlEx": 'std.manifestTomlEx({a: %s}, " ")',
    "manifestXmlJsonml": None,
}

NUM_RE = re.compile(r"-?[0-9]+(?:\.[0-9]+)?(?:[eE][-+]?[0-9]+)?")


def sig_digits(text):
    t = text.lstrip("-")
    m = re.match(r"([0-9]*)\.?([0-9]*)(?:[eE]([-+]?[0-9]+))?$", t)
    d = (m.group(1) + m.group(2)).lstrip("0").rstrip("0")
    return len(d) or 1


def printing_shard(args):
    seed, n = args
    rng = random.Random(seed)
    agg = Agg()
    ev = Ev(agg)
    try:
        xs = list(GRID) if seed % 16 == 0 else []
        # every power of two and of ten with both neighbours (magnitudes at which integer / fixed / exponent renderings and
        # 32/53/63/64-bit integer fast paths change), spread over the shards
        edge = []
        for k in range(-1074, 1024):
            edge.append(math.ldexp(1.0, k))
        for k in range(-323, 309):
            edge.append(float("1e%d" % k))
        edge = edge[seed % 16::16]
        for v in edge:
            for w in (v, math.nextafter(v, math.inf), math.nextafter(v, 0.0), -v):
                if math.isfinite(w):
                    xs.append(w)
        n = max(n, len(xs) + n // 2)
        while len(xs) < n:
            xs.append(common.rand_double(rng))
        for i, x in enumerate(xs):
            path = rng.choice([p for p, t in PRINT_PATHS.items() if t])
            src = PRINT_PATHS[path] % jnum(x)
            r = ev.run(src, walk=1, multiline=rng.randrange(2))
            if r.cls == "inconclusive":
                continue
            if r.cls != "value":
                agg.violation({"kind": "print_failed", "path": path, "cls": r.cls},
                              {"src": src, "got": r.brief()}, {"script": r.lines})
                continue
            text = r.value if isinstance(r.value, str) else r.out
            if path == "manifest":
                text = r.out
            nums = NUM_RE.findall(text.replace('"a"', "").replace("a =", "").replace("a:", ""))
            if len(nums) != 1:
                if nonfinite_text(text):
                    agg.violation({"kind": "nonfinite_text", "path": path}, {"src": src, "text": text[:200]},
                                  {"script": r.lines})
                else:
                    agg.violation({"kind": "print_unparsable", "path": path}, {"src": src, "text": text[:200]},
                                  {"script": r.lines})
                continue
            t = nums[0]
            back = float(t)
            agg.count("print:" + path)
            agg.nontrivial.add(common.h64(path, repr(x)))
            if f2bits(back) != f2bits(x):
                agg.violation({"kind": "print_not_roundtrip", "path": path},
                              {"src": src, "text": t[:400], "x": repr(x), "back": repr(back)}, {"script": r.lines})
            elif sig_digits(t) != sig_digits(repr(abs(x))):
                agg.violation({"kind": "print_not_shortest", "path": path},
                              {"src": src, "text": t[:400], "x": repr(x), "digits": sig_digits(t),
                               "shortest": sig_digits(repr(abs(x)))}, {"script": r.lines})
            if i < 2:
                agg.sample({"leg": "print", "path": path, "x": repr(x), "text": t[:60]})
    finally:
        ev.close()
    return agg


# ------------------------------------------------------------------------------------------------
# texts whose value crosses the largest finite double at their very last digit, for every text -> number path

def boundary_texts():
    out = []
    # radix parsers: all lengths around the overflow threshold (hex 256/257 digits, octal 341..343, decimal 308..310),
    # leading digit and filler swept, with and without leading zeros
    for fn, digits, lens in (("std.parseHex", "0123456789abcdefABCDEF", range(250, 262)),
                             ("std.parseOctal", "01234567", range(336, 348)),
                             ("std.parseInt", "0123456789", range(304, 314))):
        top = digits[-1] if fn != "std.parseHex" else "f"
        for n in lens:
            for lead in sorted(set([digits[1], digits[2], digits[len(digits) // 3], top, "7", "1"]) & set(digits)):
                for fill in ("0", top):
                    for zeros in ("", "000"):
                        out.append((fn, zeros + lead + fill * (n - 1)))
        for n in (1, 2, 31, 32, 33, 64, 128, 200, 400, 1000):
            out.append((fn, top * n))
            out.append((fn, "1" + "0" * (n - 1)))
    for t in list(out):
        if t[0] == "std.parseInt":
            out.append((t[0], "-" + t[1]))
    # decimal texts at the rounding boundary between the largest double and overflow
    for m in ("17976931348623157", "179769313486231570", "17976931348623158", "179769313486231580814527423731704356798070",
              "179769313486231580793728971405303415079934", "179769313486231580793728971405303415079935", "17976931348623159", "1797693134862316", "18", "2", "9"):
        for form in ("%s" + "0" * (309 - len(m)) if len(m) <= 309 else None, "%se" + str(309 - len(m)), "0.%se309", "%s.0e" + str(309 - len(m)),
                     "%s" + "0" * (309 - len(m)) + ".5" if len(m) <= 309 else None):
            if form is None:
                continue
            text = form % m if "%s" in form else form
            for fn in ("std.parseJson", "std.parseYaml", "literal", "neg_literal"):
                out.append((fn, text))
    for t in ("0x" + "f" * 256, "0x" + "f" * 255, "0x1" + "0" * 256, "0x8" + "0" * 255, "0o" + "7" * 342, "0o1" + "7" * 341,
              "0o2" + "0" * 341, "0o1" + "0" * 342, "0o4" + "0" * 341):
        out.append(("std.parseYaml", t))
        out.append(("std.parseYaml", "a: " + t))
    return out


def boundary_shard(args):
    cases, = args
    agg = Agg()
    ev = Ev(agg)
    try:
        for fn, text in cases:
            if fn == "literal":
                src = text
            elif fn == "neg_literal":
                src = "-" + text
            else:
                src = "%s(%s)" % (fn, common.jstr(text))
            r = ev.run(src)
            if not gate(agg, r, src[:120] + ("..." if len(src) > 120 else ""), "boundary_text"):
                continue
            agg.nontrivial.add(common.h64(src))
            agg.count("boundary_text:%s:%s" % (fn, r.cls if r.cls != "error" else r.kind))
    finally:
        ev.close()
    return agg


def yaml_shard(args):
    """Structured YAML (anchors on values / keys / items / collections, aliases in every position, flow and block
    styles, scalars that read as numbers beyond the finite doubles): every number anywhere in the result is finite."""
    seed, n = args
    import genyaml
    rng = random.Random(seed)
    agg = Agg()
    ev = Ev(agg)
    g = genyaml.Gen(rng)
    try:
        for i in range(n):
            doc = g.stream()
            src = "std.parseYaml(%s)" % common.jstr(doc)
            r = ev.run(src)
            if not gate(agg, r, src[:400], "yaml_anchors"):
                continue
            agg.nontrivial.add(common.h64(src))
            agg.count("yaml:" + (r.cls if r.cls != "error" else "error"))
            if i < 1:
                agg.sample({"leg": "yaml_anchors", "document": doc[:300], "outcome": r.brief()})
        for st in g.stats:
            agg.add("yaml_anchor_alias_positions", st)
    finally:
        ev.close()
    return agg


def run(tier, seed):
    t0 = time.time()
    quick = tier != "thorough"
    total = Agg()
    rng = random.Random(seed)
    # binary operators over the grid: quick = sampled pairs, thorough = all pairs
    allpairs = list(itertools.product(GRID, repeat=2))
    if quick:
        pairs = rng.sample(allpairs, 4000)
    else:
        pairs = allpairs
    shards = [(seed + i, pairs[i::64]) for i in range(64)]
    for a in common.pmap(ops_shard, shards):
        total.merge(a)
    # every builtin on number tuples
    srv = common.Server()
    try:
        from checks.c01 import std_functions
        funcs = sorted((f, n) for f, n in std_functions(srv).items() if n >= 0)
    finally:
        srv.close()
    rng.shuffle(funcs)
    shards = [(seed * 31 + i, funcs[i::32], 40 if quick else 1200) for i in range(32)]
    for a in common.pmap(builtins_shard, shards):
        total.merge(a)
    shards = [(seed * 37 + i, 400 if quick else 20000) for i in range(16)]
    for a in common.pmap(arrays_shard, shards):
        total.merge(a)
    shards = [(seed * 41 + i, 100 if quick else 5000) for i in range(16)]
    for a in common.pmap(parse_shard, shards):
        total.merge(a)
    bt = boundary_texts()
    total.count("boundary_texts", len(bt))
    for a in common.pmap(boundary_shard, [(bt[i::16],) for i in range(16)]):
        total.merge(a)
    for a in common.pmap(yaml_shard, [(seed * 53 + i, 500 if quick else 30000) for i in range(16)]):
        total.merge(a)
    shards = [(seed * 43 + i, 1500 if quick else 60000) for i in range(16)]
    for a in common.pmap(literals_shard, shards):
        total.merge(a)
    shards = [(seed * 47 + i, 1500 if quick else 60000) for i in range(16)]
    for a in common.pmap(printing_shard, shards):
        total.merge(a)
    rule = ("finiteness gate (deep walk of the Value API, not the manifested text) on: 10 binary operators over pairs "
            f"of a {len(GRID)}-point boundary grid (+ - * / also compared with IEEE arithmetic), every std function "
            "of arity 1-4 on number tuples (two-number functions such as pow/atan2/hypot/mod on the whole grid x 20 special second operands), array folds (sum/avg/foldl/...), parse functions on overflowing texts; texts whose value crosses the largest double at "
            "their last digit for every text->number path (parseHex/parseOctal/parseInt at every length around the threshold x "
            "leading digit x filler x leading zeros x sign, decimal texts on both sides of the rounding boundary through "
            "literals/parseJson/parseYaml, 0x/0o YAML scalars); structured YAML with anchors on values/keys/items/collections "
            "and aliases in every position over scalars that read as out-of-range numbers; "
            "decimal literals (halfway cases, up to 400 digits, underscores, threshold exponents) vs Python float() "
            "bitwise; printed numbers (random, the grid, and every power of two and of ten with both neighbours and negated) on 10 manifest paths read back bitwise and have the shortest digit count. "
            "distinct_nontrivial = distinct operator/builtin applications with a numeric result, literals with more "
            "than 17 digits, (path, double) pairs.")
    return common.finish(PROP, tier, seed, total, rule, t0, extra={"grid_points": len(GRID)},
                         assumptions=["Python float()/repr are correctly rounded / shortest round-trip",
                                      "libm-dependent builtins (exp, log, trig, pow) are only gated for finiteness"])

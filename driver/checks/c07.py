"""C07 - object inheritance is associative, late-bound and visibility-preserving."""
import itertools
import random
import re
import time

import common
import genast
import genprog
import genrmkey
import refinterp
from common import Agg, Ev, same_value, jstr
from checks.c02 import compare_with_model

PROP = "C07"
NAMES = ["a", "b", "c", "d", "s", "l", "o", "m", "zz"]


def bracketings(items):
    """All binary '+' trees over the sequence of sources."""
    if len(items) == 1:
        return [items[0]]
    out = []
    for i in range(1, len(items)):
        for l in bracketings(items[:i]):
            for r in bracketings(items[i:]):
                out.append("(%s + %s)" % (l, r))
    return out


def gen_obj_src(rng, depth=2):
    """Source of a closed object expression (may use self/super/$ internally)."""
    g = genprog.Gen(rng, depth=depth, obj_heavy=True, allow_remove_key=False)
    k = rng.random()
    tree = g.O(depth, [], False)
    text = genast.render(tree, "min")[0].decode("utf-8")
    if k < 0.12:
        return "std.objectRemoveKey(%s, %s)" % (text, jstr(rng.choice(NAMES[:4])))
    if k < 0.2:
        return "std.mergePatch(%s, {%s: null, q: 1})" % (text, rng.choice(NAMES[:4]))
    if k < 0.26:
        return "std.prune(%s + {p: {}, n: null})" % text
    if k < 0.32:
        return "std.mapWithKey(function(k, v) v, %s)" % text
    return text


def out_key(r):
    if r.cls == "value":
        return ("V", r.value)
    if r.cls == "error":
        return ("E", r.kind, r.msg)
    return (r.cls,)


def same_out(a, b):
    if a[0] != b[0]:
        return False
    if a[0] == "V":
        return same_value(a[1], b[1], strict_zero=True)
    return a == b


INTRO = ("[std.length(X), std.objectFields(X), std.objectFieldsAll(X), [std.objectHas(X, n) for n in NS], "
         "[std.objectHasAll(X, n) for n in NS], [n in X for n in NS]]")


def intro_src(x):
    ns = "[" + ", ".join(jstr(n) for n in NAMES) + "]"
    return "local X = %s, NS = %s; %s" % (x, ns, INTRO)


def check_agreement(agg, r, manifest_r, desc):
    """manifestation, std.length, in, objectHas(All), objectFields(All) agree on which fields exist."""
    if r.cls != "value":
        return
    length, fields, fields_all, has, has_all, in_ = r.value
    problems = []
    if length != len(fields):
        problems.append("std.length %r != number of objectFields %d" % (length, len(fields)))
    if fields != sorted(fields) or fields_all != sorted(fields_all):
        problems.append("field lists not sorted")
    if not set(fields) <= set(fields_all):
        problems.append("a visible field is not in objectFieldsAll")
    for n, h, ha, i in zip(NAMES, has, has_all, in_):
        if h != (n in fields):
            problems.append("objectHas(%s)=%r but objectFields says %r" % (n, h, n in fields))
        if ha != (n in fields_all):
            problems.append("objectHasAll(%s)=%r but objectFieldsAll says %r" % (n, ha, n in fields_all))
        if i != ha:
            problems.append("'%s' in o = %r but objectHasAll = %r" % (n, i, ha))
    if manifest_r is not None and manifest_r.cls == "value" and isinstance(manifest_r.value, dict):
        keys = list(manifest_r.value.order) if hasattr(manifest_r.value, "order") else list(manifest_r.value.keys())
        if sorted(keys) != fields:
            problems.append("manifested keys %r != objectFields %r" % (sorted(keys), fields))
    if problems:
        agg.violation({"kind": "introspection_disagrees", "what": re.sub(r"'[a-z]+'|\([a-z]+\)|[0-9]+", "_", problems[0])[:60]},
                      dict(desc, problems=problems[:4]), {"script": r.lines})
    else:
        agg.count("agreement_checked")


def assoc_shard(args):
    seed, n = args
    rng = random.Random(seed)
    agg = Agg()
    ev = Ev(agg)
    try:
        for i in range(n):
            k = rng.choice([2, 3, 3, 3, 4, 4, 5])
            objs = [gen_obj_src(rng, rng.choice([1, 2, 2, 3])) for _ in range(k)]
            names = ["O%d" % j for j in range(k)]
            head = "local " + ", ".join("%s = %s" % (nm, src) for nm, src in zip(names, objs)) + "; "
            forms = bracketings(names)
            if k == 2:
                forms = ["(O0 + O1)", "({} + O0 + O1)", "(O0 + {} + O1)", "(O0 + O1 + {})", "({} + (O0 + O1))",
                         "((O0 + {}) + ({} + O1))", "(O0 + ({} + O1))", "(O0 {} + O1)"]
            elif rng.random() < 0.3:
                forms = forms + ["({} + %s)" % forms[0], "(%s + {})" % forms[-1]]
            if len(forms) > 8:
                forms = [forms[0]] + rng.sample(forms[1:], 7)
            base_m = base_i = None
            for fi, form in enumerate(forms):
                rm = ev.run(head + form, walk=1, stack=2000)
                ri = ev.run(head + intro_src(form), walk=1, stack=2000)
                if rm.cls == "inconclusive" or ri.cls == "inconclusive":
                    break
                desc = {"objects": objs, "form": form, "base_form": forms[0]}
                for r in (rm, ri):
                    if r.cls in ("panic", "crash"):
                        agg.violation(common.panic_signature(r), desc, {"script": r.lines})
                if fi == 0:
                    base_m, base_i = rm, ri
                    check_agreement(agg, ri, rm, desc)
                    continue
                identity_form = "{}" in form
                if identity_form and base_m.cls == "error" and rm.cls == "error":
                    # with {} on the left an object gains an (empty) super object: 'super without super object'
                    # legitimately becomes 'unknown field'; both are failures of the same lookup
                    agg.count("identity_forms_both_fail")
                    continue
                if not same_out(out_key(base_m), out_key(rm)):
                    agg.violation({"kind": "bracketing_changes_manifestation"},
                                  dict(desc, base=base_m.brief(), this=rm.brief()), {"script": rm.lines})
                    break
                if not same_out(out_key(base_i), out_key(ri)):
                    agg.violation({"kind": "bracketing_changes_introspection"},
                                  dict(desc, base=base_i.brief(), this=ri.brief()), {"script": ri.lines})
                    break
                agg.count("bracketings_compared")
            else:
                agg.nontrivial.add(common.h64(head))
                agg.add("chain_lengths", k)
                if base_m is not None:
                    agg.count("chain_outcome:" + base_m.cls)
            if i < 1:
                agg.sample({"objects": objs, "forms": forms[:3]})
    finally:
        ev.close()
    return agg


def prior_use_shard(args):
    """Using an object (reading its fields, so that its asserts are checked and its fields memoised) before it is
    extended must not change what the extension means: late binding and asserts apply to the final object."""
    seed, n = args
    rng = random.Random(seed)
    agg = Agg()
    ev = Ev(agg)
    try:
        for i in range(n):
            k = rng.choice([2, 2, 3])
            if rng.random() < 0.5:
                # targeted family: an assert / a late-bound field that the extension changes
                x0, x1 = rng.choice([(1, -1), (5, 0), (2, 2), (1, 10), (0, 1)])
                objs = [rng.choice(["{assert self.x > 0 : 'x must be positive', x: %d, y: self.x * 2}" % x0,
                                    "{x: %d, m(k):: self.x + k, y: self.m(1)}" % x0,
                                    "{x: %d, m:: function(k) [self.x, k]} + {n(k):: super.x + k, x: 0}" % x0,
                                    "{x: %d} + {m(k):: [self.x, super.x, k]}" % x0,
                                    "{assert self.x > 0, x: %d}" % x0,
                                    "{x: %d, y: self.x + 1, assert self.y != 1 : 'y'}" % x0,
                                    "{assert self.x > 0 : 'base'} + {x: %d, n: self.x}" % x0,
                                    "{local l = self.x, x: %d, z: l}" % x0]),
                        rng.choice(["{x: %d}" % x1, "{x+: %d}" % x1, "{x:: %d}" % x1, "{x: %d, w: super.x}" % x1,
                                    "{[k]: %d for k in ['x']}" % x1])]
                if k == 3:
                    objs.append(rng.choice(["{}", "{x: 3}", "{q: self.x}", "{assert self.x != 3 : 'three'}"]))
            else:
                objs = [gen_obj_src(rng, rng.choice([1, 2])) for _ in range(k)]
            names = ["O%d" % j for j in range(len(objs))]
            head = "local " + ", ".join("%s = %s" % (nm, src) for nm, src in zip(names, objs)) + "; "
            combo = " + ".join(names)
            base = ev.run(head + combo, walk=1, stack=2000)
            if base.cls in ("inconclusive", "panic", "crash"):
                continue
            # which operands can be used on their own?
            usable = []
            for nm in names:
                r1 = ev.run(head + "std.length(std.toString(%s))" % nm, walk=1, stack=2000)
                if r1.cls == "value":
                    usable.append(nm)
            if not usable:
                continue
            pick = rng.sample(usable, rng.randint(1, len(usable)))
            # every kind of observation: conversion, comparison, field listing, reading each field, calling each method
            METHOD_USE = ("std.length([(if std.isFunction(%s[k]) && std.length(%s[k]) == 1 then std.length(std.toString(%s[k](1))) else 0) "
                          "for k in std.objectFieldsAll(%s)])")
            uses = " + ".join(rng.choice(["std.length(std.toString(%s))", "(if %s == %s then 1 else 0)",
                                         "std.length(std.objectFields(%s))", METHOD_USE, METHOD_USE]).replace("%s", nm) for nm in pick)
            # the combination is observed the same way afterwards (values of its fields and results of its one-argument methods)
            OBSERVE = ("local C_ = %s; [C_, [(if std.isFunction(C_[k]) && std.length(C_[k]) == 1 then C_[k](2) else null) "
                       "for k in std.objectFieldsAll(C_)]]")
            combo = OBSERVE % combo
            base = ev.run(head + combo, walk=1, stack=2000)
            if base.cls in ("inconclusive", "panic", "crash"):
                continue
            src2 = head + "local used = %s; if used >= 0 then %s else null" % (uses, combo)
            r2 = ev.run(src2, walk=1, stack=2000)
            if r2.cls == "inconclusive":
                continue
            desc = {"objects": objs, "used_first": pick, "program": src2[:1500]}
            if r2.cls in ("panic", "crash"):
                agg.violation(common.panic_signature(r2), desc, {"script": r2.lines})
                continue
            if not same_out(out_key(base), out_key(r2)):
                agg.violation({"kind": "prior_use_changes_extension", "base": base.cls, "after_use": r2.cls},
                              dict(desc, without_prior_use=base.brief(), with_prior_use=r2.brief()), {"script": r2.lines})
                continue
            agg.count("prior_use:" + base.cls)
            agg.nontrivial.add(common.h64(src2))
    finally:
        ev.close()
    return agg


def model_shard(args):
    """Manifest + visibility table against the reference model (object-heavy programs)."""
    seed, n = args
    rng = random.Random(seed)
    agg = Agg()
    ev = Ev(agg)
    try:
        for i in range(n):
            g = genprog.Gen(rng, depth=rng.choice([2, 3]), obj_heavy=True)
            o = g.O(g.depth, [], False)
            v = "top"
            probe = ("local", [("bind", v, None, o)],
                     ("arr", [genprog.call(genprog.std("length"), ("var", v)),
                              genprog.call(genprog.std("objectFields"), ("var", v)),
                              genprog.call(genprog.std("objectFieldsAll"), ("var", v))] +
                      [genprog.call(genprog.std("objectHas"), ("var", v), genprog.s(nm)) for nm in NAMES[:4]] +
                      [("bin", "in", genprog.s(nm), ("var", v)) for nm in NAMES[:4]]))
            compare_with_model(agg, ev, probe, "visibility_table", modes=("min",))
            compare_with_model(agg, ev, o, "manifest", modes=("min",))
    finally:
        ev.close()
    return agg


def remove_key_shard(args):
    seed, n = args
    rng = random.Random(seed)
    agg = Agg()
    ev = Ev(agg)
    try:
        for i in range(n):
            osrc = gen_obj_src(rng, rng.choice([1, 2, 3]))
            k = rng.choice(NAMES[:5])
            ns = "[" + ", ".join(jstr(nm) for nm in NAMES) + "]"
            head = "local O = %s, K = %s, R = std.objectRemoveKey(O, K), NS = %s; " % (osrc, jstr(k), ns)
            src = head + ("{fo: std.objectFields(O), fao: std.objectFieldsAll(O), fr: std.objectFields(R), "
                          "far: std.objectFieldsAll(R), hasr: std.objectHasAll(R, K), inr: K in R, lenr: std.length(R), "
                          "twice: std.objectFieldsAll(std.objectRemoveKey(R, K)), "
                          "readd: std.objectFieldsAll(R + {[K]: 5}), readd_v: (R + {[K]: 5})[K]}")
            r = ev.run(src, walk=1, stack=2000)
            if r.cls == "inconclusive":
                continue
            desc = {"object": osrc, "key": k}
            if r.cls in ("panic", "crash"):
                agg.violation(common.panic_signature(r), desc, {"script": r.lines})
                continue
            if r.cls != "value":
                agg.count("remove_key_object_fails")
                continue
            v = r.value
            problems = []
            if v["far"] != [f for f in v["fao"] if f != k]:
                problems.append("objectFieldsAll after removal %r, before %r" % (v["far"], v["fao"]))
            if v["fr"] != [f for f in v["fo"] if f != k]:
                problems.append("visible fields after removal %r, before %r (another field's visibility changed)" % (v["fr"], v["fo"]))
            if v["hasr"] is not False or v["inr"] is not False:
                problems.append("removed key still present")
            if v["lenr"] != len(v["fr"]):
                problems.append("std.length disagrees")
            if v["twice"] != v["far"]:
                problems.append("removing twice changes the fields")
            if sorted(set(v["far"]) | {k}) != v["readd"] or v["readd_v"] != 5:
                problems.append("re-adding the key")
            if problems:
                agg.violation({"kind": "objectRemoveKey_fields", "what": re.sub(r"\[.*?\]", "[]", problems[0])[:60]},
                              dict(desc, problems=problems, observed=common.jsonable(dict(v))), {"script": r.lines})
                continue
            agg.nontrivial.add(common.h64(osrc, k))
            agg.count("remove_key_field_tables")
            # values of fields that do not read the removed one are intact
            for f in v["fr"]:
                probe = head + "(O + {[K]: error 'reads-removed'})[%s]" % jstr(f)
                rp = ev.run(probe, walk=1, stack=2000)
                if rp.cls != "value":
                    continue          # f reads K (or fails anyway): nothing is promised
                rv = ev.run(head + "[O[%s], R[%s]]" % (jstr(f), jstr(f)), walk=1, stack=2000)
                if rv.cls != "value":
                    ro = ev.run(head + "O[%s]" % jstr(f), walk=1, stack=2000)
                    if ro.cls == "value":
                        agg.violation({"kind": "objectRemoveKey_breaks_unrelated_field"},
                                      dict(desc, field=f, got=rv.brief()), {"script": rv.lines})
                    continue
                if not same_value(rv.value[0], rv.value[1], strict_zero=True):
                    agg.violation({"kind": "objectRemoveKey_changes_unrelated_value"},
                                  dict(desc, field=f, before=repr(rv.value[0])[:200], after=repr(rv.value[1])[:200]), {"script": rv.lines})
                else:
                    agg.count("remove_key_values_intact")
    finally:
        ev.close()
    return agg


def rmkey_history_shard(args):
    """Histories of literals, inheritance, std.objectRemoveKey (same key removed repeatedly, removal results on either
    side of +, shared sub-objects, objects observed before being extended) against the layer-deletion model."""
    seed, n = args
    rng = random.Random(seed)
    agg = Agg()
    ev = Ev(agg)
    ns = "[" + ", ".join(jstr(k) for k in genrmkey.KEYS) + "]"
    try:
        for i in range(n):
            h = genrmkey.gen(rng)
            head, root = genrmkey.render(h)
            visible, allk, vals = genrmkey.model(h)
            src = (head + "local X = %s, NS = %s; {m: X, f: std.objectFields(X), fa: std.objectFieldsAll(X), "
                   "len: std.length(X), has: [std.objectHas(X, k) for k in NS], hasall: [std.objectHasAll(X, k) for k in NS], "
                   "isin: [k in X for k in NS], hv: {[k]: X[k] for k in std.objectFieldsAll(X)}, "
                   "eq: X == %s, vals: std.objectValues(X), kv: std.objectKeysValues(X)}") % (
                       root, ns, common.jval(visible))
            r = ev.run(src, walk=1, stack=2000)
            desc = {"program": src[:1500], "model_visible": visible, "model_all": allk}
            if r.cls == "inconclusive":
                continue
            if r.cls in ("panic", "crash"):
                agg.violation(common.panic_signature(r), desc, {"script": r.lines})
                continue
            if r.cls != "value":
                agg.violation({"kind": "rmkey_history_fails", "err": r.kind}, dict(desc, got=r.brief()), {"script": r.lines})
                continue
            v = r.value
            exp = {"m": visible, "f": sorted(visible), "fa": allk, "len": float(len(visible)),
                   "has": [k in visible for k in genrmkey.KEYS], "hasall": [k in vals for k in genrmkey.KEYS],
                   "isin": [k in vals for k in genrmkey.KEYS], "hv": vals, "eq": True,
                   "vals": [visible[k] for k in sorted(visible)],
                   "kv": [{"key": k, "value": visible[k]} for k in sorted(visible)]}
            bad = [k for k in exp if not same_value(v[k], exp[k], strict_zero=False)]
            if bad:
                agg.violation({"kind": "rmkey_history_differs_from_model", "what": bad[0]},
                              dict(desc, differing=bad, got={k: repr(v[k])[:200] for k in bad},
                                   expected={k: repr(exp[k])[:200] for k in bad}), {"script": r.lines})
                continue
            agg.count("rmkey_histories_agree")
            agg.add("rmkey_history_shapes", genrmkey.shape_key(h))
            agg.nontrivial.add(common.h64(src))
            if i < 1:
                agg.sample({"leg": "rmkey_history", "program": head + root, "visible": visible, "all": allk})
    finally:
        ev.close()
    return agg


def wide_shard(args):
    """Objects with many fields (sizes around every power of two up to 1024) built as literals and comprehensions, extended by
    objects that override / hide / show / add a sparse subset: field tables and values against a direct model."""
    seed, sizes = args
    rng = random.Random(seed)
    agg = Agg()
    ev = Ev(agg)
    try:
        for n in sizes:
            for rep in range(2):
                names = ["k%04d" % i for i in range(n)]
                rng.shuffle(names)
                vis_a = {nm: rng.choice([":", ":", ":", "::", ":::"]) for nm in names}
                how = rng.choice(["literal", "comprehension", "foldl"])
                if how == "literal":
                    A = "{" + ", ".join("%s%s %d" % (nm, vis_a[nm], i) for i, nm in enumerate(names)) + "}"
                elif how == "comprehension":
                    vis_a = {nm: ":" for nm in names}
                    A = "{[kv[0]]: kv[1] for kv in [%s]}" % ", ".join('["%s", %d]' % (nm, i) for i, nm in enumerate(names))
                else:
                    vis_a = {nm: ":" for nm in names}
                    A = "std.foldl(function(o, kv) o + {[kv[0]]: kv[1]}, [%s], {})" % ", ".join('["%s", %d]' % (nm, i) for i, nm in enumerate(names))
                val = {nm: float(i) for i, nm in enumerate(names)}
                vis = {nm: (vis_a[nm] != "::") for nm in names}
                over = rng.sample(names, min(len(names), rng.choice([0, 1, 3, 8])))
                extra = ["n%02d" % j for j in range(rng.choice([0, 1, 2]))]
                bfields = []
                for nm in over + extra:
                    v = rng.choice([":", ":", "::", ":::"])
                    plus = nm in val and rng.random() < 0.4
                    c = rng.randint(1000, 2000)
                    bfields.append("%s%s%s %d" % (nm, "+" if plus else "", v, c))
                    val[nm] = val[nm] + c if plus else float(c)
                    if v == "::":
                        vis[nm] = False
                    elif v == ":::":
                        vis[nm] = True
                    else:
                        vis.setdefault(nm, True)
                rm = rng.choice(names) if names and rng.random() < 0.5 else None
                X = "(%s + {%s})" % (A, ", ".join(bfields))
                if rm is not None:
                    X = 'std.objectRemoveKey(%s, "%s")' % (X, rm)
                    val.pop(rm)
                    vis.pop(rm)
                visible = {k: v for k, v in val.items() if vis[k]}
                probe = rng.sample(sorted(val), min(5, len(val))) + ["zzz"]
                src = ("local X = %s; {f: std.objectFields(X), fa: std.objectFieldsAll(X), len: std.length(X), m: X, "
                       "has: [std.objectHas(X, k) for k in %s], hasall: [std.objectHasAll(X, k) for k in %s], "
                       "vals: [X[k] for k in std.objectFieldsAll(X)]}") % (X, common.jval(probe), common.jval(probe))
                r = ev.run(src, walk=1, stack=3000)
                desc = {"size": n, "built_as": how, "overrides": bfields[:6], "removed": rm, "program": src[:400]}
                if r.cls == "inconclusive":
                    continue
                if r.cls in ("panic", "crash"):
                    agg.violation(common.panic_signature(r), desc, {"script": r.lines})
                    continue
                if r.cls != "value":
                    agg.violation({"kind": "wide_object_fails", "err": r.kind}, dict(desc, got=r.brief()), {"script": r.lines})
                    continue
                v = r.value
                exp = {"f": sorted(visible), "fa": sorted(val), "len": float(len(visible)), "m": visible,
                       "has": [k in visible for k in probe], "hasall": [k in val for k in probe], "vals": [val[k] for k in sorted(val)]}
                bad = [k for k in exp if not same_value(v[k], exp[k], strict_zero=False)]
                if bad:
                    agg.violation({"kind": "wide_object_differs_from_model", "what": bad[0]},
                                  dict(desc, differing=bad, got=repr(v[bad[0]])[:300], expected=repr(exp[bad[0]])[:300]), {"script": r.lines})
                    continue
                agg.count("wide_objects_agree")
                agg.add("wide_object_sizes", n)
                agg.nontrivial.add(common.h64(src))
    finally:
        ev.close()
    return agg


TEMPLATES = [
    # late binding of self at any nesting of extension; super = layers to the left
    ("local A = {a: 1, b: self.a}, B = {a: 2}, C = {a: 3}; [(A + B + C).b, (A + (B + C)).b, ((A + B) + C).b]", [3.0, 3.0, 3.0]),
    ("local A = {a: 1}, B = {a: super.a + 10}, C = {a: super.a + 100}; [((A + B) + C).a, (A + (B + C)).a]", [111.0, 111.0]),
    ("local A = {a: 1}, B = {b: super.a}, C = {a: 5}; [((A + B) + C).b, (A + (B + C)).b]", [1.0, 1.0]),
    ("local A = {a:: 1}, B = {a: 2}, C = {a::: 3}; [std.objectFields(A + B), std.objectFields((A + B) + C), std.objectFields(A + (B + C))]",
     [[], ["a"], ["a"]]),
    ("local A = {a: 1}, B = {a:: 2}, C = {a: 3}; [std.objectFields((A + B) + C), std.objectFields(A + (B + C)), std.objectFieldsAll(A + B + C)]",
     [[], [], ["a"]]),
    ("local A = {a::: 1}, B = {a:: 2}, C = {a: 3}; std.objectFields(A + B + C)", []),
    ("local A = {a: 1}; [{} + A == A, A + {} == A, std.objectFieldsAll({} + A + {}), ({} + A).a]", [True, True, ["a"], 1.0]),
    ("local A = {x: 1, y: self.x}, B = {x+: 1}; [(A + B + B).y, (A + (B + B)).y]", [3.0, 3.0]),
    ("local A = {f: 1}, B = {g: 'f' in super, h: 'g' in super}; [(A + B).g, (A + B).h, (B + A).g]", [True, False, False]),
    ("local A = {a: 1, n: {b: $.a, c: self.b}}; (A + {a: 7}).n", {"b": 7.0, "c": 7.0}),
    ("local A = {a: 1}, B = {[k]: super.a + 1 for k in ['a']}; (A + B).a", 2.0),
    ("local A = {local x = self.a, a: 1, b: x}; (A + {a: 9}).b", 9.0),
    ("local A = {assert self.a > 0 : 'pos', a: 1}; (A + {a: 5}).a", 5.0),
    ("local R = std.objectRemoveKey({a: 1, b:: 2, c::: 3, d: 4}, 'a'); [std.objectFields(R), std.objectFieldsAll(R), R.d, 'a' in R]",
     [["c", "d"], ["b", "c", "d"], 4.0, False]),
    ("local R = std.objectRemoveKey({a: 1, b: 2} + {b+: 5, c: 3}, 'a'); R", {"b": 7.0, "c": 3.0}),
    ("std.objectRemoveKey({a: 1}, 'zz')", {"a": 1.0}),
    ("local R = std.objectRemoveKey({a: 1, b: self.a}, 'b'); R.a", 1.0),
]


def templates_shard(args):
    agg = Agg()
    ev = Ev(agg)
    try:
        for src, exp in TEMPLATES:
            r = ev.run(src, walk=1)
            agg.nontrivial.add(common.h64(src))
            if r.cls != "value" or not same_value(r.value, exp, strict_zero=False):
                agg.violation({"kind": "template", "src": src[:70]}, {"src": src, "expected": repr(exp), "got": r.brief()},
                              {"script": r.lines})
    finally:
        ev.close()
    return agg


def run(tier, seed):
    t0 = time.time()
    quick = tier != "thorough"
    total = Agg()
    n = 2500 if quick else 200_000
    for a in common.pmap(assoc_shard, [(seed * 1103 + i, n // 32) for i in range(32)]):
        total.merge(a)
    n2 = 3000 if quick else 200_000
    for a in common.pmap(model_shard, [(seed * 1109 + i, n2 // 16) for i in range(16)]):
        total.merge(a)
    n3 = 1600 if quick else 100_000
    for a in common.pmap(remove_key_shard, [(seed * 1117 + i, n3 // 16) for i in range(16)]):
        total.merge(a)
    n4 = 2400 if quick else 150_000
    for a in common.pmap(prior_use_shard, [(seed * 1123 + i, n4 // 16) for i in range(16)]):
        total.merge(a)
    n5 = 6400 if quick else 400_000
    for a in common.pmap(rmkey_history_shard, [(seed * 1129 + i, n5 // 16) for i in range(16)]):
        total.merge(a)
    sizes = [0, 1, 2, 3, 4, 5, 7, 8, 9, 15, 16, 17, 31, 32, 33, 63, 64, 65, 100, 127, 128, 129, 255, 256, 257, 511, 512, 513, 1000, 1023, 1024, 1025]
    if not quick:
        sizes = sizes * 8 + list(range(0, 300))
    rngs = random.Random(seed)
    rngs.shuffle(sizes)
    for a in common.pmap(wide_shard, [(seed * 1151 + i, sizes[i::16]) for i in range(16)]):
        total.merge(a)
    for a in common.pmap(templates_shard, [(seed,)]):
        total.merge(a)
    rule = ("chains of 2-5 generated object expressions (self, super.f, super[e], e in super, +:, three visibilities, "
            "object locals, asserts, computed names, comprehension-built objects, results of objectRemoveKey/"
            "mergePatch/prune/mapWithKey) combined in every bracketing (up to 8 per chain) and with {} on either "
            "side: manifestation (or error) and the introspection vector (std.length, objectFields(All), "
            "objectHas(All), in) must be identical; agreement laws between manifestation and introspection on every "
            "chain; manifest and visibility table of object-heavy programs against the reference model; "
            "objectRemoveKey: field tables minus the key with other visibilities unchanged, removed twice, re-added, "
            "values of fields that do not read the removed key intact (decided by a probe that makes the key fail); "
            "prior use: reading/comparing/stringifying operands before they are combined never changes the combination "
            "(asserts and late-bound fields apply to the final object); "
            "objectRemoveKey histories: terms over literals / comprehension objects / + / objectRemoveKey (same key removed "
            "repeatedly, removal results on either side of +, shared sub-objects, objects observed before extension) "
            "against the layer-deletion model: manifest, objectFields(All), length, objectHas(All), in, hidden values, "
            "==, objectValues, objectKeysValues; wide objects (0..1025 fields, sizes around every power of two; literal / comprehension / "
            "fold construction) extended by sparse overriding / hiding / showing / +: layers and optionally a removed key. "
            "distinct_nontrivial = distinct chains / programs / (object, key) pairs fully compared.")
    return common.finish(PROP, tier, seed, total, rule, t0,
                         assumptions=["reference model as in C02", "a field 'does not read' key K iff it still evaluates when K is overridden by a failing field"])

"""C15 - parsing honours the precedence table and is stable under print and re-parse."""
import itertools
import random
import re
import time

import common
import genast
import genbytes
from common import Agg, Crashed, Server, hx, unhx
from genast import BIN_PREC, BIN_NAMES, UN_NAMES

PROP = "C15"
import sys
sys.setrecursionlimit(30000)
BIN_FROM = {v: k for k, v in BIN_NAMES.items()}
UN_FROM = {v: k for k, v in UN_NAMES.items()}


# ------------------------------------------------------------------------------------------------
# S-expression reading

def read_sexpr(text):
    toks = re.findall(r"\(|\)|[^\s()]+", text)
    pos = 0

    def rd():
        nonlocal pos
        t = toks[pos]
        pos += 1
        if t == "(":
            lst = []
            while toks[pos] != ")":
                lst.append(rd())
            pos += 1
            return lst
        return t
    v = rd()
    assert pos == len(toks)
    return v


def head(x):
    """'bin@13:26' -> ('bin', (13, 26));  'binds' -> ('binds', None)"""
    h = x[0]
    if "@" in h:
        k, sp = h.split("@")
        s, e = sp.split(":")
        return k, (int(s), int(e))
    return h, None


def unx(a):
    return unhx(a).decode("utf-8")


class D:
    """A dump node converted to the generator's tuple form, with spans."""
    __slots__ = ("t", "span", "kids", "extra")

    def __init__(self, t, span, kids=(), extra=None):
        self.t = t          # tuple form (children as tuple forms)
        self.span = span
        self.kids = list(kids)   # child D nodes (expressions) in source order
        self.extra = extra or {}


def conv_ident(x):
    k, sp = head(x)
    assert k == "id", x
    return unx(x[1]), sp


def conv_params(x):
    k, sp = head(x)
    assert k == "params"
    out = []
    kids = []
    for p in x[1:]:
        n, _ = conv_ident(p[1])
        d = None
        if p[2] != "_":
            dd = conv(p[2])
            kids.append(dd)
            d = dd.t
        out.append(("param", n, d))
    return out, kids, sp


def conv_bind(x):
    assert x[0] == "bind"
    n, _ = conv_ident(x[1])
    params = None
    kids = []
    if x[2] != "_":
        params, pk, _ = conv_params(x[2])
        kids += pk
    e = conv(x[3])
    kids.append(e)
    return ("bind", n, params, e.t), kids


def conv_name(x):
    k, sp = head(x)
    if k == "id":
        return ("id", unx(x[1])), [], sp
    if k == "sname":
        return ("sname", unx(x[1])), [], sp
    e = conv(x[1])
    return ("ename", e.t), [e], sp


def conv_specs(x):
    assert x[0] == "spec"
    out = []
    kids = []
    for s in x[1:]:
        if s[0] == "for":
            n, _ = conv_ident(s[1])
            e = conv(s[2])
            kids.append(e)
            out.append(("sfor", n, e.t))
        else:
            e = conv(s[1])
            kids.append(e)
            out.append(("sif", e.t))
    return out, kids


def conv_assert(x):
    k, sp = head(x)
    assert k == "a"
    c = conv(x[1])
    kids = [c]
    m = None
    if x[2] != "_":
        mm = conv(x[2])
        kids.append(mm)
        m = mm.t
    return c.t, m, kids, sp


def conv_obj(x):
    k, sp = head(x)
    kids = []
    if k == "obj":
        members = []
        for m in x[1:]:
            mk = m[0]
            if mk == "mlocal":
                b, bk = conv_bind(m[1])
                kids += bk
                members.append(("mlocal", b))
            elif mk == "massert":
                c, msg, ak, _ = conv_assert(m[1])
                kids += ak
                members.append(("massert", c, msg))
            elif mk == "field":
                n, nk, _ = conv_name(m[1])
                kids += nk
                e = conv(m[4])
                kids.append(e)
                members.append(("field", n, m[2] == "1", int(m[3]), e.t))
            else:
                n, nk, _ = conv_name(m[1])
                kids += nk
                params, pk, _ = conv_params(m[2])
                kids += pk
                e = conv(m[4])
                kids.append(e)
                members.append(("ffunc", n, params, int(m[3]), e.t))
        return D(("obj", members), sp, kids)
    assert k == "objcomp", x
    l1 = []
    for b in x[1][1:]:
        bb, bk = conv_bind(b)
        l1.append(bb)
        kids += bk
    key = conv(x[2])
    kids.append(key)
    val = conv(x[4])
    kids.append(val)
    l2 = []
    for b in x[5][1:]:
        bb, bk = conv_bind(b)
        l2.append(bb)
        kids += bk
    specs, sk = conv_specs(x[6])
    kids += sk
    return D(("objcomp", l1, key.t, x[3] == "1", val.t, l2, specs), sp, kids)


def canon_num(digits, exp):
    """Canonical (digits, exp): no leading zeros, no trailing zeros."""
    d = digits.lstrip("0")
    if d == "":
        return ("0", 0)
    t = d.rstrip("0")
    return (t, exp + len(d) - len(t))


def num_text_to_canon(text):
    t = text.replace("_", "").lower()
    mant, _, e = t.partition("e")
    ip, _, frac = mant.partition(".")
    return canon_num(ip + frac, (int(e) if e else 0) - len(frac))


def conv(x):
    k, sp = head(x)
    if k in ("null", "true", "false", "self"):
        return D((k,), sp)
    if k == "$":
        return D(("dollar",), sp)
    if k == "str":
        return D(("str", unx(x[1]), None), sp)
    if k == "tb":
        return D(("str", unx(x[1]), "tb"), sp)
    if k == "num":
        return D(("num",) + canon_num(x[1], int(x[2])), sp)
    if k == "paren":
        e = conv(x[1])
        return D(("paren", e.t), sp, [e])
    if k in ("obj", "objcomp"):
        return conv_obj(x)
    if k == "arr":
        kids = [conv(e) for e in x[1:]]
        return D(("arr", [e.t for e in kids]), sp, kids)
    if k == "arrcomp":
        b = conv(x[1])
        specs, sk = conv_specs(x[2])
        return D(("arrcomp", b.t, specs), sp, [b] + sk)
    if k == "dot":
        e = conv(x[1])
        n, nsp = conv_ident(x[2])
        return D(("dot", e.t, n), sp, [e], {"name_span": nsp})
    if k == "index":
        e, i = conv(x[1]), conv(x[2])
        return D(("index", e.t, i.t), sp, [e, i])
    if k == "slice":
        e = conv(x[1])
        parts = [None if p == "_" else conv(p) for p in x[2:5]]
        return D(("slice", e.t) + tuple(None if p is None else p.t for p in parts), sp, [e] + [p for p in parts if p])
    if k == "superdot":
        n, nsp = conv_ident(x[2])
        return D(("superdot", n), sp, [], {"super_span": head(x[1])[1], "name_span": nsp})
    if k == "superidx":
        e = conv(x[2])
        return D(("superidx", e.t), sp, [e], {"super_span": head(x[1])[1]})
    if k == "insuper":
        e = conv(x[1])
        return D(("insuper", e.t), sp, [e], {"super_span": head(x[2])[1]})
    if k == "call":
        f = conv(x[1])
        kids = [f]
        args = []
        for a in x[3:]:
            if a[0] == "pos":
                e = conv(a[1])
                kids.append(e)
                args.append(("pos", e.t))
            else:
                n, _ = conv_ident(a[1])
                e = conv(a[2])
                kids.append(e)
                args.append(("named", n, e.t))
        return D(("call", f.t, args, x[2] == "1"), sp, kids)
    if k == "var":
        return D(("var", unx(x[1])), sp, [], {"idspandiff": "IDSPANDIFF" in x})
    if k == "local":
        binds = []
        kids = []
        for b in x[1][1:]:
            bb, bk = conv_bind(b)
            binds.append(bb)
            kids += bk
        body = conv(x[2])
        kids.append(body)
        return D(("local", binds, body.t), sp, kids)
    if k == "if":
        c, t = conv(x[1]), conv(x[2])
        kids = [c, t]
        f = None
        if x[3] != "_":
            ff = conv(x[3])
            kids.append(ff)
            f = ff.t
        return D(("if", c.t, t.t, f), sp, kids)
    if k == "bin":
        l, r = conv(x[2]), conv(x[3])
        return D(("bin", BIN_FROM[x[1]], l.t, r.t), sp, [l, r])
    if k == "un":
        e = conv(x[2])
        return D(("un", UN_FROM[x[1]], e.t), sp, [e])
    if k == "objext":
        e = conv(x[1])
        o = conv_obj(x[2])
        return D(("objext", e.t, o.t), sp, [e, o])
    if k == "func":
        params, pk, _ = conv_params(x[1])
        body = conv(x[2])
        return D(("func", params, body.t), sp, pk + [body])
    if k == "assert":
        c, m, ak, asp = conv_assert(x[1])
        body = conv(x[2])
        return D(("assert", c, m, body.t), sp, ak + [body], {"assert_span": asp})
    if k in ("import", "importstr", "importbin", "error"):
        e = conv(x[1])
        return D((k, e.t), sp, [e])
    raise AssertionError("unknown dump node " + k)


# ------------------------------------------------------------------------------------------------
# normal form of generator trees (same shape as conv(...).t)

def norm(node):
    if isinstance(node, list):
        return [norm(x) for x in node]
    if not isinstance(node, tuple):
        return node
    k = node[0] if node else None
    if k == "num":
        return ("num",) + num_text_to_canon(node[1])
    if k == "str":
        return ("str", node[1], "tb" if node[2] == "tb" else None)
    if k == "sname":
        return ("sname", node[1])
    return tuple(norm(x) for x in node)


def span_checks(d, toks, problems, parent=None):
    """Generic span laws on a dump tree: start <= end, child within parent, starts/ends on token boundaries."""
    starts, ends = toks
    s, e = d.span
    if not (s <= e):
        problems.append("span start > end at %r" % (d.t[0],))
    if s not in starts or e not in ends:
        problems.append("span (%d,%d) of %s does not start/end on a token boundary" % (s, e, d.t[0]))
    if parent is not None:
        ps, pe = parent.span
        if not (ps <= s and e <= pe):
            problems.append("child %s (%d,%d) outside parent %s (%d,%d)" % (d.t[0], s, e, parent.t[0], ps, pe))
    for k in d.kids:
        span_checks(k, toks, problems, d)
    if d.extra.get("idspandiff"):
        problems.append("identifier span differs from its expression span")


def extent_walk(g, d, printer, problems):
    """Parallel walk generator tree / dump tree: the dump node's span must be the printed extent."""
    while d.t[0] == "paren" and g[0] != "paren":
        d = d.kids[0]
    ext = printer.ext.get(id(g))
    if ext is not None and tuple(ext) != tuple(d.span):
        problems.append("node %s printed at %r but parsed span is %r" % (g[0], ext, d.span))
        return
    # children in source order: collect expression children of g in the same order as conv() does
    gk = expr_children(g)
    dk = d.kids
    if len(gk) != len(dk):
        return
    for a, b in zip(gk, dk):
        extent_walk(a, b, printer, problems)


def expr_children(g):
    k = g[0]

    def params_k(params):
        return [d for (_, _, d) in params if d is not None]

    def bind_k(b):
        return (params_k(b[2]) if b[2] is not None else []) + [b[3]]

    def name_k(n):
        return [n[1]] if n[0] == "ename" else []

    def specs_k(specs):
        return [s[2] if s[0] == "sfor" else s[1] for s in specs]

    def obj_k(o):
        out = []
        if o[0] == "obj":
            for m in o[1]:
                if m[0] == "mlocal":
                    out += bind_k(m[1])
                elif m[0] == "massert":
                    out += [m[1]] + ([m[2]] if m[2] is not None else [])
                elif m[0] == "field":
                    out += name_k(m[1]) + [m[4]]
                else:
                    out += name_k(m[1]) + params_k(m[2]) + [m[4]]
            return out
        _, l1, key, plus, val, l2, specs = o
        for b in l1:
            out += bind_k(b)
        out += [key, val]
        for b in l2:
            out += bind_k(b)
        return out + specs_k(specs)
    if k in ("null", "true", "false", "self", "dollar", "num", "str", "var", "superdot"):
        return []
    if k == "paren":
        return [g[1]]
    if k == "arr":
        return list(g[1])
    if k == "arrcomp":
        return [g[1]] + specs_k(g[2])
    if k in ("obj", "objcomp"):
        return obj_k(g)
    if k == "dot":
        return [g[1]]
    if k == "index":
        return [g[1], g[2]]
    if k == "slice":
        return [g[1]] + [p for p in g[2:5] if p is not None]
    if k in ("superidx", "insuper"):
        return [g[1]]
    if k == "call":
        return [g[1]] + [a[1] if a[0] == "pos" else a[2] for a in g[2]]
    if k == "local":
        out = []
        for b in g[1]:
            out += bind_k(b)
        return out + [g[2]]
    if k == "if":
        return [g[1], g[2]] + ([g[3]] if g[3] is not None else [])
    if k == "bin":
        return [g[2], g[3]]
    if k == "un":
        return [g[2]]
    if k == "objext":
        return [g[1], g[2]]
    if k == "func":
        return params_k(g[1]) + [g[2]]
    if k == "assert":
        return [g[1]] + ([g[2]] if g[2] is not None else []) + [g[3]]
    return [g[1]]


def parse_src(srv, data, pre=None):
    line = "PARSE " + hx(data) + (" %d:%d" % pre if pre else "")
    return srv.request([line], timeout=60)[0], line


def tok_bounds(rec):
    starts, ends = set(), set()
    t = rec.get("toks", "")
    if t:
        for p in t.split(","):
            s, e = p.split(":")
            starts.add(int(s))
            ends.add(int(e))
    return starts, ends


def tree_case(agg, srv, tree, rng, family):
    """Prints a tree in three styles; all must parse to the generator's tree with the printed extents."""
    want = genast.strip_parens(norm(tree))
    for mode in ("min", "full", "noisy"):
        text, printer = genast.render(tree, mode, random.Random(rng.getrandbits(32)))
        agg.evaluations += 1
        pre = rng.choice([None, None, (2, 50), (1, (1 << 38) + 3)])
        try:
            rec, line = parse_src(srv, text, pre)
        except Crashed as e:
            if e.kind in ("timeout", "oom"):
                agg.inconc(e.kind)
                continue
            agg.violation({"kind": "parser_crash", "family": family}, {"text": text[:600].decode("utf-8", "replace"), "crash": e.detail[-300:]},
                          {"script": ["PARSE " + hx(text)]})
            return
        desc = {"family": family, "mode": mode, "text": text[:900].decode("utf-8", "replace")}
        replay = {"script": [line]}
        if rec.status == "PANIC":
            agg.violation({"kind": "parser_panic", "msg": re.sub(r"[0-9]+", "N", rec.s("msg") or "")[:80]},
                          dict(desc, panic=rec.s("msg"), loc=rec.s("loc")), replay)
            return
        if rec.status != "OK":
            agg.violation({"kind": "printed_tree_rejected", "mode": mode, "err": rec.get("kind")},
                          dict(desc, error=(rec.s("dbg") or "")[:300]), replay)
            return
        d = conv(read_sexpr(unx(rec["ast"])))
        got = genast.strip_parens(d.t)
        if got != want:
            agg.violation({"kind": "parsed_tree_differs_from_printed_tree", "mode": mode},
                          dict(desc, expected=repr(want)[:700], got=repr(got)[:700]), replay)
            return
        problems = []
        span_checks(d, tok_bounds(rec), problems)
        if d.span != (printer.ext[id(tree)][0], printer.ext[id(tree)][1]):
            problems.append("root span %r, printed extent %r" % (d.span, printer.ext[id(tree)]))
        extent_walk(tree, d, printer, problems)
        if problems:
            agg.violation({"kind": "span_law_broken", "what": re.sub(r"[0-9]+", "N", problems[0])[:70]},
                          dict(desc, problems=problems[:5]), replay)
            return
        agg.count("mode:" + mode)
    agg.nontrivial.add(common.h64(repr(want)))
    count_kinds(agg, want)


def count_kinds(agg, t):
    if isinstance(t, tuple) and t and isinstance(t[0], str):
        agg.add("node_kinds", t[0] + (":" + t[1] if t[0] in ("bin", "un") else ""))
        for x in t[1:]:
            count_kinds(agg, x)
    elif isinstance(t, (list, tuple)):
        for x in t:
            count_kinds(agg, x)


def random_shard(args):
    seed, n = args
    rng = random.Random(seed)
    agg = Agg()
    srv = Server()
    try:
        for i in range(n):
            g = genast.SynGen(rng, rng.choice([5, 10, 20, 40]))
            tree = genast.dangling_else_safe(g.expr())
            tree_case(agg, srv, tree, rng, "random_tree")
            if i < 1:
                agg.sample({"tree": repr(genast.strip_parens(norm(tree)))[:300], "min": genast.render(tree, "min")[0][:200].decode("utf-8", "replace")})
    finally:
        srv.close()
    return agg


def group(operands, ops):
    """Reference grouping by the precedence table, left associative (shunting yard)."""
    out = [operands[0]]
    st = []

    def reduce():
        op = st.pop()
        r = out.pop()
        l = out.pop()
        out.append(("bin", op, l, r))
    for op, x in zip(ops, operands[1:]):
        while st and BIN_PREC[st[-1]] >= BIN_PREC[op]:
            reduce()
        st.append(op)
        out.append(x)
    while st:
        reduce()
    return out[0]


DECOR = [lambda v: v, lambda v: ("un", "-", v), lambda v: ("un", "!", v), lambda v: ("un", "~", v), lambda v: ("un", "+", v),
         lambda v: ("dot", v, "f"), lambda v: ("index", v, ("num", "0")), lambda v: ("call", v, [("pos", ("num", "1"))], False),
         lambda v: ("un", "-", ("dot", v, "f")), lambda v: ("un", "!", ("call", v, [], False)),
         lambda v: ("objext", v, ("obj", [])), lambda v: ("slice", v, ("num", "1"), None, None),
         lambda v: ("un", "-", ("un", "-", v)), lambda v: ("un", "~", ("index", ("dot", v, "g"), ("var", "i")))]


def decor_text(t):
    """Flat text of a decorated operand without any parentheses (unary prefix, postfix suffix)."""
    k = t[0]
    if k == "var":
        return t[1]
    if k == "num":
        return t[1]
    if k == "un":
        return t[1] + " " + decor_text(t[2])
    if k == "dot":
        return decor_text(t[1]) + "." + t[2]
    if k == "index":
        return decor_text(t[1]) + "[" + decor_text(t[2]) + "]"
    if k == "slice":
        return decor_text(t[1]) + "[" + decor_text(t[2]) + ":]"
    if k == "call":
        return decor_text(t[1]) + "(" + ", ".join(decor_text(a[1]) for a in t[2]) + ")"
    if k == "objext":
        return decor_text(t[1]) + " {}"
    raise AssertionError(k)


def ops_shard(args):
    seed, combos = args
    rng = random.Random(seed)
    agg = Agg()
    srv = Server()
    ops_all = list(BIN_PREC)
    try:
        for ops in combos:
            for variant in range(2):
                names = ["a", "b", "c", "d"][:len(ops) + 1]
                if variant == 0:
                    operands = [("var", n) for n in names]
                else:
                    operands = [rng.choice(DECOR)(("var", n)) for n in names]
                text = decor_text(operands[0])
                for op, x in zip(ops, operands[1:]):
                    text += " " + op + " " + decor_text(x)
                want = norm(group(operands, list(ops)))
                full = genast.render(group(operands, list(ops)), "full")[0]
                agg.evaluations += 1
                try:
                    rec, line = parse_src(srv, text.encode())
                    rec2, line2 = parse_src(srv, full)
                except Crashed as e:
                    agg.inconc(e.kind)
                    continue
                desc = {"text": text, "ops": list(ops)}
                if rec.status != "OK" or rec2.status != "OK":
                    agg.violation({"kind": "operator_sequence_rejected", "ops": "/".join(ops)}, dict(desc, rec=rec.raw[:300]), {"script": [line]})
                    continue
                got = genast.strip_parens(conv(read_sexpr(unx(rec["ast"]))).t)
                got2 = genast.strip_parens(conv(read_sexpr(unx(rec2["ast"]))).t)
                if got != want:
                    agg.violation({"kind": "grouping_differs_from_precedence_table", "ops": "/".join(ops)},
                                  dict(desc, expected=repr(want)[:500], got=repr(got)[:500]), {"script": [line]})
                elif got2 != want:
                    agg.violation({"kind": "fully_parenthesised_form_differs", "ops": "/".join(ops)},
                                  dict(desc, full=full.decode(), got=repr(got2)[:500]), {"script": [line2]})
                agg.nontrivial.add(common.h64(text))
            agg.add("operator_sequences", ops)
    finally:
        srv.close()
    return agg


def lex_tokens(srv, data):
    rec = srv.request(["LEX " + hx(data)], timeout=60)[0]
    if rec.status != "OK" or rec.get("filt") == "ERR":
        return None
    out = []
    for t in rec["filt"].split(","):
        p = t.split(":")
        out.append((int(p[1]), int(p[2])))
    return out


def errors_shard(args):
    seed, n = args
    rng = random.Random(seed)
    agg = Agg()
    srv = Server()
    try:
        for i in range(n):
            if rng.random() < 0.5:
                g = genast.SynGen(rng, rng.choice([5, 15, 30]))
                text = genast.render(genast.dangling_else_safe(g.expr()), rng.choice(["min", "noisy"]), random.Random(i))[0]
            else:
                text = genbytes.corpus()[rng.randrange(len(genbytes.corpus()))][1]
                if len(text) > 4000:
                    continue
            toks = lex_tokens(srv, text)
            if not toks or len(toks) < 2:
                continue
            # token-level mutation: delete / duplicate / swap / replace a token
            k = rng.randrange(4)
            j = rng.randrange(len(toks) - 1)
            s, e = toks[j]
            if k == 0:
                mut = text[:s] + text[e:]
            elif k == 1:
                mut = text[:e] + b" " + text[s:e] + text[e:]
            elif k == 2 and j + 2 < len(toks):
                s2, e2 = toks[j + 1]
                mut = text[:s] + text[s2:e2] + b" " + text[s:e] + text[e2:]
            else:
                mut = text[:s] + rng.choice([b")", b"]", b"}", b",", b";", b"then", b"else", b":", b"=", b"for", b"in", b"|", b"tailstrict", b"(", b"::", b"."]) + text[e:]
            agg.evaluations += 1
            try:
                rec, line = parse_src(srv, mut)
            except Crashed as ex:
                agg.inconc(ex.kind)
                continue
            replay = {"script": [line]}
            if rec.status == "PANIC":
                agg.violation({"kind": "parser_panic", "msg": re.sub(r"[0-9]+", "N", rec.s("msg") or "")[:80]},
                              {"text": mut[:500].decode("utf-8", "replace"), "panic": rec.s("msg")}, replay)
                continue
            if rec.status == "OK":
                # still valid: generic span laws on whatever tree came out
                d = conv(read_sexpr(unx(rec["ast"])))
                problems = []
                span_checks(d, tok_bounds(rec), problems)
                if problems:
                    agg.violation({"kind": "span_law_broken", "what": re.sub(r"[0-9]+", "N", problems[0])[:70]},
                                  {"text": mut[:500].decode("utf-8", "replace"), "problems": problems[:5]}, replay)
                agg.count("mutant_still_parses")
                continue
            if rec.get("fam") != "parse":
                agg.count("mutant_lex_error")
                continue
            agg.count("mutant_syntax_error")
            agg.nontrivial.add(common.h64(mut))
            spans = rec.get("spans", "-")
            src, s, e, ln = spans.split(":")
            mtoks = set()
            t = rec.get("toks", "")
            for p in t.split(","):
                a, b = p.split(":")
                mtoks.add((int(a), int(b)))
            if (int(s), int(e)) not in mtoks:
                agg.violation({"kind": "syntax_error_not_at_a_token"},
                              {"text": mut[:500].decode("utf-8", "replace"), "span": [int(s), int(e)], "error": rec.s("dbg")[:200]}, replay)
    finally:
        srv.close()
    return agg


def corpus_shard(args):
    """Generic span laws on the real corpus + re-print stability for files the syntactic printer can express."""
    seed, files = args
    agg = Agg()
    srv = Server()
    try:
        for name, data in files:
            agg.evaluations += 1
            try:
                rec, line = parse_src(srv, data)
            except Crashed as ex:
                agg.inconc(ex.kind)
                continue
            if rec.status != "OK":
                continue
            try:
                d = conv(read_sexpr(unx(rec["ast"])))
                problems = []
                span_checks(d, tok_bounds(rec), problems)
            except RecursionError:
                agg.count("corpus_file_too_deep_for_the_python_side")
                continue
            if problems:
                agg.violation({"kind": "span_law_broken", "what": re.sub(r"[0-9]+", "N", problems[0])[:70]},
                              {"file": name, "problems": problems[:5]}, {"script": [line]})
            # print the parsed tree back (as a generator tree) and re-parse: must be equal
            try:
                tree = to_gen(d.t)
                text, _ = genast.render(tree, "min")
            except RecursionError:
                agg.count("corpus_file_too_deep_for_the_python_side")
                continue
            rec2, line2 = parse_src(srv, text)
            if rec2.status != "OK":
                agg.violation({"kind": "reprinted_corpus_tree_rejected"}, {"file": name, "text": text[:600].decode("utf-8", "replace"),
                                                                           "error": (rec2.s("dbg") or "")[:200]}, {"script": [line2]})
                continue
            d2 = conv(read_sexpr(unx(rec2["ast"])))
            if drop_style(genast.strip_parens(d2.t)) != drop_style(genast.strip_parens(d.t)):
                agg.violation({"kind": "reprint_not_stable"}, {"file": name, "text": text[:600].decode("utf-8", "replace")}, {"script": [line2]})
            agg.nontrivial.add(common.h64(name))
            agg.count("corpus_files_reprinted")
    finally:
        srv.close()
    return agg


def drop_style(t):
    """String literal style (text block vs quoted) is a choice of the re-printer, not of the tree."""
    if isinstance(t, list):
        return [drop_style(x) for x in t]
    if isinstance(t, tuple):
        if t and t[0] == "str" and len(t) == 3:
            return ("str", t[1], None)
        return tuple(drop_style(x) for x in t)
    return t


def to_gen(t):
    """Dump tuple form -> generator tree (numbers need literal text, strings a style)."""
    if isinstance(t, list):
        return [to_gen(x) for x in t]
    if not isinstance(t, tuple):
        return t
    k = t[0] if t else None
    if k == "num":
        return ("num", t[1] + ("e%d" % t[2] if t[2] else ""))
    if k == "str":
        if t[2] == "tb" and t[1].endswith("\n") and all(ln == "" or ln[0] not in " \t" for ln in t[1][:-1].split("\n")) \
                and t[1][:-1].split("\n")[0] != "":
            return ("str", t[1], "tb")
        return ("str", t[1], "dq")
    if k == "sname":
        return ("sname", t[1], "dq")
    return tuple(to_gen(x) for x in t)


# ------------------------------------------------------------------------------------------------
# giant nodes: a generated program in which one gap between two tokens is widened to ~2^25 / ~2^26 bytes (blanks or a
# comment), so that the nodes around the gap have extents at the limits of the span encoding.  Expected dump = the dump
# of the same program with a one-byte gap, every offset behind the gap shifted.

_EXT = re.compile(r"@([0-9]+):([0-9]+)")


def shift_dump(dump, g, delta):
    def f(m):
        a, b = int(m.group(1)), int(m.group(2))
        return "@%d:%d" % (a + delta if a > g else a, b + delta if b > g else b)
    return _EXT.sub(f, dump)


def giant_shard(args):
    seed, n = args
    rng = random.Random(seed)
    agg = Agg()
    srv = Server(mem_gib=6)
    try:
        for i in range(n):
            g = genast.SynGen(rng, rng.choice([5, 10, 20]))
            tree = genast.dangling_else_safe(g.expr())
            text = genast.render(tree, "full" if rng.random() < 0.3 else "min")[0]
            # candidate gaps: single spaces outside string literals (the printer's 'min' mode separates tokens by one space)
            rec0, _ = parse_src(srv, text)
            if rec0.status != "OK" or "toks" not in rec0:
                continue
            toks = [tuple(map(int, t.split(":"))) for t in rec0["toks"].split(",")]
            gaps = [toks[j][1] for j in range(len(toks) - 1) if toks[j + 1][0] == toks[j][1] + 1 and text[toks[j][1]:toks[j][1] + 1] == b" "]
            if not gaps:
                continue
            gpos = rng.choice(gaps)
            base = rng.choice([2 ** 25, 2 ** 26, 2 ** 25, 3 * 2 ** 24])
            N = base + rng.randint(-40, 40)
            kind = rng.choice(["blanks", "blanks", "block_comment", "newlines"])
            if kind == "block_comment" and text[gpos - 1:gpos] in (b"/", b"|"):
                kind = "blanks"       # '/' + '/*...' would read as a line comment: not the same program
            if kind == "block_comment":
                filler_small, parts_mid = b" ", [b"/*", (N - 4, b"c"), b"*/"]
            elif kind == "newlines":
                filler_small, parts_mid = b" ", [(N, b"\n")]
            else:
                filler_small, parts_mid = b" ", [(N, b" ")]
            segs = ["x" + text[:gpos].hex()] if gpos else []
            for p_ in parts_mid:
                segs.append("r%d:%s" % (p_[0], p_[1].hex()) if isinstance(p_, tuple) else "x" + p_.hex())
            segs.append("x" + text[gpos + 1:].hex())
            line = "PARSE " + "+".join(segs)
            agg.evaluations += 1
            desc = {"family": "giant_node", "program": text[:300].decode("utf-8", "replace"), "gap_at": gpos, "gap_length": N, "filler": kind}
            replay = {"script": [line]}
            try:
                rec = srv.request([line], timeout=300)[0]
            except Crashed as e:
                if e.kind in ("timeout", "oom"):
                    agg.inconc(e.kind)
                    continue
                agg.violation({"kind": "parser_crash", "family": "giant_node"}, dict(desc, crash=e.detail[-300:]), replay)
                continue
            if rec.status == "PANIC":
                agg.violation({"kind": "parser_panic", "family": "giant_node", "msg": re.sub(r"[0-9]+", "N", rec.s("msg") or "")[:80]},
                              dict(desc, panic=rec.s("msg"), loc=rec.s("loc")), replay)
                continue
            if rec.status != "OK" or "ast" not in rec:
                agg.violation({"kind": "valid_program_rejected_with_wide_gap"}, dict(desc, got=rec.raw[:300]), replay)
                continue
            want = shift_dump(unhx(rec0["ast"]).decode("utf-8"), gpos, N - 1)
            got = unhx(rec["ast"]).decode("utf-8")
            if got != want:
                k = next((j for j, (a, b) in enumerate(zip(want, got)) if a != b), 0)
                agg.violation({"kind": "node_extents_differ_with_wide_gap"},
                              dict(desc, expected=want[max(0, k - 60):k + 80], got=got[max(0, k - 60):k + 80]), replay)
                continue
            wt = ",".join("%d:%d" % (a + (N - 1 if a > gpos else 0), b + (N - 1 if b > gpos else 0)) for a, b in toks)
            if rec.get("toks") != wt:
                agg.violation({"kind": "token_extents_differ_with_wide_gap"}, desc, replay)
                continue
            # how many nodes have an extent in the critical range?
            crit = sum(1 for m in _EXT.finditer(got) if int(m.group(2)) - int(m.group(1)) >= 2 ** 25 - 64)
            agg.count("giant_nodes_checked", crit)
            agg.count("giant_programs_ok")
            agg.add("giant_gap_kinds", (kind, base))
            agg.nontrivial.add(common.h64("giant", text, str(gpos), str(N)))
            if len(agg.samples) < 1:
                agg.sample({"leg": "giant_node", "program": text[:200].decode("utf-8", "replace"), "gap_at": gpos, "gap_length": N,
                            "nodes_with_extent_over_2^25": crit})
    finally:
        srv.close()
    return agg


def run(tier, seed):
    t0 = time.time()
    quick = tier != "thorough"
    total = Agg()
    n = 6000 if quick else 400_000
    for a in common.pmap(random_shard, [(seed * 701 + i, n // 32) for i in range(32)]):
        total.merge(a)
    ops = list(BIN_PREC)
    combos = [(a,) for a in ops] + [(a, b) for a in ops for b in ops] + [(a, b, c) for a in ops for b in ops for c in ops]
    if quick:
        rng = random.Random(seed)
        combos = combos[:len(ops) + len(ops) ** 2] + rng.sample(combos[len(ops) + len(ops) ** 2:], 1500)
    for a in common.pmap(ops_shard, [(seed + i, combos[i::32]) for i in range(32)]):
        total.merge(a)
    for a in common.pmap(errors_shard, [(seed * 709 + i, 250 if quick else 12000) for i in range(16)]):
        total.merge(a)
    for a in common.pmap(giant_shard, [(seed * 719 + i, 4 if quick else 60) for i in range(8)], nproc=8):
        total.merge(a)
    files = genbytes.corpus()
    for a in common.pmap(corpus_shard, [(seed, files[i::16]) for i in range(16)]):
        total.merge(a)
    rule = ("random syntax trees over every node kind (19 binary operators on 10 levels, 4 unary, call/index/12 slice "
            "layouts/field/object extension/in super/tailstrict, object bodies with all member kinds, both "
            "comprehension forms, local/if/function/assert/error/import) printed with minimal parentheses (own "
            "precedence table), fully parenthesised and noisy (redundant parentheses, whitespace, comments): all three "
            "must parse to the generator's tree; every node's span == the printed extent, child within parent, on "
            "token boundaries; all ordered pairs (and triples: all in thorough, 1500 in quick) of binary operators, "
            "plain and with unary/postfix decorated operands, grouped as the table says and equal to the fully "
            "parenthesised form; token-level mutants: a syntax error points at a token; every ui-tests file: span laws "
            "+ print-back/re-parse equality; giant nodes: generated programs with one inter-token gap widened to 2^25+-40 / 2^26+-40 / "
            "3*2^24+-40 bytes of blanks, newlines or a comment (run-length encoded input): the dump must equal the one-byte-gap dump "
            "with every offset behind the gap shifted. distinct_nontrivial = distinct trees/operator texts/mutants decided.")
    return common.finish(PROP, tier, seed, total, rule, t0,
                         assumptions=["the printer's precedence table is my reading of the specification (independent of the parser)"])

"""C11 - a program state's answers do not depend on its past requests."""
import itertools
import random
import re
import time

import common
from common import Agg, Crashed, Server, hx

PROP = "C11"

LIB = """
{
  v: 200,
  deep(n): if n == 0 then 0 else 1 + self.deep(n - 1),
  shared: self.deep(100) * 2,
  shared2: [self.shared, self.shared + 1],
  use(n): self.deep(n) + self.shared,
  boom: error 'boom',
  boom_obj: {a: 1, b: error 'boom-field'},
  o: {assert self.x > 1 : 'inv', x: 1},
  o2: {assert self.y > 1 : 'inv2', x: 1, y: self.x},
  ok_obj: {assert self.x > 0 : 'never', x: 1},
  cyc: {a: self.b, b: self.a},
  big: std.range(1, 1500),
  mk(n): [{i: i, s: std.toString(i)} for i in std.range(1, n)],
  lazy: [1, error 'lazy'],
  ext: std.extVar('e'),
  extcode: std.extVar('c'),
  counter: std.length(self.big),
  sorted: std.sort(self.big, function(x) -x)[0],
  fmt: '%05d|%s' % [self.v, self.counter],
  nested: {l1: {l2: {l3: $.shared + 1}}},
  fn: function(a, b=self.v) a + b,
  trace: std.trace('lib-trace', 7),
  depthy: std.foldl(function(a, i) [a], std.range(1, 60), []),
}
"""

# requests: (name, source).  `L` is bound to the shared library value.
REQS = [
    ("v", "L.v"),
    ("shared", "L.shared"),
    ("shared2", "L.shared2"),
    ("use100", "L.use(100)"),
    ("use350", "L.use(350)"),
    ("use600", "L.use(600)"),
    ("deep450", "L.deep(450)"),
    ("boom", "L.boom"),
    ("boom_obj_a", "L.boom_obj.a"),
    ("boom_obj", "L.boom_obj"),
    ("o_x", "L.o.x"),
    ("o", "L.o"),
    ("o2_x", "L.o2.x"),
    ("ok_obj", "L.ok_obj.x"),
    ("cyc", "L.cyc.a"),
    ("cyc_obj", "L.cyc"),
    ("lazy0", "L.lazy[0]"),
    ("lazy", "L.lazy"),
    ("lazy_len", "std.length(L.lazy)"),
    ("mk", "std.length(L.mk(400))"),
    ("ext", "L.ext"),
    ("extcode", "L.extcode"),
    ("counter", "L.counter"),
    ("sorted", "L.sorted"),
    ("fmt", "L.fmt"),
    ("nested", "L.nested"),
    ("fn", "L.fn(1)"),
    ("fn_named", "L.fn(b=2, a=1)"),
    ("fn_bad", "L.fn()"),
    ("trace", "L.trace"),
    ("override", "(L {v: 1}).fmt"),
    ("depthy", "std.length(std.toString(L.depthy))"),
    ("depthy_eq", "L.depthy == L.depthy"),
    ("whole_small", "[L.v, L.counter, L.ok_obj]"),
    ("typeerr", "L.v + L.ok_obj"),
    ("unknown_field", "L.nope"),
    ("own_error", "error 'own ' + L.v"),
    ("own_recursion", "local f(n) = 1 + f(n + 1); f(L.v)"),
    ("parse_err", "L.v +"),
    ("analyze_err", "L.v + undefined_variable"),
    ("own_cycle", "local a = b + L.v, b = a; a"),
    ("assert_expr", "assert L.v == 0 : 'assert-expr'; 1"),
]
STACKS = [None, 30, 120, 250, 500, 2000]


def request_lines(slot, via, src, stack, manifest=True, again=False, gc=None):
    """Lines of one request against the state (library already installed)."""
    L = []
    if stack is not None:
        L.append(f"STACK {stack}")
    if via == "ext":
        body = "local L = std.extVar('lib'); " + src
    else:
        body = "local L = import 'lib.libsonnet'; " + src
    L.append(f"LOAD {slot} {hx('<req%d>' % slot)} {hx(body)} 1")
    L.append(f"EVAL {slot} {slot} 1")
    if manifest:
        L.append(f"MANI {slot} 0")
    if again:
        L.append(f"EVAL {slot} {1000 + slot} 1")
    if gc:
        L.append("GC")
    return L


def setup_lines(via):
    L = ["NEW", f"VFILE {hx('lib.libsonnet')} {hx(LIB)}"]
    L.append(f"STRTHUNK 900 {hx('ext-string')}")
    L.append(f"EXTVAR {hx('e')} 900")
    L.append(f"LOAD 901 {hx('<ext:c>')} {hx('{k: 1 + 1}')} 1")
    L.append(f"EXTVAR {hx('c')} 901")
    L.append(f"LOAD 902 {hx('lib-as-ext')} {hx(LIB)} 1")
    L.append(f"EXTVAR {hx('lib')} 902")
    return L


def reduce_rec(r):
    """The part of a record that must not depend on history (span ids / source indexes do)."""
    d = {"status": r.status}
    # std.trace output is not part of the comparison: a memoised value is (rightly, C04) not traced again
    for k in ("kind", "fam", "walk", "out", "nonfinite", "stack"):
        if k in r:
            d[k] = r[k]
    if "msg" in r:
        d["msg"] = r["msg"]
    if "spans" in r and r["spans"] != "-":
        # positions inside their own source are history independent; the source index is not
        d["spans"] = ",".join(":".join(p.split(":")[1:]) for p in r["spans"].split(","))
    return d


def run_history(agg, srv, srv2, hist, via):
    """hist: list of (req_index, stack, manifest, again, gc).  Returns True if decidable."""
    shared = setup_lines(via)
    offsets = []
    for i, (ri, stack, mani, again, gc) in enumerate(hist):
        lines = request_lines(i, via, REQS[ri][1], stack, mani, again, gc)
        offsets.append((len(shared), len(lines)))
        shared += lines
    agg.evaluations += 1
    try:
        recs = srv.request(shared, timeout=300)
    except Crashed as e:
        if e.kind in ("timeout", "oom"):
            agg.inconc(e.kind)
            return False
        agg.violation({"kind": "crash_in_shared_state"}, {"history": describe(hist), "crash": e.detail[-300:]}, {"script": shared})
        return False
    for r in recs:
        if r.status == "PANIC":
            agg.violation({"kind": "panic_in_shared_state", "msg": re.sub(r"[0-9]+", "N", r.s("msg") or "")[:80]},
                          {"history": describe(hist), "panic": r.s("msg"), "loc": r.s("loc")}, {"script": shared})
            return False
        if r.status == "HERR":
            raise common.Broken("harness error: " + (r.s("msg") or ""))
    # determinism: same history in a second process (different hash seeds) must answer byte-identically
    try:
        recs2 = srv2.request(shared, timeout=300)
        if [r.raw for r in recs] != [r.raw for r in recs2]:
            k = next(i for i, (a, b) in enumerate(zip(recs, recs2)) if a.raw != b.raw)
            agg.violation({"kind": "nondeterministic_across_processes"},
                          {"history": describe(hist), "op": shared[k - 0][:200] if k < len(shared) else "?",
                           "a": recs[k].raw[:300], "b": recs2[k].raw[:300]}, {"script": shared})
        agg.count("determinism_replays")
    except Crashed:
        agg.inconc("replay_crash")
    # fresh-state model: each request alone
    stack_in_effect = None
    for i, (ri, stack, mani, again, gc) in enumerate(hist):
        if stack is not None:
            stack_in_effect = stack
        fresh = setup_lines(via) + request_lines(i, via, REQS[ri][1], stack_in_effect, mani, False, None)
        agg.evaluations += 1
        try:
            frecs = srv.request(fresh, timeout=120)
        except Crashed as e:
            agg.inconc(e.kind)
            continue
        off, n = offsets[i]
        got = recs[off:off + n]
        # align: strip the STACK op records from both
        g = [r for r, l in zip(got, shared[off:off + n]) if not l.startswith(("STACK", "GC"))]
        flines = fresh[len(setup_lines(via)):]
        f = [r for r, l in zip(frecs[len(setup_lines(via)):], flines) if not l.startswith(("STACK", "GC"))]
        names = [l.split(" ")[0] for l in shared[off:off + n] if not l.startswith(("STACK", "GC"))]
        for j, fr in enumerate(f):
            gr = g[j]
            if gr.status == "OK" and fr.get("kind") == "StackOverflow":
                # work memoised by an earlier request made this one cheaper than on a fresh state: the frame
                # limit is a resource bound, getting the (checked below on other histories) value instead of
                # the resource error is not a changed answer
                agg.count("memoised_work_avoided_stack_overflow")
                break
            if reduce_rec(gr) != reduce_rec(fr):
                agg.violation({"kind": "answer_depends_on_history", "request": REQS[ri][0], "op": names[j],
                               "shared": gr.get("kind", gr.status), "fresh": fr.get("kind", fr.status)},
                              {"history": describe(hist), "position": i, "request": REQS[ri][1],
                               "stack_in_effect": stack_in_effect, "shared_state_answer": reduce_rec(gr),
                               "fresh_state_answer": reduce_rec(fr)}, {"script": shared})
                break
        if again:
            # the same thunk evaluated again must give the same outcome as the first time
            first = g[1]
            second = g[-1]
            a, b = reduce_rec(first), reduce_rec(second)
            if a != b:
                agg.violation({"kind": "reevaluation_differs", "request": REQS[ri][0],
                               "first": first.get("kind", first.status), "second": second.get("kind", second.status)},
                              {"history": describe(hist), "position": i, "request": REQS[ri][1], "first": a, "second": b},
                              {"script": shared})
        agg.add("request_outcomes", (REQS[ri][0], g[1].get("kind", g[1].status) if len(g) > 1 else g[0].status))
    agg.nontrivial.add(common.h64(via, repr(hist)))
    return True


def describe(hist):
    return [{"req": REQS[ri][1], "stack": st, "manifest": m, "again": a, "gc": g} for (ri, st, m, a, g) in hist]


def shard(args):
    seed, n, perms = args
    rng = random.Random(seed)
    agg = Agg()
    srv = Server()
    srv2 = Server()
    try:
        hists = []
        for p in perms:
            hists.append(("import", [(ri, st, True, False, None) for (ri, st) in p]))
        for _ in range(n):
            k = rng.randint(1, 8)
            h = []
            for _ in range(k):
                h.append((rng.randrange(len(REQS)), rng.choice(STACKS), rng.random() < 0.8, rng.random() < 0.3,
                          rng.random() < 0.2))
            hists.append((rng.choice(["import", "ext"]), h))
        for via, h in hists:
            run_history(agg, srv, srv2, h, via)
            if len(agg.samples) < 2:
                agg.sample({"via": via, "history": describe(h)})
    finally:
        srv.close()
        srv2.close()
    return agg


def run(tier, seed):
    t0 = time.time()
    quick = tier != "thorough"
    total = Agg()
    rng = random.Random(seed)
    # all permutations of small pools that contain the failure-then-reuse shapes
    name_to_i = {n: i for i, (n, _) in enumerate(REQS)}
    pools = [
        [("shared", 120), ("shared", 500), ("use350", None), ("v", None)],
        [("o_x", None), ("o_x", None), ("ok_obj", None), ("o", None)],
        [("boom", None), ("boom", None), ("boom_obj_a", None), ("boom_obj", None)],
        [("use600", None), ("deep450", 250), ("shared2", 2000), ("nested", None)],
        [("cyc", None), ("cyc_obj", None), ("lazy", None), ("lazy0", None)],
    ]
    perms = []
    for pool in pools:
        for p in itertools.permutations(pool):
            perms.append([(name_to_i[n], st) for (n, st) in p])
    if quick:
        perms = rng.sample(perms, 60)
    n = 4000 if quick else 200000
    shards = [(seed * 401 + i, n // 32, perms[i::32]) for i in range(32)]
    for a in common.pmap(shard, shards):
        total.merge(a)
    rule = (f"histories of 1..8 requests drawn from {len(REQS)} request programs that share one library value (through "
            "an import and through an ext var) on one long-lived Program: values, explicit errors, assertion failures, "
            "stack overflows whose occurrence depends on the max_stack in effect, cycles, lazily failing elements, "
            "re-evaluation of the same thunk, explicit gc and set_max_stack between requests; all permutations of 5 "
            "four-request pools built around failure-then-reuse shapes; each response compared with the response of "
            "the same request on a fresh state (value walk, manifest text, error kind/message/in-source spans, trace "
            "messages, stack-trace length); every history replayed in a second process for byte-identical records. "
            "distinct_nontrivial = distinct histories decided.")
    return common.finish(PROP, tier, seed, total, rule, t0,
                         assumptions=["'fresh state' = same library, ext vars and max_stack in effect, no earlier requests"])

"""C11 - a program state's answers do not depend on its past requests."""
import itertools
import random
import re
import time

import common
from common import Agg, Crashed, Server, hx

PROP = "C11"

LIB = """
{
  v: 200,
  deep(n): if n == 0 then 0 else 1 + self.deep(n - 1),
  shared: self.deep(100) * 2,
  shared2: [self.shared, self.shared + 1],
  use(n): self.deep(n) + self.shared,
  boom: error 'boom',
  boom_obj: {a: 1, b: error 'boom-field'},
  o: {assert self.x > 1 : 'inv', x: 1},
  o2: {assert self.y > 1 : 'inv2', x: 1, y: self.x},
  ok_obj: {assert self.x > 0 : 'never', x: 1},
  cyc: {a: self.b, b: self.a},
  big: std.range(1, 1500),
  mk(n): [{i: i, s: std.toString(i)} for i in std.range(1, n)],
  lazy: [1, error 'lazy'],
  ext: std.extVar('e'),
  extcode: std.extVar('c'),
  counter: std.length(self.big),
  sorted: std.sort(self.big, function(x) -x)[0],
  fmt: '%05d|%s' % [self.v, self.counter],
  nested: {l1: {l2: {l3: $.shared + 1}}},
  fn: function(a, b=self.v) a + b,
  trace: std.trace('lib-trace', 7),
  depthy: std.foldl(function(a, i) [a], std.range(1, 60), []),
  inh: {assert self.n > 0 : 'inh'} + {n: 0},
  inh2: {assert self.n > 0 : 'inh2', n: 1} + {m: 1} + {n: self.m - 1},
  inh_err: {assert error 'inh-err'} + {n: 0},
  inh_deep: {assert $.deep(self.n) > 0 : 'inh-deep'} + {n: 300},
  inh_ok: {assert self.n > 0 : 'never2'} + {n: 2},
  counted: {a: 1, b: 2, c: 3, count: std.length(std.objectFields(self)), has_a: std.objectHas(self, 'a'),
            names: std.objectFields(self), total: std.foldl(function(acc, k) acc + (if k == 'a' || k == 'b' || k == 'c' then self[k] else 0), std.objectFields(self), 0)},
  late: {base: 10, derived: self.base + 1, twice: self.derived * 2, me: std.length(self)},
  arr_of_obj: [{i: i, sq: self.i * self.i} for i in [1, 2, 3]],
}
"""

# requests: (name, source).  `L` is bound to the shared library value.
REQS = [
    ("v", "L.v"),
    ("shared", "L.shared"),
    ("shared2", "L.shared2"),
    ("use100", "L.use(100)"),
    ("use350", "L.use(350)"),
    ("use600", "L.use(600)"),
    ("deep450", "L.deep(450)"),
    ("boom", "L.boom"),
    ("boom_obj_a", "L.boom_obj.a"),
    ("boom_obj", "L.boom_obj"),
    ("o_x", "L.o.x"),
    ("o", "L.o"),
    ("o2_x", "L.o2.x"),
    ("ok_obj", "L.ok_obj.x"),
    ("cyc", "L.cyc.a"),
    ("cyc_obj", "L.cyc"),
    ("lazy0", "L.lazy[0]"),
    ("lazy", "L.lazy"),
    ("lazy_len", "std.length(L.lazy)"),
    ("mk", "std.length(L.mk(400))"),
    ("ext", "L.ext"),
    ("extcode", "L.extcode"),
    ("counter", "L.counter"),
    ("sorted", "L.sorted"),
    ("fmt", "L.fmt"),
    ("nested", "L.nested"),
    ("fn", "L.fn(1)"),
    ("fn_named", "L.fn(b=2, a=1)"),
    ("fn_bad", "L.fn()"),
    ("trace", "L.trace"),
    ("override", "(L {v: 1}).fmt"),
    ("depthy", "std.length(std.toString(L.depthy))"),
    ("depthy_eq", "L.depthy == L.depthy"),
    ("whole_small", "[L.v, L.counter, L.ok_obj]"),
    ("typeerr", "L.v + L.ok_obj"),
    ("unknown_field", "L.nope"),
    ("own_error", "error 'own ' + L.v"),
    ("own_recursion", "local f(n) = 1 + f(n + 1); f(L.v)"),
    ("parse_err", "L.v +"),
    ("analyze_err", "L.v + undefined_variable"),
    ("own_cycle", "local a = b + L.v, b = a; a"),
    ("assert_expr", "assert L.v == 0 : 'assert-expr'; 1"),
    ("inh_n", "L.inh.n"),
    ("inh", "L.inh"),
    ("inh_eq", "L.inh == L.inh"),
    ("inh_str", "std.toString(L.inh)"),
    ("inh2_m", "L.inh2.m"),
    ("inh2", "L.inh2"),
    ("inh_err", "L.inh_err.n"),
    ("inh_deep", "L.inh_deep.n"),
    ("inh_ok", "L.inh_ok"),
    ("inh_ext", "(L.inh {n: 5}).n"),
    ("inh_ok_ext", "(L.inh_ok {n: -1}).n"),
    ("counted", "L.counted"),
    ("counted_count", "L.counted.count"),
    ("counted_total", "L.counted.total"),
    ("counted_rm", "std.objectRemoveKey(L.counted, 'a')"),
    ("counted_rm_count", "std.objectRemoveKey(L.counted, 'a').count"),
    ("counted_rm_names", "std.objectRemoveKey(L.counted, 'b').names"),
    ("counted_rm_has", "std.objectRemoveKey(L.counted, 'a').has_a"),
    ("counted_rm_total", "std.objectRemoveKey(L.counted, 'c').total"),
    ("counted_rm_ext", "(std.objectRemoveKey(L.counted, 'a') + {z: 1}).count"),
    ("counted_ext", "(L.counted + {d: 4}).count"),
    ("counted_ext_names", "(L.counted {d:: 4}).names"),
    ("counted_patch", "std.mergePatch(L.counted, {a: null}).b"),
    ("counted_values", "std.objectValues(L.counted)"),
    ("counted_kv", "std.objectKeysValues(L.counted)[3]"),
    ("counted_mapkey", "std.mapWithKey(function(k, v) v, L.counted).count"),
    ("late", "L.late"),
    ("late_twice", "L.late.twice"),
    ("late_ext", "(L.late {base: 1}).twice"),
    ("late_ext_me", "(L.late {extra: 1}).me"),
    ("late_rm", "std.objectRemoveKey(L.late, 'twice')"),
    ("late_rm_me", "std.objectRemoveKey(L.late, 'base').me"),
    ("late_super", "(L.late {derived: super.derived + 100}).twice"),
    ("arr_of_obj", "L.arr_of_obj"),
    ("arr_of_obj_ext", "[o {i: 10} for o in L.arr_of_obj][1].sq"),
    ("arr_of_obj_rm", "[std.objectRemoveKey(o, 'i') for o in L.arr_of_obj][0]"),
    # field names that are computed at run time, next to requests that mention the same names literally: whether an earlier
    # request has already made the state know a string must not matter
    ("dyn_has", "std.objectHas(L.counted, 'abs' + 'ent')"),
    ("dyn_has_all", "std.objectHasAll(L.counted, 'abs' + 'ent')"),
    ("dyn_in", "('abs' + 'ent') in L.counted"),
    ("dyn_rm", "std.objectRemoveKey(L.counted, 'abs' + 'ent')"),
    ("dyn_rm_present", "std.objectRemoveKey(L.counted, 'a' + '')"),
    ("dyn_index", "L.counted['abs' + 'ent']"),
    ("dyn_get", "std.get(L.counted, 'abs' + 'ent', 7)"),
    ("dyn_insuper", "(L.counted + {q: ('abs' + 'ent') in super}).q"),
    ("dyn_superidx", "(L.counted + {q: super['abs' + 'ent']}).q"),
    ("dyn_superidx_nosuper", "local o = L.counted; {q: super['abs' + 'ent']}.q"),
    ("dyn_insuper_nosuper", "local o = L.counted; {q: ('abs' + 'ent') in super}.q"),
    ("dyn_superdot_nosuper", "local o = L.counted; {q: super.absent}.q"),
    ("dyn_field_def", "(L.counted + {['abs' + 'ent']: 5}).absent"),
    ("dyn_mergepatch", "std.mergePatch(L.counted, {['abs' + 'ent']: null})"),
    ("lit_absent", "local o = L.counted; {absent: 1}.absent"),
    ("lit_absent_str", "local o = L.counted; 'absent'"),
    ("lit_absent_field", "(L.counted + {absent: 9}).absent"),
    ("dyn_format", "'%(abs)s' % (L.counted + {['a' + 'bs']: 1})"),
    ("dyn_extvar", "local o = L.counted; std.extVar('e' + '')"),
    ("dyn_extvar_missing", "local o = L.counted; std.extVar('no' + 'such')"),
    ("lit_nosuch", "local o = L.counted; 'nosuch'"),
    # eval_call requests: (function, positional arguments, named arguments), each loaded as its own thunk
    ("call_fn", ("L.fn", ["1"], [])),
    ("call_fn_named", ("L.fn", [], [("b", "2"), ("a", "L.v")])),
    ("call_fn_missing", ("L.fn", [], [])),
    ("call_fn_extra", ("L.fn", ["1", "2", "3"], [])),
    ("call_fn_unknown_name", ("L.fn", ["1"], [("zz", "2")])),
    ("call_fn_lazy_arg", ("function(a, b) a", ["L.v", "L.boom"], [])),
    ("call_fn_failing_arg", ("L.fn", ["L.boom"], [])),
    ("call_deep", ("L.deep", ["300"], [])),
    ("call_deep_too", ("L.deep", ["450"], [])),
    ("call_use", ("L.use", ["L.counter - 1400"], [])),
    ("call_mk", ("function(n) std.length(L.mk(n))", ["200"], [])),
    ("call_not_a_function", ("L.v", ["1"], [])),
    ("call_closure_over_shared", ("local s = L.shared; function(x) s + x", ["1"], [])),
    ("call_method_self", ("L.counted { f(k):: self[k] }.f", ["'count'"], [])),
    ("call_builtin", ("std.length", ["L.big"], [])),
    ("call_returns_object", ("function(o) o {n: 5}", ["L.inh"], [])),
    ("call_assert_obj_arg", ("function(o) o.n", ["L.inh"], [])),
]
STACKS = [None, 30, 120, 250, 500, 2000]


def _src_text(src):
    if isinstance(src, tuple):
        return " ".join([src[0]] + list(src[1]) + [a for _, a in src[2]])
    return src


def _clusters():
    groups = {}
    REQS_T = [(n, _src_text(x)) for n, x in REQS]
    return _clusters_of(REQS_T)


def _clusters_of(REQS):
    groups = {}
    for i, (_, src) in enumerate(REQS):
        for m in set(re.findall(r"L\.([a-z_0-9]+)", src)):
            groups.setdefault(m, []).append(i)
    out = [v for v in groups.values() if len(v) >= 3]
    # fields that share state through self.shared / self.deep
    out.append([i for i, (_, src) in enumerate(REQS) if re.search(r"L\.(shared|use|deep|nested|inh_deep)", src)])
    out.append([i for i, (_, src) in enumerate(REQS) if re.search(r"L\.inh", src)])
    return out


CLUSTERS = _clusters()


def request_lines(slot, via, src, stack, manifest=True, again=False, gc=None):
    """Lines of one request against the state (library already installed).  src is a source text, or
    (function source, [positional argument sources], [(name, argument source)]) for an eval_call request."""
    L = []
    if stack is not None:
        L.append(f"STACK {stack}")
    pre = "local L = std.extVar('lib'); " if via == "ext" else "local L = import 'lib.libsonnet'; "
    if isinstance(src, tuple):
        fsrc, pos, named = src
        L.append(f"LOAD {slot} {hx('<req%d>' % slot)} {hx(pre + fsrc)} 1")
        slots = []
        for k, a in enumerate(list(pos) + [a for _, a in named]):
            aslot = 3000 + slot * 10 + k
            L.append(f"LOAD {aslot} {hx('<arg%d.%d>' % (slot, k))} {hx(pre + a)} 1")
            slots.append(aslot)
        call = "CALL %d %%d 1 %d %s %d %s" % (slot, len(pos), " ".join(str(x) for x in slots[:len(pos)]), len(named),
                                             " ".join("%s %d" % (hx(n), slots[len(pos) + k]) for k, (n, _) in enumerate(named)))
        call = re.sub(r" +", " ", call).strip()
        L.append(call % slot)
        if manifest:
            L.append(f"MANI {slot} 0")
        if again:
            L.append(call % (1000 + slot))
        if gc:
            L.append("GC")
        return L
    body = pre + src
    L.append(f"LOAD {slot} {hx('<req%d>' % slot)} {hx(body)} 1")
    L.append(f"EVAL {slot} {slot} 1")
    if manifest:
        L.append(f"MANI {slot} 0")
    if again:
        L.append(f"EVAL {slot} {1000 + slot} 1")
    if gc:
        L.append("GC")
    return L


def setup_lines(via, lib=None):
    lib = LIB if lib is None else lib
    L = ["NEW", f"VFILE {hx('lib.libsonnet')} {hx(lib)}"]
    L.append(f"STRTHUNK 900 {hx('ext-string')}")
    L.append(f"EXTVAR {hx('e')} 900")
    L.append(f"LOAD 901 {hx('<ext:c>')} {hx('{k: 1 + 1}')} 1")
    L.append(f"EXTVAR {hx('c')} 901")
    L.append(f"LOAD 902 {hx('lib-as-ext')} {hx(lib)} 1")
    L.append(f"EXTVAR {hx('lib')} 902")
    return L


def reduce_rec(r):
    """The part of a record that must not depend on history (span ids / source indexes do)."""
    d = {"status": r.status}
    # std.trace output is not part of the comparison: a memoised value is (rightly, C04) not traced again
    for k in ("kind", "fam", "walk", "out", "nonfinite", "stack"):
        if k in r:
            d[k] = r[k]
    if "msg" in r:
        d["msg"] = r["msg"]
    if "spans" in r and r["spans"] != "-":
        # positions inside their own source are history independent; the source index is not
        d["spans"] = ",".join(":".join(p.split(":")[1:]) for p in r["spans"].split(","))
    return d


def run_history(agg, srv, srv2, hist, via, lib=None, reqs=None):
    """hist: list of (req_index, stack, manifest, again, gc).  Returns True if decidable."""
    REQS = globals()["REQS"] if reqs is None else reqs
    nsetup = len(setup_lines(via, lib))
    shared = setup_lines(via, lib)
    offsets = []
    for i, (ri, stack, mani, again, gc) in enumerate(hist):
        lines = request_lines(i, via, REQS[ri][1], stack, mani, again, gc)
        offsets.append((len(shared), len(lines)))
        shared += lines
    agg.evaluations += 1
    try:
        recs = srv.request(shared, timeout=300)
    except Crashed as e:
        if e.kind in ("timeout", "oom"):
            agg.inconc(e.kind)
            return False
        agg.violation({"kind": "crash_in_shared_state"}, {"history": describe(hist, REQS), "crash": e.detail[-300:]}, {"script": shared})
        return False
    for r in recs:
        if r.status == "PANIC":
            agg.violation({"kind": "panic_in_shared_state", "msg": re.sub(r"[0-9]+", "N", r.s("msg") or "")[:80]},
                          {"history": describe(hist, REQS), "panic": r.s("msg"), "loc": r.s("loc")}, {"script": shared})
            return False
        if r.status == "HERR":
            raise common.Broken("harness error: " + (r.s("msg") or ""))
    # determinism: same history in a second process (different hash seeds) must answer byte-identically
    try:
        recs2 = srv2.request(shared, timeout=300)
        if [r.raw for r in recs] != [r.raw for r in recs2]:
            k = next(i for i, (a, b) in enumerate(zip(recs, recs2)) if a.raw != b.raw)
            agg.violation({"kind": "nondeterministic_across_processes"},
                          {"history": describe(hist, REQS), "op": shared[k - 0][:200] if k < len(shared) else "?",
                           "a": recs[k].raw[:300], "b": recs2[k].raw[:300]}, {"script": shared})
        agg.count("determinism_replays")
    except Crashed:
        agg.inconc("replay_crash")
    # fresh-state model: each request alone
    stack_in_effect = None
    for i, (ri, stack, mani, again, gc) in enumerate(hist):
        if stack is not None:
            stack_in_effect = stack
        fresh = setup_lines(via, lib) + request_lines(i, via, REQS[ri][1], stack_in_effect, mani, False, None)
        agg.evaluations += 1
        try:
            frecs = srv.request(fresh, timeout=120)
        except Crashed as e:
            agg.inconc(e.kind)
            continue
        off, n = offsets[i]
        got = recs[off:off + n]
        # align: strip the STACK op records from both
        g = [r for r, l in zip(got, shared[off:off + n]) if not l.startswith(("STACK", "GC"))]
        flines = fresh[nsetup:]
        f = [r for r, l in zip(frecs[nsetup:], flines) if not l.startswith(("STACK", "GC"))]
        names = [l.split(" ")[0] for l in shared[off:off + n] if not l.startswith(("STACK", "GC"))]
        for j, fr in enumerate(f):
            gr = g[j]
            if gr.status == "OK" and fr.get("kind") == "StackOverflow":
                # work memoised by an earlier request made this one cheaper than on a fresh state: the frame
                # limit is a resource bound, getting the (checked below on other histories) value instead of
                # the resource error is not a changed answer
                agg.count("memoised_work_avoided_stack_overflow")
                break
            if reduce_rec(gr) != reduce_rec(fr):
                agg.violation({"kind": "answer_depends_on_history", "request": REQS[ri][0], "op": names[j],
                               "shared": gr.get("kind", gr.status), "fresh": fr.get("kind", fr.status)},
                              {"history": describe(hist, REQS), "position": i, "request": REQS[ri][1], "library": (lib or "")[:1200],
                               "stack_in_effect": stack_in_effect, "shared_state_answer": reduce_rec(gr),
                               "fresh_state_answer": reduce_rec(fr)}, {"script": shared})
                break
        if again:
            # the same thunk evaluated again must give the same outcome as the first time
            evs = [k for k, nm in enumerate(names) if nm in ("EVAL", "CALL")]
            first = g[evs[0]]
            second = g[evs[-1]]
            a, b = reduce_rec(first), reduce_rec(second)
            if a != b:
                agg.violation({"kind": "reevaluation_differs", "request": REQS[ri][0],
                               "first": first.get("kind", first.status), "second": second.get("kind", second.status)},
                              {"history": describe(hist, REQS), "position": i, "request": REQS[ri][1], "first": a, "second": b,
                               "library": (lib or "")[:1200]},
                              {"script": shared})
        if reqs is None:
            ev0 = next((k for k, nm in enumerate(names) if nm in ("EVAL", "CALL")), 0)
            agg.add("request_outcomes", (REQS[ri][0], g[ev0].get("kind", g[ev0].status) if len(g) > ev0 else g[0].status))
        else:
            agg.count("generated_lib_outcome:" + (g[1].get("kind", g[1].status) if len(g) > 1 else g[0].status))
    agg.nontrivial.add(common.h64(via, repr(hist), lib or ""))
    return True


def describe(hist, REQS=None):
    REQS = globals()["REQS"] if REQS is None else REQS
    return [{"req": REQS[ri][1], "stack": st, "manifest": m, "again": a, "gc": g} for (ri, st, m, a, g) in hist]


def shard(args):
    seed, n, perms = args
    rng = random.Random(seed)
    agg = Agg()
    srv = Server()
    srv2 = Server()
    try:
        hists = []
        for p in perms:
            hists.append(("import", [(ri, st, True, False, None) for (ri, st) in p]))
        for _ in range(n):
            k = rng.randint(1, 8)
            h = []
            # half of the histories stay within one cluster of requests that touch the same library field
            cluster = rng.choice(CLUSTERS) if rng.random() < 0.5 else None
            for _ in range(k):
                ri = rng.choice(cluster) if cluster and rng.random() < 0.85 else rng.randrange(len(REQS))
                h.append((ri, rng.choice(STACKS), rng.random() < 0.8, rng.random() < 0.3,
                          rng.random() < 0.2))
            hists.append((rng.choice(["import", "ext"]), h))
        for via, h in hists:
            run_history(agg, srv, srv2, h, via)
            if len(agg.samples) < 2:
                agg.sample({"via": via, "history": describe(h)})
    finally:
        srv.close()
        srv2.close()
    return agg


# requests against a GENERATED library object: observations, derivations (+, +:, objectRemoveKey, mergePatch, ...) and
# observations of the derived objects, in any order
GEN_REQS = [(src, src) for src in [
    "L", "L.a", "L.b", "L.c", "L.o", "L.s", "L.l", "std.objectFields(L)", "std.objectFieldsAll(L)", "L == L", "std.toString(L)",
    "std.length(L)", "L + {}", "{} + L", "L {a: 100}", "(L {a: 100}).b", "(L {a: 100}).c", "(L {b: -7}).a", "L {a+: 1}", "L {b:: 1}",
    "L {zz: self.a}", "(L {zz: self.a}).zz", "L {c: super.c}", "L + L", "(L + L).a", "L.o + {}", "L {o+: {q: 1}}",
    "std.objectRemoveKey(L, 'a')", "std.objectRemoveKey(L, 'b').a", "std.objectRemoveKey(L, 'a').b", "std.objectRemoveKey(L, 'c') + {c: 1}",
    "std.mergePatch(L, {a: null})", "std.mergePatch(L, {o: {q: 1}})", "std.mapWithKey(function(k, v) v, L)", "std.objectValues(L)",
    "std.objectKeysValues(L)", "std.prune(L)", "std.get(L, 'a', 0)", "std.objectHas(L, 'b')", "std.objectHasAll(L, 's')", "'a' in L",
    "{[k]: L[k] for k in std.objectFields(L)}", "[L[k] for k in std.objectFields(L)]", "L {assert self.a >= 0 : 'ra'}",
    "(L {assert self.a >= 0 : 'ra'}).b", "std.foldl(function(acc, k) acc + {[k]: L[k]}, std.objectFields(L), {})",
    "std.manifestJsonEx(L, ' ')", "std.manifestYamlDoc(L)", "[L.a, L.b, L.c]", "L.m(1)", "L {a: error 'ov'}.b", "std.objectFields(L {n1: 1})",
    "local M = L {a: 5}; [M.a, M.b]", "local M = L; M == L", "std.assertEqual(L, L)", "std.length(std.objectFields(L + {extra: 1}))",
]]


def generated_shard(args):
    seed, n = args
    import genast
    import genprog
    rng = random.Random(seed)
    agg = Agg()
    srv = Server()
    srv2 = Server()
    try:
        for _ in range(n):
            g = genprog.Gen(rng, depth=rng.choice([2, 3, 3]), obj_heavy=True, allow_remove_key=True)
            lib = genast.render(g.O(g.depth, [], False), "min")[0].decode("utf-8")
            for _h in range(3):
                h = [(rng.randrange(len(GEN_REQS)), rng.choice([None, None, 2000, 60]), rng.random() < 0.85, rng.random() < 0.25,
                      rng.random() < 0.2) for _ in range(rng.randint(2, 6))]
                run_history(agg, srv, srv2, h, rng.choice(["import", "ext"]), lib=lib, reqs=GEN_REQS)
            if len(agg.samples) < 3:
                agg.sample({"generated_library": lib[:300]})
    finally:
        srv.close()
        srv2.close()
    return agg


# ------------------------------------------------------------------------------------------------
# matrix library: (how a delayed computation arises) x (how it fails), and failing objects behind wrappers that add
# nothing (+ {}, {} +, objext, ...) held by containers; requests observe them shallowly, deeply, again, in any order

def matrix_library():
    fails = {
        "err": "error 'm-err'", "assert": "assert false : 'm-assert'; 1", "type": "1 + {}", "nofield": "{}.nope", "div": "1 / 0",
        "oob": "[][0]", "native": "std.parseInt('zz')", "overflow": "deep(450)", "cycle": "local a = b, b = a; a",
        "nested_lazy": "[1, error 'm-nested']", "badcall": "(function(a, b) a)(1)", "ok": "7",
        "cmpfn_alias": "local fs = [0, std.length, 1]; fs == fs", "cmpfn_obj_alias": "local o = {a: 1, f: std.length}; o == o",
        "cmpfn_late": "local fs = [0, [1, function(x) x]]; [fs == fs, 2]", "order_alias": "local a = [1, null]; a < a",
        "equal_alias_ok": "local a = [1, [2, {b: 3}]]; [a == a, a <= a]",
    }
    fns = {
        "arity_more": "function(a, b) a", "arity_none": "function() 1", "body_err": "function(x) error 'm-fn-err'",
        "body_type": "function(x) x.nope", "default_err": "function(x, y=error 'm-default') y", "default_ok": "function(x, y=x) [x, y]",
        "builtin_arity": "std.manifestJsonEx", "builtin_type": "std.parseInt", "overflow": "function(x) deep(450)", "ok": "function(x) [x]",
        "named_only": "function(x, y) x",
    }
    fields, reqs, clusters = [], [], []

    def add(name, src, rq):
        fields.append("  %s: %s," % (name, src))
        start = len(reqs)
        for r in rq:
            reqs.append((name + ":" + r[:24], r.replace("@", "L." + name)))
        clusters.append(list(range(start, len(reqs))))
    for fk, f in fails.items():
        add("e_field_" + fk, "{v: %s, w: 1}" % f, ["@.v", "@.w", "@", "std.length(@)", "@ == @"])
        add("e_elem_" + fk, "[%s, 1]" % f, ["@[0]", "@[1]", "@", "std.length(@)"])
        add("e_local_" + fk, "{local l = %s, v: l, w: 1}" % f, ["@.v", "@.w", "@"])
        add("e_plus_" + fk, "{v: 1, w: 1} + {v+: %s}" % f, ["@.v", "@.w", "@", "std.objectFields(@)"])
        add("e_plus_base_" + fk, "{v: %s, w: 1} + {v+: 1}" % f, ["@.v", "@.w", "@"])
        add("e_comp_" + fk, "[%s for i in [1, 2]]" % f, ["@[0]", "@[1]", "std.length(@)", "@"])
        add("e_objcomp_" + fk, "{[k]: %s for k in ['v', 'w']}" % f, ["@.v", "@.w", "std.length(@)", "@"])
        add("e_default_" + fk, "function(x=%s) x" % f, ["@()", "@(1)"])
        add("e_assertmsg_" + fk, "{assert self.w > 1 : %s, w: 1}" % f, ["@.w", "@"])
    for nk, fn in fns.items():
        add("c_map_" + nk, "std.map(%s, [1, 2])" % fn, ["@[0]", "@[1]", "std.length(@)", "@"])
        add("c_mapidx_" + nk, "std.mapWithIndex(%s, [1, 2])" % fn, ["@[0]", "std.length(@)", "@"])
        add("c_mapkey_" + nk, "std.mapWithKey(%s, {v: 1, w: 2})" % fn, ["@.v", "std.length(@)", "@", "std.objectFields(@)"])
        add("c_filtermap_" + nk, "std.filterMap(function(x) true, %s, [1, 2])" % fn, ["@[0]", "std.length(@)", "@"])
        add("c_makearray_" + nk, "std.makeArray(2, %s)" % fn, ["@[0]", "std.length(@)", "@"])
        add("c_flatmap_" + nk, "std.flatMap(%s, [1, 2])" % fn, ["@", "std.length(@)"])
        add("c_filter_" + nk, "std.filter(%s, [1, 2])" % fn, ["@", "std.length(@)"])
        add("c_sortkey_" + nk, "std.sort([2, 1], %s)" % fn, ["@", "@[0]"])
        add("c_foldl_" + nk, "std.foldl(%s, [1, 2], 0)" % fn, ["@"])
    # operations that fail on operands which are themselves memoised fields of the shared object (the operands survive the
    # failed request, partly forced)
    memo = ("{fs:: [0, std.length, 1], o:: {a: 1, f: std.length, z: 2}, nested:: [0, [1, function(x) x], 2], un:: [1, null, 2], "
            "mixed:: [1, 'a'], deep:: [[1, [2, error 'm-memo-deep']], 3], "
            "eq: self.fs == self.fs, ne: self.fs != self.fs, eq_o: self.o == self.o, eq_n: self.nested == self.nested, "
            "equals: std.equals(self.fs, self.fs), aeq: std.assertEqual(self.fs, self.fs), wrapped: [self.fs] == [self.fs], "
            "lt: self.un < self.un, le: self.un <= self.un, cmp: std.__compare(self.un, self.un), lt_m: self.mixed < self.mixed, "
            "eq_deep: self.deep == self.deep, add: self.fs + self.o, str: std.toString(self.nested), sort: std.sort(self.un), "
            "len: std.length(self.fs) + std.length(self.nested), ok: self.un == self.un}")
    add("memo_ops", memo, ["@.eq", "@.ne", "@.eq_o", "@.eq_n", "@.equals", "@.aeq", "@.wrapped", "@.lt", "@.le", "@.cmp", "@.lt_m",
                           "@.eq_deep", "@.add", "@.str", "@.sort", "@.len", "@.ok", "@"])
    objs = {
        "field_err": "{x: 1, bad: error 'm-inh'}", "assert": "{assert false : 'm-a-inh', x: 1}", "overflow": "{x: 1, bad: deep(450)}",
        "nested": "{x: 1, bad: [1, {q: error 'm-deep-inh'}]}", "hidden_only": "{x: 1, bad:: error 'm-hidden-never'}",
        "assert_late": "{assert self.x > 1 : 'm-late', x: 1}", "ok": "{x: 1, y: [1, {z: 2}]}",
    }
    wraps = {"id": "%s", "plus_empty": "%s + {}", "empty_plus": "{} + %s", "objext_empty": "%s {}", "plus_local": "%s + {local z = 1}",
             "plus_assert": "%s + {assert true}", "plus_other": "%s + {y2: 2}", "rm_other": "std.objectRemoveKey(%s + {q: 1}, 'q')",
             "plus_hidden": "%s + {hh:: 1}", "twice_empty": "%s + {} + {}", "in_local": "local t = %s; t + {}"}
    holders = {"obj": ("{inner: %s, n: 1}", "@.inner"), "arr": ("[%s, 1]", "@[0]"), "obj_arr": ("{inner: [%s], n: 1}", "@.inner[0]"),
               "deep": ("{a: {b: %s}, n: 1}", "@.a.b")}
    for ok, o in objs.items():
        for wk, w in wraps.items():
            for hk, (h, path) in holders.items():
                inner = path
                add("h_%s_%s_%s" % (ok, wk, hk), h % ("(" + w % o + ")"),
                    ["std.length(%s)" % inner, "std.objectHas(%s, 'x')" % inner, "%s.x" % inner, "std.type(%s)" % inner,
                     "std.objectFields(%s)" % inner, "std.length(@)", "@", inner, "std.toString(@)", "@ == @",
                     "std.manifestJsonEx(@, ' ')", "std.objectFieldsAll(%s)" % inner, "'bad' in %s" % inner])
    lib = "local deep(n) = if n == 0 then 0 else 1 + deep(n - 1);\n{\n" + "\n".join(fields) + "\n}\n"
    return lib, reqs, clusters


MATRIX_LIB, MATRIX_REQS, MATRIX_CLUSTERS = matrix_library()


def matrix_shard(args):
    seed, n = args
    rng = random.Random(seed)
    agg = Agg()
    srv = Server()
    srv2 = Server()
    try:
        for i in range(n):
            cluster = MATRIX_CLUSTERS[(seed * 7919 + i * 104729) % len(MATRIX_CLUSTERS)] if i % 2 == 0 else rng.choice(MATRIX_CLUSTERS)
            if i % 8 == 3:
                # the large clusters (many operations over the same memoised operands) need more than their share of histories
                cluster = rng.choice([c for c in MATRIX_CLUSTERS if len(c) >= 15])
            h = [(rng.choice(cluster), rng.choice([None, None, None, 120, 2000]), rng.random() < 0.7, rng.random() < 0.4, rng.random() < 0.2)
                 for _ in range(rng.randint(2, 5))]
            if run_history(agg, srv, srv2, h, rng.choice(["import", "ext"]), lib=MATRIX_LIB, reqs=MATRIX_REQS):
                agg.add("matrix_fields", MATRIX_REQS[cluster[0]][0].split(":")[0])
            if len(agg.samples) < 1:
                agg.sample({"leg": "matrix", "history": describe(h, MATRIX_REQS)})
    finally:
        srv.close()
        srv2.close()
    return agg


# ------------------------------------------------------------------------------------------------
# the same through rsjsonnet_front::Session with real files: its caches (loaded files, imported text / bytes) are part
# of the long-lived state

SESSION_FILES = {
    "lib.libsonnet": b"{v: 1, boom: error 'lib-boom', t: importstr 'text.txt', b: importbin 'blob.bin', bs: importstr 'blob.bin', nested: import 'sub/n.libsonnet'}",
    "blob.bin": b"\x01\x00\xffA\xc3",
    "blob_utf8.bin": "\u00e9\u20ac\U0001f600".encode("utf-8"),
    "text.txt": "h\u00e9llo\n".encode("utf-8"),
    "sub/n.libsonnet": b"{up: import '../lib.libsonnet', w: 2, t: importstr '../text.txt'}",
    "bad.libsonnet": b"{a: ",
    "code.libsonnet": b"local x = std.trace('code-loaded', 3); {x: x, y: x + 1}",
}
SESSION_REQS = [
    "importstr 'blob.bin'", "importbin 'blob.bin'", "std.length(importstr 'blob.bin')", "std.length(importbin 'blob.bin')",
    "importbin 'blob_utf8.bin'", "importstr 'blob_utf8.bin'", "importstr 'text.txt'", "importbin 'text.txt'",
    "(import 'lib.libsonnet').v", "(import 'lib.libsonnet').boom", "(import 'lib.libsonnet').b", "(import 'lib.libsonnet').bs",
    "(import 'lib.libsonnet').t", "(import 'sub/n.libsonnet').up.v", "(import 'sub/n.libsonnet').t", "import 'bad.libsonnet'",
    "importstr 'missing.txt'", "importbin 'missing.bin'", "(import 'sub/../lib.libsonnet').nested.w", "(import './lib.libsonnet').nested.up.b",
    "importstr 'lib.libsonnet'", "importbin 'code.libsonnet'", "(import 'code.libsonnet').y", "importstr 'code.libsonnet'",
    "importstr 'sub/../blob.bin'", "importbin './blob.bin'", "[importstr 'blob.bin', importbin 'blob.bin']", "[importbin 'blob.bin', importstr 'blob.bin']",
    "import 'lib.libsonnet'", "importstr 'sub'", "import 'text.txt'",
]


def session_files_shard(args):
    seed, n = args
    import os
    import shutil
    import tempfile
    rng = random.Random(seed)
    agg = Agg()
    srv = Server()
    os.makedirs(common.SCRATCH, exist_ok=True)
    d = tempfile.mkdtemp(dir=common.SCRATCH, prefix="c11sess")
    try:
        for rel, data in SESSION_FILES.items():
            pth = os.path.join(d, rel)
            os.makedirs(os.path.dirname(pth), exist_ok=True)
            with open(pth, "wb") as f:
                f.write(data)
        for i, src in enumerate(SESSION_REQS):
            with open(os.path.join(d, "req%02d.jsonnet" % i), "w") as f:
                f.write(src)

        def req_lines(slot, ri, again):
            L = ["LOADFILE %d %s" % (slot, hx(os.path.join(d, "req%02d.jsonnet" % ri))), "EVAL %d %d 1" % (slot, slot), "MANI %d 0" % slot]
            if again:
                L += ["EVAL %d %d 1" % (slot, 500 + slot)]
            return L

        def reduce(r):
            return (r.status, r.get("walk"), r.get("out"), r.get("fam"))
        for _ in range(n):
            hist = [(rng.randrange(len(SESSION_REQS)), rng.random() < 0.2, rng.random() < 0.2) for _ in range(rng.randint(2, 6))]
            shared = ["SESS 0 -"]
            offs = []
            for i, (ri, again, gc) in enumerate(hist):
                L = req_lines(i, ri, again) + (["GC"] if gc else [])
                offs.append((len(shared), len(L)))
                shared += L
            agg.evaluations += 1
            try:
                recs = srv.request(shared, timeout=120)
            except Crashed as e:
                if e.kind in ("timeout", "oom"):
                    agg.inconc(e.kind)
                    continue
                agg.violation({"kind": "crash_in_shared_session"}, {"history": [SESSION_REQS[h[0]] for h in hist], "crash": e.detail[-300:]}, {"script": shared})
                continue
            if any(r.status == "PANIC" for r in recs):
                r = [r for r in recs if r.status == "PANIC"][0]
                agg.violation({"kind": "panic_in_shared_session", "msg": re.sub(r"[0-9]+", "N", r.s("msg") or "")[:80]},
                              {"history": [SESSION_REQS[h[0]] for h in hist], "panic": r.s("msg")}, {"script": shared})
                continue
            ok = True
            for i, (ri, again, gc) in enumerate(hist):
                fresh = ["SESS 0 -"] + req_lines(i, ri, False)
                agg.evaluations += 1
                try:
                    frecs = srv.request(fresh, timeout=120)
                except Crashed as e:
                    agg.inconc(e.kind)
                    ok = False
                    break
                off, ln = offs[i]
                got = [reduce(r) for r in recs[off:off + 3]]
                want = [reduce(r) for r in frecs[1:4]]
                if got != want:
                    k = next(j for j in range(3) if got[j] != want[j])
                    agg.violation({"kind": "session_answer_depends_on_history", "request": SESSION_REQS[ri][:40], "op": ["LOADFILE", "EVAL", "MANI"][k]},
                                  {"history": [SESSION_REQS[h[0]] for h in hist], "position": i, "request": SESSION_REQS[ri],
                                   "shared_session": [str(x)[:200] for x in got[k]], "fresh_session": [str(x)[:200] for x in want[k]]}, {"script": shared})
                    ok = False
                    break
                if again and reduce(recs[off + 3])[:2] != got[1][:2]:
                    agg.violation({"kind": "session_reevaluation_differs", "request": SESSION_REQS[ri][:40]},
                                  {"history": [SESSION_REQS[h[0]] for h in hist], "position": i}, {"script": shared})
                    ok = False
                    break
                agg.add("session_request_outcomes", (SESSION_REQS[ri][:30], got[1][0]))
            if ok:
                agg.count("session_histories_ok")
                agg.nontrivial.add(common.h64("sess", repr(hist)))
            if len(agg.samples) < 1:
                agg.sample({"leg": "session_files", "history": [SESSION_REQS[h[0]] for h in hist]})
    finally:
        srv.close()
        shutil.rmtree(d, ignore_errors=True)
    return agg


def run(tier, seed):
    t0 = time.time()
    quick = tier != "thorough"
    total = Agg()
    rng = random.Random(seed)
    # all permutations of small pools that contain the failure-then-reuse shapes
    name_to_i = {n: i for i, (n, _) in enumerate(REQS)}
    pools = [
        [("shared", 120), ("shared", 500), ("use350", None), ("v", None)],
        [("o_x", None), ("o_x", None), ("ok_obj", None), ("o", None)],
        [("boom", None), ("boom", None), ("boom_obj_a", None), ("boom_obj", None)],
        [("use600", None), ("deep450", 250), ("shared2", 2000), ("nested", None)],
        [("cyc", None), ("cyc_obj", None), ("lazy", None), ("lazy0", None)],
        [("inh_n", None), ("inh", None), ("inh_n", None), ("inh_ext", None)],
        [("inh_deep", 120), ("inh_deep", None), ("inh_err", None), ("inh_err", None)],
        [("counted_count", None), ("counted_rm_count", None), ("counted_ext", None), ("counted", None)],
        [("late", None), ("late_rm_me", None), ("late_ext_me", None), ("late_twice", None)],
    ]
    perms = []
    for pool in pools:
        for p in itertools.permutations(pool):
            perms.append([(name_to_i[n], st) for (n, st) in p])
    if quick:
        perms = rng.sample(perms, 60)
    n = 4000 if quick else 200000
    shards = [(seed * 401 + i, n // 32, perms[i::32]) for i in range(32)]
    for a in common.pmap(shard, shards):
        total.merge(a)
    ng = 640 if quick else 40000
    for a in common.pmap(generated_shard, [(seed * 769 + i, ng // 32) for i in range(32)]):
        total.merge(a)
    nm = 1920 if quick else 40000
    for a in common.pmap(matrix_shard, [(seed * 773 + i, nm // 32) for i in range(32)]):
        total.merge(a)
    total.count("matrix_library_fields", len(MATRIX_CLUSTERS))
    ns = 1600 if quick else 30000
    for a in common.pmap(session_files_shard, [(seed * 787 + i, ns // 16) for i in range(16)]):
        total.merge(a)
    rule = (f"histories of 1..8 requests drawn from {len(REQS)} request programs that share one library value (through "
            "an import and through an ext var) on one long-lived Program: values, explicit errors, assertion failures, "
            "stack overflows whose occurrence depends on the max_stack in effect, cycles, lazily failing elements, "
            "re-evaluation of the same thunk, explicit gc and set_max_stack between requests; all permutations of 9 "
            "four-request pools built around failure-then-reuse shapes; plus GENERATED library objects (typed "
            "generator: inheritance, asserts, hidden fields, object locals, self/super) queried by histories drawn "
            f"from {len(GEN_REQS)} observation/derivation requests (+, +:, objectRemoveKey, mergePatch, mapWithKey, "
            "comprehensions over the fields, ...); a matrix library of " + str(len(MATRIX_CLUSTERS)) + " fields - every way a delayed "
            "computation arises (field, element, object local, +: over and under, comprehensions, default argument, assert message; "
            "lazily created calls of map/mapWithIndex/mapWithKey/filterMap/makeArray/flatMap/filter/sort key/foldl) x every way it "
            "fails (explicit error, assert, type, unknown field, division, index, native, limit-dependent overflow, cycle, nested "
            "lazy error, arity too many/too few, failing/ok defaults, builtin arity/type), and failing objects behind wrappers that add "
            "nothing (+ {}, {} +, objext, local, assert true, removed key, hidden field) inside 4 holders - observed shallowly, deeply, "
            "again, with gc and limit changes, in random orders; histories through rsjsonnet_front::Session over real files (import / "
            "importstr / importbin of the same files - valid and invalid UTF-8 - in every order, relative spellings, failing loads) "
            "against a fresh Session per request; each response compared with the response of "
            "the same request on a fresh state (value walk, manifest text, error kind/message/in-source spans, stack-trace "
            "length; std.trace output is not compared); every history replayed in a second process for byte-identical records. "
            "distinct_nontrivial = distinct histories decided.")
    return common.finish(PROP, tier, seed, total, rule, t0,
                         assumptions=["'fresh state' = same library, ext vars and max_stack in effect, no earlier requests"])

"""C08 - == is a structural equivalence and < a total order, mutually consistent."""
import itertools
import re
import json
import random
import time

import common
from common import Agg, Ev, jstr, jnum, jval
from tablecheck import Err, Any, run_cases

PROP = "C08"


class Fn:
    """Model of a function value."""

    def __repr__(self):
        return "<fn>"


def pool():
    """(jsonnet source, model value).  Model: JSON-like Python value (visible fields only) or Fn()."""
    P = []

    def add(src, model):
        P.append((src, model))
    nums = [0.0, -0.0, 1.0, -1.0, 0.5, 1.0000000000000002, 0.9999999999999999, 2.0 ** 53, 2.0 ** 53 + 2, 2.0 ** 53 - 1,
            1e308, -1e308, 1.7976931348623157e308, 5e-324, -5e-324, 2.0, 3.0, 10.0, 9.0, 100.0, 1e-7, 255.0, 256.0]
    for x in nums:
        add(jnum(x), x)
    add("1 + 1", 2.0)
    add("0 * -1", -0.0)
    strs = ["", "a", "b", "aa", "ab", "a\x00", "A", "\u00e9", "\u00e9", "\u20ac", "\U0001f600", "\uffff", "\U00010000", "",
            "z", "a ", " a", "abc", "abd", "ab\U0001f600", "10", "9", "[1]", "null", "true", "\ud7ff"]
    for s in strs:
        add(jstr(s), s)
    add('"a" + "b"', "ab")
    add("std.char(97)", "a")
    add("null", None)
    add("true", True)
    add("false", False)
    add("1 == 1", True)
    arrays = [[], [1.0], [1.0, 2.0], [1.0, 2.0, 3.0], [2.0], [1.0, 3.0], [0.0], [-0.0], [[1.0]], [[1.0], [2.0]], [[1.0, 2.0]], [[]],
              [[], []], ["a"], ["a", "b"], ["b"], [1.0, "a"], ["a", 1.0], [None], [True], [1.0, None], [[1.0], 1.0], [1.0, [1.0]],
              [{"a": 1.0}], [1.0, 2.0, 3.0, 4.0], ["ab", "c"], ["a", "bc"], [1e308], [[[[1.0]]]], [[[[2.0]]]], [0.5, 0.5]]
    for a in arrays:
        add(jval(a), a)
    add("[1] + [2]", [1.0, 2.0])
    add("std.range(1, 3)", [1.0, 2.0, 3.0])
    add("[x for x in [1, 2]]", [1.0, 2.0])
    add("std.map(function(x) x, [1, 2])", [1.0, 2.0])
    add("std.makeArray(2, function(i) i + 1)", [1.0, 2.0])
    objs = [({}, "{}"), ({"a": 1.0}, "{a: 1}"), ({"a": 1.0}, "{a: 1, h:: 2}"), ({"a": 1.0}, "{a: 1, h:: error 'hidden'}"),
            ({"a": 1.0}, "{a: 0} + {a: 1}"), ({"a": 1.0}, "{a:: 0} + {a::: 1}"), ({}, "{a:: 1}"), ({"a": 2.0}, "{a: 2}"),
            ({"b": 1.0}, "{b: 1}"), ({"a": 1.0, "b": 2.0}, "{a: 1, b: 2}"), ({"a": 1.0, "b": 2.0}, "{b: 2, a: 1}"),
            ({"a": 1.0, "b": 2.0}, "{a: 1} + {b: 2}"), ({"a": 1.0, "b": 2.0}, "{a: 1, b: self.a + 1}"),
            ({"a": {"b": []}}, "{a: {b: []}}"), ({"a": {"b": [None]}}, "{a: {b: [null]}}"), ({"a": None}, "{a: null}"),
            ({"a": -0.0}, "{a: -0}"), ({"a": 0.0}, "{a: 0}"), ({"": 1.0}, "{'': 1}"), ({"a": "1"}, "{a: '1'}"),
            ({"a": 1.0}, "std.objectRemoveKey({a: 1, b: 2}, 'b')"), ({"a": 1.0}, "{[k]: 1 for k in ['a']}"),
            ({"a": [1.0, 2.0]}, "{a: [1, 2]}"), ({"a": [1.0, 2.0]}, "{a: std.range(1, 2)}"),
            ({"a": 1.0}, "{local x = 1, a: x}"), ({"a": 1.0, "c": 3.0}, "{a: 1, b:: 2, c: 3}")]
    for model, src in objs:
        add(src, model)
    add("function(x) x", Fn())
    add("std.length", Fn())
    add("function() 1", Fn())
    add("[function(x) x]", [Fn()])
    add("{f: function(x) x}", {"f": Fn()})
    add("{f(x): x}", {"f": Fn()})
    return P


def contains_fn(v):
    if isinstance(v, Fn):
        return True
    if isinstance(v, list):
        return any(contains_fn(x) for x in v)
    if isinstance(v, dict):
        return any(contains_fn(x) for x in v.values())
    return False


def typeof(v):
    if v is None:
        return "null"
    if isinstance(v, bool):
        return "boolean"
    if isinstance(v, float):
        return "number"
    if isinstance(v, str):
        return "string"
    if isinstance(v, list):
        return "array"
    if isinstance(v, dict):
        return "object"
    return "function"


class Unordered(Exception):
    pass


class FnCompare(Exception):
    pass


def model_equal(a, b):
    ta, tb = typeof(a), typeof(b)
    if ta != tb:
        return False
    if ta == "function":
        raise FnCompare()
    if ta == "array":
        if len(a) != len(b):
            return False
        for x, y in zip(a, b):
            if not model_equal(x, y):
                return False
        return True
    if ta == "object":
        if sorted(a.keys()) != sorted(b.keys()):
            return False
        for k in sorted(a.keys()):
            if not model_equal(a[k], b[k]):
                return False
        return True
    return a == b


def model_compare(a, b):
    ta, tb = typeof(a), typeof(b)
    if ta != tb or ta in ("null", "boolean", "object", "function"):
        raise Unordered()
    if ta == "number":
        return (a > b) - (a < b)
    if ta == "string":
        ka, kb = [ord(c) for c in a], [ord(c) for c in b]
        return (ka > kb) - (ka < kb)
    for x, y in zip(a, b):
        c = model_compare(x, y)
        if c:
            return c
    return (len(a) > len(b)) - (len(a) < len(b))


FORMS = ["locals", "inline", "rhs_literal", "lhs_literal", "params", "elements", "fields"]
_AB = re.compile(r"(?<![\w.])([ab])(?![\w(])")


def _subst(expr, sa=None, sb=None):
    """Replaces the operand names in the (fixed, literal-free) comparison expression in ONE pass."""
    def f(m):
        if m.group(1) == "a":
            return "(" + sa + ")" if sa is not None else "a"
        return "(" + sb + ")" if sb is not None else "b"
    return _AB.sub(f, expr)


def in_form(form, sa, sb, expr):
    """The same comparison expression over operands that reach the operator in different ways: through locals, written
    inline (literal operands), one of each, as parameters, as elements / fields of a container, or as one aliased value."""
    if form == "locals":
        return "local a = %s, b = %s; %s" % (sa, sb, expr)
    if form == "inline":
        return _subst(expr, sa, sb)
    if form == "rhs_literal":
        return "local a = %s; %s" % (sa, _subst(expr, None, sb))
    if form == "lhs_literal":
        return "local b = %s; %s" % (sb, _subst(expr, sa, None))
    if form == "params":
        return "(function(a, b) %s)(%s, %s)" % (expr, sa, sb)
    if form == "elements":
        return "local t = [%s, %s]; local a = t[0], b = t[1]; %s" % (sa, sb, expr)
    if form == "fields":
        return "local t = {x: %s, y:: %s}; local a = t.x, b = t.y; %s" % (sa, sb, expr)
    if form == "alias":
        return "local a = %s, b = a; %s" % (sa, expr)
    raise AssertionError(form)


def pair_cases(pairs, seed=0):
    for k, ((sa, ma), (sb, mb)) in enumerate(pairs):
        for name, expr, exp in pair_exprs(sa, ma, sb, mb):
            forms = [FORMS[(k + seed) % len(FORMS)]]
            if k % 3 == 0 and forms[0] != "locals":
                forms.append("locals")
            if sa == sb:
                forms.append("alias")
            for form in forms:
                yield (name, in_form(form, sa, sb, expr), exp)


def pair_exprs(sa, ma, sb, mb):
    if True:
        head = ""
        # equality vector
        try:
            e = model_equal(ma, mb)
            # equality of a value with itself only defined on function-free values
            ra = True if not contains_fn(ma) else None
            rb = True if not contains_fn(mb) else None
            if ra and rb:
                yield ("eq_vector", head + "[a == b, a != b, std.equals(a, b), b == a, a == a, b == b, std.assertEqual(a, a)]",
                       [e, not e, e, e, True, True, True])
            else:
                yield ("eq_vector_fn", head + "[a == b, a != b, std.equals(a, b), b == a]", [e, not e, e, e])
        except FnCompare:
            yield ("eq_functions", head + "a == b", Err())
            yield ("ne_functions", head + "a != b", Err())
        if e_ok(ma, mb):
            yield ("assertEqual", head + "std.assertEqual(a, b)", True if model_equal(ma, mb) else Err(("AssertEqualFailed",)))
        # order vector
        try:
            c = model_compare(ma, mb)
            vec = [c < 0, c <= 0, c > 0, c >= 0, float(c)]
            src = head + "[a < b, a <= b, a > b, a >= b, std.__compare(a, b)]"
            if isinstance(ma, list):
                src = head + ("[a < b, a <= b, a > b, a >= b, std.__compare(a, b), std.__compare_array(a, b), "
                              "std.__array_less(a, b), std.__array_less_or_equal(a, b), std.__array_greater(a, b), "
                              "std.__array_greater_or_equal(a, b)]")
                vec = vec + [float(c), c < 0, c <= 0, c > 0, c >= 0]
            yield ("order_vector", src, vec)
            # exactly one of <, ==, > (== via the equality model)
            if not contains_fn(ma) and not contains_fn(mb):
                yield ("trichotomy", head + "[a < b, a == b, a > b]",
                       lambda r, c=c: None if r.cls == "value" and r.value == [c < 0, c == 0, c > 0] and sum(map(bool, r.value)) == 1
                       else "not exactly one of <, ==, > (%r)" % (r.value,))
        except Unordered:
            for op in ("<", "<=", ">", ">="):
                yield ("unordered", head + "a %s b" % op, Err())
            yield ("unordered_compare", head + "std.__compare(a, b)", Err())
            if isinstance(ma, list) and isinstance(mb, list):
                for fn in ("__compare_array", "__array_less", "__array_less_or_equal", "__array_greater", "__array_greater_or_equal"):
                    yield ("unordered_array_entry_points", head + "std.%s(a, b)" % fn, Err())


def e_ok(ma, mb):
    return not contains_fn(ma) and not contains_fn(mb)


def pairs_shard(args):
    seed, idx_pairs = args
    P = pool()
    agg = Agg()
    ev = Ev(agg)
    try:
        run_cases(agg, ev, pair_cases(((P[i], P[j]) for i, j in idx_pairs), seed))
        agg.add("pool_size", len(P))
    finally:
        ev.close()
    return agg


def triples_shard(args):
    seed, n = args
    rng = random.Random(seed)
    P = [(s, m) for (s, m) in pool() if not contains_fn(m)]
    agg = Agg()
    ev = Ev(agg)
    try:
        cases = []
        for _ in range(n):
            kind = rng.choice(["number", "string", "array", "any"])
            cand = [p for p in P if kind == "any" or typeof(p[1]) == kind]
            (sa, ma), (sb, mb), (sc, mc) = rng.choice(cand), rng.choice(cand), rng.choice(cand)
            head = "local a = %s, b = %s, c = %s; " % (sa, sb, sc)
            # transitivity of ==, and of <= where ordered, checked inside Jsonnet (independent of the model)
            cases.append(("eq_transitive", head + "!(a == b && b == c) || a == c", True))
            try:
                model_compare(ma, mb), model_compare(mb, mc), model_compare(ma, mc)
                cases.append(("order_transitive", head + "[!(a < b && b < c) || a < c, !(a <= b && b <= c) || a <= c, "
                              "!(a == b) || !(a < b || a > b)]", [True, True, True]))
            except Unordered:
                pass
        run_cases(agg, ev, cases)
    finally:
        ev.close()
    return agg


def gen_random_value(rng, depth=0):
    k = rng.random()
    if depth > 2:
        k *= 0.5
    if k < 0.25:
        return rng.choice([0.0, -0.0, 1.0, 2.0, 0.5, -1.0, 1e308, 2.0 ** 53, 2.0 ** 53 + 2])
    if k < 0.5:
        return rng.choice(["", "a", "ab", "b", "\u00e9", "\U0001f600", "aa", "a\U0001f600"])
    if k < 0.55:
        return rng.choice([None, True, False])
    if k < 0.8:
        return [gen_random_value(rng, depth + 1) for _ in range(rng.randint(0, 3))]
    return {rng.choice(["a", "b", "c", ""]): gen_random_value(rng, depth + 1) for _ in range(rng.randint(0, 3))}


def perturb(rng, v):
    """A value equal or nearly equal to v."""
    k = rng.random()
    if k < 0.4:
        return json.loads(json.dumps(v)) if not isinstance(v, float) else v
    if isinstance(v, list) and v:
        w = list(v)
        j = rng.randrange(len(w))
        if rng.random() < 0.5:
            w[j] = perturb(rng, w[j])
        elif rng.random() < 0.5:
            del w[j]
        else:
            w.append(gen_random_value(rng, 2))
        return w
    if isinstance(v, dict) and v:
        w = dict(v)
        key = rng.choice(list(w.keys()))
        if rng.random() < 0.6:
            w[key] = perturb(rng, w[key])
        else:
            del w[key]
        return w
    return gen_random_value(rng, 2)


def fancy_src(rng, v):
    """Source for v with hidden fields / inheritance so that 'visible fields only' is exercised."""
    if isinstance(v, dict):
        items = ["%s: %s" % (jstr(k), fancy_src(rng, x)) for k, x in v.items()]
        extra = rng.choice([[], ["hid:: 1"], ["hid:: error 'hidden'"], ["local q = 2"]])
        # hidden fields whose names are visible on the other side of a comparison (same key pool)
        for nm in ("a", "b", "c", ""):
            if nm not in v and rng.random() < 0.25:
                extra = extra + ["%s:: %s" % (jstr(nm), rng.choice(["1", "2", "'a'", "[]", "error 'hidden'"]))]
        src = "{" + ", ".join(items + extra) + "}"
        if rng.random() < 0.3 and v:
            k0 = next(iter(v))
            src = "({%s: 'overridden'} + %s)" % (jstr(k0), src)
        return src
    if isinstance(v, list):
        return "[" + ", ".join(fancy_src(rng, x) for x in v) + "]"
    return jval(v)


def random_shard(args):
    seed, n = args
    rng = random.Random(seed)
    agg = Agg()
    ev = Ev(agg)
    try:
        def gen():
            for _ in range(n):
                a = gen_random_value(rng)
                b = perturb(rng, a) if rng.random() < 0.7 else gen_random_value(rng)
                yield ((fancy_src(rng, a), a), (fancy_src(rng, b), b))
        run_cases(agg, ev, pair_cases(gen()))
        # lazily failing elements beyond the deciding position are never forced
        lazy = []
        for _ in range(n // 10):
            p = [float(rng.randint(0, 3)) for _ in range(rng.randint(0, 3))]
            x, y = float(rng.randint(0, 1)), float(rng.randint(2, 3))
            A = "[" + ", ".join([jnum(t) for t in p] + [jnum(x), "error 'forced-a'"]) + "]"
            B = "[" + ", ".join([jnum(t) for t in p] + [jnum(y), "error 'forced-b'"]) + "]"
            lazy.append(("lazy_tail_order", "local a = %s, b = %s; [a < b, a > b, a <= b, std.__compare(a, b)]" % (A, B),
                         [True, False, True, -1.0]))
            lazy.append(("lazy_tail_equal", "local a = %s, b = %s; [a == b, a != b]" % (A, B),
                         lambda r: None if r.cls == "value" and r.value == [False, True] else
                         ("note: == forced the tail (%s)" % r.kind if r.cls == "error" else "wrong answer %r" % (r.value,))
                         if not (r.cls == "error") else None))
            lazy.append(("different_length_equal", "local a = %s, b = %s; a == b" %
                         ("[1, error 'forced']", "[1, 2, 3]"),
                         lambda r: None if r.cls == "error" or r.value is False else "arrays of different length compare equal"))
        run_cases(agg, ev, lazy)
    finally:
        ev.close()
    return agg


def positional_shard(args):
    """Containers that differ (or do not differ: 0 / -0) in exactly one position - first, middle, last, nested - compared in
    every pairing and repeatedly within one program (so that the second comparison meets already evaluated elements)."""
    seed, part, nparts = args
    agg = Agg()
    ev = Ev(agg)
    xs = [(0.0, "0"), (-0.0, "-0"), (1.0, "1"), (1.0000000000000002, "1.0000000000000002"), ("a", "'a'"), ([0.0], "[0]"), ([-0.0], "[-0]"),
          ({"z": 0.0}, "{z: 0}"), ({"z": -0.0}, "{z: -0}")]
    items = []
    for xv, xs_ in xs:
        items.append(([xv, 1.0, 2.0], "[%s, 1, 2]" % xs_))
        items.append(([1.0, xv, 2.0], "[1, %s, 2]" % xs_))
        items.append(([1.0, 2.0, xv], "[1, 2, %s]" % xs_))
        items.append(([1.0, 7.0, xv, 8.0, 2.0], "[1, 7, %s, 8, 2]" % xs_))
        items.append(({"a": 1.0, "m": xv, "z": 2.0}, "{a: 1, m: %s, z: 2}" % xs_))
    pairs = [(i, j) for i in range(len(items)) for j in range(len(items))][part::nparts]
    try:
        def gen():
            for i, j in pairs:
                yield ((items[i][1], items[i][0]), (items[j][1], items[j][0]))
        run_cases(agg, ev, pair_cases(gen(), seed))
    finally:
        ev.close()
    return agg


def named_args_shard(args):
    """Every argument bound by name (reversed order, and positional-then-named) must give what the positional call gives:
    documented parameter names, driver/stdparams.py."""
    import stdparams
    from tablecheck import run_cases as _run_cases
    agg = Agg()
    ev = Ev(agg)
    try:
        _run_cases(agg, ev, stdparams.named_cases(['__compare', '__compare_array', '__array_less', '__array_greater', '__array_less_or_equal', '__array_greater_or_equal', 'equals', 'assertEqual']))
    finally:
        ev.close()
    return agg


def run(tier, seed):
    t0 = time.time()
    quick = tier != "thorough"
    total = Agg()
    for a in common.pmap(named_args_shard, [(seed,)]):
        total.merge(a)
    for a in common.pmap(positional_shard, [(seed, i, 16) for i in range(16)]):
        total.merge(a)
    P = pool()
    n = len(P)
    allpairs = [(i, j) for i in range(n) for j in range(n)]
    rng = random.Random(seed)
    if quick:
        idx = rng.sample(allpairs, 5000)
        exhaustive = False
    else:
        idx = allpairs
        exhaustive = True
    for a in common.pmap(pairs_shard, [(seed + i, idx[i::64]) for i in range(64)]):
        total.merge(a)
    for a in common.pmap(triples_shard, [(seed * 53 + i, 300 if quick else 20000) for i in range(16)]):
        total.merge(a)
    for a in common.pmap(random_shard, [(seed * 59 + i, 300 if quick else 20000) for i in range(16)]):
        total.merge(a)
    rule = (f"pairs from a {n}-value pool (numbers incl. +-0 and 2^53 neighbours, strings incl. astral/prefix pairs, "
            "nested arrays of differing lengths and mixed types, objects with hidden fields/inheritance/removeKey, "
            "functions) " + ("all ordered pairs" if exhaustive else "5000 sampled ordered pairs") +
            "; per pair an equality vector (== != std.equals symmetric reflexive assertEqual) and an order vector "
            "(< <= > >= __compare, __compare_array/__array_* for arrays) against a Python model of JSON equality and "
            "the spec's ordering, unordered pairs must error through every entry point (operators, __compare, __compare_array, __array_*); "
            "the operands reach the operators in rotating forms (locals, inline literals, literal on one side only, parameters, array "
            "elements, object fields, one aliased value for reflexive pairs); all pairs of 45 containers that differ (or, for 0 / -0, do not differ) in exactly one position - first, middle, last, "
            "nested; sampled triples for transitivity evaluated inside "
            "Jsonnet; random values with near-equal perturbations; lazily failing tails beyond the deciding "
            "position. documented parameter names: every argument bound by name (reversed order, and positional-then-named) gives what the positional call gives (driver/stdparams.py). distinct_nontrivial = distinct (family, source) programs compared.")
    return common.finish(PROP, tier, seed, total, rule, t0, extra={"pool": n, "all_pairs": exhaustive},
                         assumptions=["model: equality = same JSON value on visible fields, -0 == 0; order = numbers, strings by code point, arrays lexicographic"])

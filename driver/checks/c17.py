"""C17 - sorting and set functions meet their mathematical contracts."""
import itertools
import math
import random
import time

import common
from common import Agg, Ev, jval, jstr
from tablecheck import Err, Any, run_cases

PROP = "C17"

STR_KEYS = ["", "a", "aa", "ab", "b", "A", "\u00e9", "\u20ac", "\U0001f600", "a\U0001f600", "\uffff", "z", "a ", "a\u00e9"]


def gen_keys(rng, n, kind, distinct):
    if kind == "num":
        pool = [rng.choice([0.0, -0.0, 1.0, -1.0, 0.5, 2.0, 3.0, 1e308, -1e308, 5e-324, 10.0, 9.0, 100.0])
                for _ in range(distinct)] if rng.random() < 0.5 else [float(rng.randint(0, max(1, distinct))) for _ in range(distinct)]
    elif kind == "str":
        pool = [rng.choice(STR_KEYS) for _ in range(distinct)]
    else:
        pool = [[float(rng.randint(0, 2)) for _ in range(rng.randint(0, 3))] for _ in range(distinct)]
    return [rng.choice(pool) for _ in range(n)]


def keyfn(mode):
    if mode == "first":
        return "function(e) e[0]", (lambda e: e[0])
    if mode == "field":
        return "function(e) e.k", (lambda e: e["k"])
    if mode == "mod":
        return "function(e) e[0] % 3", (lambda e: math.fmod(e[0], 3))
    if mode == "len":
        return "function(e) std.length(e[0])", (lambda e: float(len(e[0])))
    if mode == "neg":
        return "function(e) -e[0]", (lambda e: -e[0])
    raise AssertionError(mode)


def uniq(a, key):
    out = []
    for e in a:
        if not out or key(out[-1]) != key(e):
            out.append(e)
    return out


def make_tagged(keys, mode):
    if mode == "field":
        return [{"k": k, "i": float(i)} for i, k in enumerate(keys)]
    return [[k, float(i)] for i, k in enumerate(keys)]


def length_for(rng, i, quick):
    k = rng.random()
    if k < 0.55:
        return i % 201            # every length 0..200 over the run
    if k < 0.8:
        return rng.choice([29, 30, 31, 32, 59, 60, 61, 62, 63, 64, 65, 90, 119, 120, 121, 127, 128, 129])
    return rng.choice([201, 250, 300, 499, 500, 501, 502, 600, 777, 1000, 1200] if not quick or rng.random() < 0.3
                      else [201, 300, 499, 500, 501, 600])


def gen_cases(rng, n, quick):
    for i in range(n):
        ln = length_for(rng, i, quick)
        kind = rng.choice(["num", "num", "str", "arr"])
        distinct = rng.choice([1, 2, 3, 5, max(1, ln // 3), max(1, ln)])
        keys = gen_keys(rng, ln, kind, distinct)
        modes = ["first", "field"]
        if kind == "num" and all(abs(k) < 1e15 and k == int(k) for k in keys):
            modes += ["mod", "neg"]
        if kind in ("str", "arr"):
            modes.append("len")
        mode = rng.choice(modes + ["identity"])
        if mode == "identity":
            arr = keys
            kj, kp = None, (lambda e: e)
            ksuffix = ""
        else:
            arr = make_tagged(keys, mode)
            kj, kp = keyfn(mode)
            ksuffix = ", " + kj
        A = jval(arr)
        fam = rng.randrange(9)
        strict = (mode == "identity" and kind == "num")
        tag = "%s/%s" % (kind, mode)
        if fam == 0:
            yield ("sort:" + tag, "std.sort(%s%s)" % (A, ksuffix), sorted(arr, key=kp))
        elif fam == 1:
            yield ("uniq:" + tag, "std.uniq(%s%s)" % (A, ksuffix), uniq(arr, kp))
        elif fam == 2:
            yield ("set:" + tag, "std.set(%s%s)" % (A, ksuffix), uniq(sorted(arr, key=kp), kp))
        elif fam == 3:
            yield ("set_eq_uniq_sort:" + tag, "local a = %s; std.set(a%s) == std.uniq(std.sort(a%s)%s)" % (A, ksuffix, ksuffix, ksuffix), True)
        elif fam == 4 and arr:
            yield ("minArray:" + tag, "std.minArray(%s%s)" % (A, ksuffix), min(arr, key=kp))
            yield ("maxArray:" + tag, "std.maxArray(%s%s)" % (A, ksuffix), max(arr, key=kp))
        elif fam == 4:
            yield ("minArray_empty", "std.minArray([], function(x) x, \"empty\")", "empty")
            yield ("maxArray_empty", "std.maxArray([], function(x) x, \"empty\")", "empty")
            yield ("minArray_empty_err", "std.minArray([])", Err())
        elif fam == 5:
            # sort is a permutation that is ordered: checked inside Jsonnet as well (independent of Python's order)
            src = ("local a = %s; local s = std.sort(a%s); local k = %s; "
                   "[std.length(s) == std.length(a), std.all([i == 0 || !(k(s[i]) < k(s[i - 1])) for i in std.range(0, std.length(s) - 1)])]"
                   % (A, ksuffix, kj or "function(e) e"))
            yield ("sort_ordered_perm:" + tag, src, [True, True])
        elif fam == 6:
            # set operations on sets
            keys2 = gen_keys(rng, rng.randint(0, 40), kind, distinct)
            arr2 = keys2 if mode == "identity" else make_tagged(keys2, mode)
            if mode != "identity":
                # shift tags so that elements of b are distinguishable from a's
                arr2 = [dict(e, i=e["i"] + 10000) if isinstance(e, dict) else [e[0], e[1] + 10000] for e in arr2]
            sa = uniq(sorted(arr, key=kp), kp)
            sb = uniq(sorted(arr2, key=kp), kp)
            kb = [kp(e) for e in sb]
            ka = [kp(e) for e in sa]
            SA, SB = jval(sa), jval(sb)
            # union: merge, a's element kept for equal keys
            union = sorted(sa + [e for e in sb if kp(e) not in ka], key=kp)
            yield ("setUnion:" + tag, "std.setUnion(%s, %s%s)" % (SA, SB, ksuffix), union)
            yield ("setInter:" + tag, "std.setInter(%s, %s%s)" % (SA, SB, ksuffix), [e for e in sa if kp(e) in kb])
            yield ("setDiff:" + tag, "std.setDiff(%s, %s%s)" % (SA, SB, ksuffix), [e for e in sa if kp(e) not in kb])
            if sb:
                x = rng.choice(sb + sa) if sa else rng.choice(sb)
                yield ("setMember:" + tag, "std.setMember(%s, %s%s)" % (jval(x), SA, ksuffix), kp(x) in ka)
        elif fam == 7:
            # sort/set under a collection after every third evaluator step (values kept in side tables)
            yield ("sort_gc:" + tag, "std.sort(%s%s)" % (A, ksuffix), sorted(arr, key=kp))
        else:
            yield ("sort_twice:" + tag, "local a = %s; std.sort(std.sort(a%s)%s) == std.sort(a%s)" % (A, ksuffix, ksuffix, ksuffix), True)


def shard(args):
    seed, n, quick = args
    rng = random.Random(seed)
    agg = Agg()
    ev = Ev(agg)
    try:
        for case in gen_cases(rng, n, quick):
            gc = "every:3" if case[0].startswith("sort_gc") else None
            strict = "num/identity" in case[0]
            run_cases(agg, ev, [case], strict_zero=strict, gcmode=gc)
            agg.add("families", case[0].split(":")[0])
    finally:
        ev.close()
    return agg


def pairs_shard(args):
    """All pairs of subsets of a 6-key universe: every overlap pattern."""
    seed, masks = args
    agg = Agg()
    ev = Ev(agg)
    universe = [1.0, 2.0, 3.0, 5.0, 8.0, 13.0]
    try:
        for ma in masks:
            sa = [[k, 0.0] for j, k in enumerate(universe) if ma >> j & 1]
            for mb in range(64):
                sb = [[k, 1.0] for j, k in enumerate(universe) if mb >> j & 1]
                ka = [e[0] for e in sa]
                kb = [e[0] for e in sb]
                SA, SB = jval(sa), jval(sb)
                K = ", function(e) e[0]"
                src = "[std.setUnion(%s, %s%s), std.setInter(%s, %s%s), std.setDiff(%s, %s%s), [std.setMember([k, 9], %s%s) for k in %s]]" % (
                    SA, SB, K, SA, SB, K, SA, SB, K, SA, K, jval(universe))
                exp = [sorted(sa + [e for e in sb if e[0] not in ka], key=lambda e: e[0]),
                       [e for e in sa if e[0] in kb], [e for e in sa if e[0] not in kb], [k in ka for k in universe]]
                run_cases(agg, ev, [("set_pairs_exhaustive", src, exp)])
    finally:
        ev.close()
    return agg


# ------------------------------------------------------------------------------------------------
# dataflow: set/sort operations whose operands are earlier results or the very same value (aliasing), as a DAG of locals

def dataflow_case(rng):
    keyed = rng.random() < 0.5
    kp = (lambda e: e[0]) if keyed else (lambda e: e)
    K = ", function(e) e[0]" if keyed else ""
    names, vals, binds = [], [], []

    def lit(tag):
        ks = sorted(set(float(rng.randint(0, 9)) for _ in range(rng.randint(0, 7))))
        return [[k, float(tag)] for k in ks] if keyed else ks
    for i in range(rng.randint(1, 3)):
        v = lit(i)
        names.append("s%d" % i)
        vals.append(v)
        binds.append("s%d = %s" % (i, jval(v)))
    for j in range(rng.randint(2, 6)):
        op = rng.choice(["setUnion", "setInter", "setDiff", "setUnion", "setInter", "setDiff", "set_of_concat", "sort", "uniq", "set", "ident_fn"])
        a = rng.randrange(len(names))
        b = a if rng.random() < 0.4 else rng.randrange(len(names))
        A, B = vals[a], vals[b]
        ka, kb = [kp(e) for e in A], [kp(e) for e in B]
        nm = "r%d" % j
        if op == "setUnion":
            v = sorted(A + [e for e in B if kp(e) not in ka], key=kp)
            src = "std.setUnion(%s, %s%s)" % (names[a], names[b], K)
        elif op == "setInter":
            v = [e for e in A if kp(e) in kb]
            src = "std.setInter(%s, %s%s)" % (names[a], names[b], K)
        elif op == "setDiff":
            v = [e for e in A if kp(e) not in kb]
            src = "std.setDiff(%s, %s%s)" % (names[a], names[b], K)
        elif op == "set_of_concat":
            v = uniq(sorted(A + B, key=kp), kp)
            src = "std.set(%s + %s%s)" % (names[a], names[b], K)
        elif op == "sort":
            v = sorted(A, key=kp)
            src = "std.sort(%s%s)" % (names[a], K)
        elif op == "uniq":
            v = uniq(A, kp)
            src = "std.uniq(%s%s)" % (names[a], K)
        elif op == "set":
            v = uniq(sorted(A, key=kp), kp)
            src = "std.set(%s%s)" % (names[a], K)
        else:
            # the same value passed twice through a function parameter
            f = rng.choice(["setUnion", "setInter", "setDiff"])
            v = {"setUnion": A, "setInter": A, "setDiff": []}[f]
            src = "(function(p, q) std.%s(p, q%s))(%s, %s)" % (f, K, names[a], names[a])
        names.append(nm)
        vals.append(v)
        binds.append("%s = %s" % (nm, src))
    n0 = len([n for n in names if n.startswith("s")])
    src = "local " + ", ".join(binds) + "; [" + ", ".join(names[n0:]) + "]"
    return ("dataflow:" + ("keyed" if keyed else "plain"), src, vals[n0:])


# ------------------------------------------------------------------------------------------------
# re-entrancy: the comparison that decides the order forces a lazy element which itself runs sort / set / fold / ...

def lazy_number(rng, depth=0):
    """-> (jsonnet expression, python value); the expression runs a builtin that keeps evaluator-side state."""
    R = [float(rng.randint(0, 9)) for _ in range(rng.randint(2, 8))]
    R2 = [float(rng.randint(0, 9)) for _ in range(rng.randint(2, 6))]
    J, J2 = jval(R), jval(R2)
    k = rng.randrange(14)
    if depth < 1 and rng.random() < 0.25:
        inner_src, inner_v = lazy_number(rng, depth + 1)
        return "std.sort([%s, %s, 99])[0]" % (inner_src, jval(R[0])), min(inner_v, R[0], 99.0)
    if k == 0:
        return "std.sort(%s)[0]" % J, min(R)
    if k == 1:
        return "std.sort(%s, function(x) -x)[0]" % J, max(R)
    if k == 2:
        return "std.set(%s)[0]" % J, min(R)
    if k == 3:
        return "std.length(std.setUnion(std.set(%s), std.set(%s)))" % (J, J2), float(len(set(R) | set(R2)))
    if k == 4:
        return "std.foldl(function(a, b) a + b, %s, 0)" % J, float(sum(R))
    if k == 5:
        return "std.minArray(%s)" % J, min(R)
    if k == 6:
        return "std.length(std.uniq(std.sort(%s)))" % J, float(len(set(R)))
    if k == 7:
        return "std.length(std.filter(function(x) x > 4, %s))" % J, float(len([x for x in R if x > 4]))
    if k == 8:
        return "std.sum(std.map(function(x) x * 2, %s))" % J, float(sum(R) * 2)
    if k == 9:
        return "std.length(std.setInter(std.set(%s), std.set(%s)))" % (J, J2), float(len(set(R) & set(R2)))
    if k == 10:
        return "std.length(std.setDiff(std.set(%s), std.set(%s)))" % (J, J2), float(len(set(R) - set(R2)))
    if k == 11:
        return "std.maxArray(%s, function(x) -x)" % J, min(R)
    if k == 12:
        return "std.length(std.join([0], [std.sort(%s), std.set(%s)]))" % (J, J2), float(len(R) + 1 + len(set(R2)))
    return "std.length('%%s' %% [std.sort(%s)]) * 0 + std.sort(%s)[1]" % (J, J), sorted(R)[1]


def reentrant_case(rng):
    n = rng.choice([2, 3, 4, 5, 8, 12, 31, 40])
    groups = rng.choice([1, 2, 3])
    rows, pyrows = [], []
    for i in range(n):
        g = float(rng.randrange(groups))
        src, v = lazy_number(rng)
        rows.append((g, src, i))
        pyrows.append([g, v, float(i)])
    form = rng.randrange(6)
    items = "[" + ", ".join("[%s, %s, %d]" % (common.jnum(g), src, i) for g, src, i in rows) + "]"
    if form == 0:
        return ("reentrant:sort_identity", "std.sort(%s)" % items, sorted(pyrows))
    if form == 1:
        return ("reentrant:sort_key", "std.sort(%s, function(r) [r[0], r[1]])" % items, sorted(pyrows, key=lambda r: [r[0], r[1]]))
    if form == 2:
        return ("reentrant:set_key", "std.set(%s, function(r) [r[0], r[1]])" % items,
                uniq(sorted(pyrows, key=lambda r: [r[0], r[1]]), lambda r: [r[0], r[1]]))
    if form == 3:
        return ("reentrant:minmax", "[std.minArray(%s, function(r) [r[0], r[1]]), std.maxArray(%s, function(r) [r[0], r[1]])]" % (items, items),
                [min(pyrows, key=lambda r: [r[0], r[1]]), max(pyrows, key=lambda r: [r[0], r[1]])])
    if form == 4:
        # the key function itself is lazy in its second component and runs a sort
        return ("reentrant:key_runs_sort", "std.sort(%s, function(r) [r[0], std.sort([r[1], 100])[0]])" % items,
                sorted(pyrows, key=lambda r: [r[0], min(r[1], 100.0)]))
    sa = uniq(sorted(pyrows[: n // 2], key=lambda r: [r[0], r[1]]), lambda r: [r[0], r[1]])
    sb = uniq(sorted(pyrows[n // 2:], key=lambda r: [r[0], r[1]]), lambda r: [r[0], r[1]])
    ka = [[r[0], r[1]] for r in sa]
    la = "[" + ", ".join("[%s, %s, %d]" % (common.jnum(rows[int(r[2])][0]), rows[int(r[2])][1], int(r[2])) for r in sa) + "]"
    lb = "[" + ", ".join("[%s, %s, %d]" % (common.jnum(rows[int(r[2])][0]), rows[int(r[2])][1], int(r[2])) for r in sb) + "]"
    return ("reentrant:setUnion", "std.setUnion(%s, %s, function(r) [r[0], r[1]])" % (la, lb),
            sorted(sa + [r for r in sb if [r[0], r[1]] not in ka], key=lambda r: [r[0], r[1]]))


def extra_shard(args):
    seed, n = args
    rng = random.Random(seed)
    agg = Agg()
    ev = Ev(agg)
    try:
        for i in range(n):
            case = dataflow_case(rng) if i % 2 == 0 else reentrant_case(rng)
            run_cases(agg, ev, [case], gcmode="every:3" if rng.random() < 0.1 else None)
            agg.add("families", case[0])
    finally:
        ev.close()
    return agg


def named_args_shard(args):
    """Every argument bound by name (reversed order, and positional-then-named) must give what the positional call gives:
    documented parameter names, driver/stdparams.py."""
    import stdparams
    from tablecheck import run_cases as _run_cases
    agg = Agg()
    ev = Ev(agg)
    try:
        _run_cases(agg, ev, stdparams.named_cases(['sort', 'uniq', 'set', 'setUnion', 'setInter', 'setDiff', 'setMember', 'minArray', 'maxArray']))
    finally:
        ev.close()
    return agg


def run(tier, seed):
    t0 = time.time()
    quick = tier != "thorough"
    total = Agg()
    for a in common.pmap(named_args_shard, [(seed,)]):
        total.merge(a)
    n = 12_000 if quick else 800_000
    for a in common.pmap(shard, [(seed * 307 + i, n // 64, quick) for i in range(64)]):
        total.merge(a)
    n2 = 6_400 if quick else 400_000
    for a in common.pmap(extra_shard, [(seed * 311 + i, n2 // 32) for i in range(32)]):
        total.merge(a)
    masks = list(range(64))
    for a in common.pmap(pairs_shard, [(seed, masks[i::16]) for i in range(16)]):
        total.merge(a)
    rule = ("arrays of numbers (incl. +-0, duplicates), strings (prefix pairs, astral) and arrays, every length 0..200 "
            "and sparse lengths up to 1200, few distinct keys, elements tagged with their input index; key functions "
            "identity, e[0], e.k, e[0] % 3, -e[0], std.length; oracle = Python sorted(key=) (stable), adjacent "
            "dedupe, set algebra by key with 'a' elements kept, first min/max; all 4096 pairs of subsets of a 6-key "
            "universe for setUnion/Inter/Diff/Member; some sorts under GC every 3 steps; dataflow programs (DAGs of "
            "setUnion/Inter/Diff/set/sort/uniq over locals in which operands are earlier results or the very same value, also passed "
            "twice through a parameter); re-entrant comparisons (sort/set/minArray/maxArray/setUnion over rows whose deciding element is "
            "lazy and itself runs sort/set/fold/filter/format..., nested up to twice). documented parameter names: every argument bound by name (reversed order, and positional-then-named) gives what the positional call gives (driver/stdparams.py). distinct_nontrivial = "
            "distinct (family, source) pairs compared.")
    return common.finish(PROP, tier, seed, total, rule, t0, extra={"set_pairs_exhaustive": True},
                         assumptions=["Python's sorted() is stable and list/str comparison is lexicographic by code point"])

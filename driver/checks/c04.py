"""C04 - evaluation is call-by-need: unused parts never run, used parts run once."""
import collections
import random
import re
import time

import common
import genast
import genprog
import refinterp
from common import Agg, Ev, same_value
from genprog import s, std, call, num

PROP = "C04"
LABEL_ROLES = {"bind", "elem", "arg", "fieldval", "default", "compval"}
SELFISH = {"self", "dollar", "superdot", "superidx", "insuper"}


def instrument(tree, rng, p=0.6):
    """Wraps binding-site bodies in std.trace("L<n>", e).  Returns (tree, number of labels)."""
    counter = [0]

    def walk(node):
        def f(child, role):
            c = walk(child)
            if role in LABEL_ROLES and child[0] != "func" and rng.random() < p:
                counter[0] += 1
                return call(std("trace"), s("L%d" % counter[0]), c)
            return c
        return genast.map_children(node, f)
    return walk(tree), counter[0]


DEAD = ("error", s("dead"))


def rewrite_once(tree, rng):
    """Applies one meaning-preserving rewrite at a random expression site.  Returns (tree, kind) or None."""
    sites = []

    def collect(node, in_obj_members):
        def f(child, role):
            sites.append(child)
            collect(child, False)
            return child
        genast.map_children(node, f)
    collect(tree, False)
    if not sites:
        return None
    target = rng.choice(sites)
    kind = rng.choice(["local", "identity", "array", "object", "dead_local", "dead_elem", "dead_field", "dead_param"])
    if kind == "object" and genast.mentions(target, SELFISH):
        kind = "local"
    if kind == "dead_elem" and target[0] != "arr":
        kind = "dead_local"
    if kind == "dead_field" and target[0] != "obj":
        kind = "dead_local"
    if kind == "dead_param" and target[0] != "func":
        kind = "identity"

    def repl(e):
        if kind == "local":
            return ("local", [("bind", "rw_v", None, e)], ("var", "rw_v"))
        if kind == "identity":
            return ("call", ("func", [("param", "rw_x", None)], ("var", "rw_x")), [("pos", e)], False)
        if kind == "array":
            return ("index", ("arr", [e]), num(0))
        if kind == "object":
            return ("dot", ("obj", [("field", ("id", "rw_f"), False, 1, e)]), "rw_f")
        if kind == "dead_local":
            return ("local", [("bind", "rw_dead", None, DEAD)], e)
        if kind == "dead_elem":
            # array with a dead extra element, sliced away without forcing it
            return ("slice", ("arr", list(e[1]) + [DEAD]), None, num(len(e[1])), None)
        if kind == "dead_field":
            return ("obj", list(e[1]) + [("field", ("id", "rw_hidden"), False, 2, DEAD)])
        if kind == "dead_param":
            return ("func", list(e[1]) + [("param", "rw_unused", DEAD)], e[2])
        raise AssertionError(kind)
    done = [False]

    def walk(node):
        def f(child, role):
            if child is target and not done[0]:
                done[0] = True
                return repl(child)
            return walk(child)
        return genast.map_children(node, f)
    new = walk(tree)
    if not done[0]:
        return None
    return new, kind


def kill_untraced(tree, traced):
    """Replaces the body of every label that was never traced by `error "dead"` (keeping the label)."""
    def walk(node):
        if node[0] == "call" and node[1] == std("trace") and node[2][0][1][0] == "str":
            label = node[2][0][1][1]
            if label not in traced:
                return call(std("trace"), s(label), DEAD)
        return genast.map_children(node, lambda c, role: walk(c))
    return walk(tree)


def outcome(r):
    if r.cls == "value":
        return ("V", r.value)
    if r.cls == "error":
        return ("E", r.kind, r.msg)
    return (r.cls,)


def same_outcome(a, b):
    if a[0] != b[0]:
        return False
    if a[0] == "V":
        return same_value(a[1], b[1], strict_zero=True)
    return a == b


def program_shard(args):
    seed, n = args
    rng = random.Random(seed)
    agg = Agg()
    ev = Ev(agg)
    try:
        for i in range(n):
            g = genprog.Gen(rng, depth=rng.choice([2, 3, 3, 4]), obj_heavy=rng.random() < 0.4)
            base = g.top()
            tree, nlabels = instrument(base, rng)
            text, _ = genast.render(tree, "min")
            r = ev.run(text, walk=1, stack=2000)
            if r.cls in ("inconclusive",):
                continue
            desc = {"program": text.decode("utf-8", "replace")[:1500]}
            if r.cls in ("panic", "crash"):
                agg.violation(common.panic_signature(r), desc, {"script": r.lines})
                continue
            if r.cls == "error" and r.kind == "StackOverflow":
                continue
            base_out = outcome(r)
            base_trace = list(r.trace)
            # (1) label multiset against the model's force log
            m = refinterp.run(tree)
            if m[0] == "V" and r.cls == "value":
                want = collections.Counter(m[2])
                got = collections.Counter(base_trace)
                if want != got:
                    extra = sorted((got - want).elements())[:5]
                    missing = sorted((want - got).elements())[:5]
                    agg.violation({"kind": "evaluation_count_differs_from_call_by_need",
                                   "what": "evaluated_more" if extra else "evaluated_less"},
                                  dict(desc, evaluated_more_often_than_model=extra, evaluated_less_often=missing,
                                       labels=nlabels), {"script": r.lines})
                    continue
                agg.count("trace_multisets_equal")
                agg.count("labels_traced", sum(got.values()))
                agg.count("labels_dead", nlabels - len(got))
                if nlabels - len(got) > 0:
                    agg.nontrivial.add(common.h64(text))
            # (2a) every binding that was not evaluated can be replaced by a failing expression
            traced = set(base_trace)
            if len(traced) < nlabels and r.cls == "value":
                # (only after a successful run: a body that failed half-way was evaluated but never traced)
                killed = kill_untraced(tree, traced)
                t2, _ = genast.render(killed, "min")
                r2 = ev.run(t2, walk=1, stack=2000)
                if r2.cls not in ("inconclusive",):
                    if not same_outcome(base_out, outcome(r2)) or list(r2.trace) != base_trace:
                        agg.violation({"kind": "dead_binding_replaced_by_error_changes_outcome"},
                                      dict(desc, rewritten=t2.decode("utf-8", "replace")[:1500], before=r.brief(), after=r2.brief(),
                                           trace_before=base_trace[:20], trace_after=list(r2.trace)[:20]), {"script": r2.lines})
                        continue
                    agg.count("dead_bindings_killed", nlabels - len(traced))
            # (2b) meaning-preserving rewrites at random sites
            for _ in range(3):
                rw = rewrite_once(tree, rng)
                if rw is None:
                    continue
                new, kind = rw
                if kind == "dead_field" and b"objectFieldsAll" in text:
                    continue   # a hidden field legitimately shows up in objectFieldsAll
                t3, _ = genast.render(new, rng.choice(["min", "noisy"]), random.Random(i))
                r3 = ev.run(t3, walk=1, stack=2000)
                if r3.cls == "inconclusive":
                    continue
                if r3.cls == "error" and r3.kind == "StackOverflow":
                    continue
                if not same_outcome(base_out, outcome(r3)) or list(r3.trace) != base_trace:
                    agg.violation({"kind": "rewrite_changes_outcome", "rewrite": kind,
                                   "what": "trace" if same_outcome(base_out, outcome(r3)) else "outcome"},
                                  dict(desc, rewritten=t3.decode("utf-8", "replace")[:1500], before=r.brief(), after=r3.brief(),
                                       trace_before=base_trace[:20], trace_after=list(r3.trace)[:20]), {"script": r3.lines})
                    break
                agg.count("rewrite:" + kind)
                agg.nontrivial.add(common.h64(t3))
            # (2c) observing the finished value again through another path re-evaluates nothing: same value, same label
            #      multiset (every thunk instance still at most once)
            if r.cls == "value":
                P = ("var", "rw_p")
                obs = rng.choice([
                    ("twice", ("index", ("arr", [P, P]), num(1))),
                    ("equals_then", ("if", ("bin", "==", P, P), P, num(0))),
                    ("toString_then", ("if", ("bin", ">=", call(std("length"), call(std("toString"), P)), num(0)), P, num(0))),
                    ("manifest_then", ("if", ("bin", ">=", call(std("length"), call(std("manifestJsonEx"), P, s(" "))), num(0)), P, num(0))),
                    ("type_then", ("if", ("bin", "!=", call(std("type"), P), s("x")), P, num(0))),
                ])
                t4, _ = genast.render(("local", [("bind", "rw_p", None, tree)], obs[1]), "min")
                r4 = ev.run(t4, walk=1, stack=2000)
                if r4.cls not in ("inconclusive",) and not (r4.cls == "error" and r4.kind == "StackOverflow"):
                    if not same_outcome(base_out, outcome(r4)) or collections.Counter(r4.trace) != collections.Counter(base_trace):
                        agg.violation({"kind": "observing_again_changes_outcome", "observation": obs[0],
                                       "what": "trace" if same_outcome(base_out, outcome(r4)) else "outcome"},
                                      dict(desc, rewritten=t4.decode("utf-8", "replace")[:1500], before=r.brief(), after=r4.brief(),
                                           trace_before=sorted(base_trace)[:20], trace_after=sorted(r4.trace)[:20]), {"script": r4.lines})
                        continue
                    agg.count("observe_again:" + obs[0])
            if i < 1:
                agg.sample({"program": text.decode("utf-8", "replace")[:300], "trace": base_trace[:10], "labels": nlabels})
    finally:
        ev.close()
    return agg


# builtins: which elements must not be forced (source, expected value)
LAZY_BUILTINS = [
    ("std.length(std.map(function(x) error 'dead', [1, 2]))", 2.0),
    ("std.map(function(x) x * 2, [1, error 'dead'])[0]", 2.0),
    ("std.length(std.makeArray(3, function(i) error 'dead'))", 3.0),
    ("std.makeArray(3, function(i) if i == 1 then error 'dead' else i)[2]", 2.0),
    ("std.length(std.mapWithIndex(function(i, x) error 'dead', [1, 2]))", 2.0),
    ("std.objectFields(std.mapWithKey(function(k, v) error 'dead', {a: 1, b: 2}))", ["a", "b"]),
    ("std.mapWithKey(function(k, v) v + 1, {a: 1, b: error 'dead'}).a", 2.0),
    ("std.filterMap(function(x) x > 1, function(x) error 'dead', [1, 0])", []),
    ("std.foldl(function(acc, x) acc, [error 'dead', error 'dead'], 5)", 5.0),
    ("std.foldr(function(x, acc) acc, [error 'dead'], 5)", 5.0),
    ("std.length([error 'dead', error 'dead'])", 2.0),
    ("std.reverse([error 'dead', 1])[0]", 1.0),
    ("([error 'dead', 1] + [2])[1]", 1.0),
    ("[error 'dead', 1, 2][1:][0]", 1.0),
    ("std.slice([error 'dead', 1, 2], 1, 3, 1)[1]", 2.0),
    ("std.length(std.repeat([error 'dead'], 3))", 3.0),
    ("std.objectFields({a: error 'dead', b:: error 'dead'})", ["a"]),
    ("std.objectHas({a: error 'dead'}, 'a')", True),
    ("std.length({a: error 'dead', b: 1})", 2.0),
    ("{a: error 'dead', b: 1}.b", 1.0),
    ("std.type([error 'dead'])", "array"),
    ("std.isArray([error 'dead'])", True),
    ("std.get({a: error 'dead', b: 1}, 'b')", 1.0),
    ("std.get({a: 1}, 'zz', 7)", 7.0),
    ("std.get({a: 1}, 'a', error 'dead default')", 1.0),
    ("std.objectValues({a: error 'dead', b: 1})[1]", 1.0),
    ("std.length(std.objectValues({a: error 'dead'}))", 1.0),
    ("std.flattenArrays([[error 'dead'], [1]])[1]", 1.0),
    ("std.length(std.range(1, 3))", 3.0),
    ("local f(a, b) = a; f(1, error 'dead')", 1.0),
    ("local f(a, b=error 'dead') = a; f(1)", 1.0),
    ("local a = error 'dead'; 1", 1.0),
    ("local a = error 'dead', b = a; 1", 1.0),
    ("{local a = error 'dead', b: 1}", {"b": 1.0}),
    ("({a: error 'dead'} + {a: 1}).a", 1.0),
    ("if true then 1 else error 'dead'", 1.0),
    ("false && error 'dead'", False),
    ("true || error 'dead'", True),
    ("[x for x in [1, 2] if x > 5 && error 'dead']", []),
    ("std.length([error 'dead' for x in [1, 2, 3]])", 3.0),
    ("std.length({[k]: error 'dead' for k in ['a', 'b']})", 2.0),
    ("local o = {a: std.trace('once', 1), b: self.a + self.a + self.a}; o.b + o.a", 4.0),
    ("local x = std.trace('once', 2); x + x + x", 6.0),
    ("local f(a) = a + a + a; f(std.trace('once', 1))", 3.0),
    ("local a = [std.trace('once', 1)]; a[0] + a[0] + std.length(a)", 3.0),
    ("local a = [std.trace('once', 3)]; local b = a + a; b[0] + b[1]", 6.0),
    ("local o = {a: std.trace('once', 1)}; local p = o; p.a + o.a", 2.0),
    ("std.foldl(function(acc, x) acc + x, [std.trace('once', 1)], 0) + 0", 1.0),
    ("local arr = std.map(function(x) std.trace('once', x), [5]); arr[0] + arr[0]", 10.0),
    ("local arr = std.makeArray(1, function(i) std.trace('once', 7)); arr[0] + arr[0]", 14.0),
    ("local o = std.mapWithKey(function(k, v) std.trace('once', v), {a: 2}); o.a + o.a", 4.0),
    ("std.sort([3, 1, 2], function(x) std.trace('key' + x, x))", [1.0, 2.0, 3.0]),
    ("std.foldl(function(acc, x) x, [1, 2], error 'dead init')", 2.0),
    ("std.foldl(function(acc, x) if x == 1 then x else acc + x, [1, 2, 3], error 'dead init')", 6.0),
    ("std.foldr(function(x, acc) x, [1, 2], error 'dead init')", 1.0),
    ("std.foldl(function(acc, x) acc + x, [], 5)", 5.0),
    ("std.all([false, error 'dead'])", False),
    ("std.any([true, error 'dead'])", True),
    ("std.removeAt([error 'dead', 1], 0)", [1.0]),
    ("std.objectKeysValues({a: error 'dead'})[0].key", "a"),
    ("std.length(std.objectValuesAll({a:: error 'dead'}))", 1.0),
    ("std.length(std.filter(function(x) true, [error 'dead']))", 1.0),
    ("std.mapWithIndex(function(i, x) i, [error 'dead'])", [0.0]),
    ("std.flatMap(function(x) [1], [error 'dead'])", [1.0]),
    ("std.length(std.flattenArrays([[error 'dead']]))", 1.0),
    ("std.length(std.join([0], [[error 'dead'], [1]]))", 3.0),
    ("std.mapWithKey(function(k, v) k, {a: error 'dead'})", {"a": "a"}),
    ("std.minArray([2, 1], function(x) x, error 'dead onEmpty')", 1.0),
    ("std.maxArray([], function(x) x, 7)", 7.0),
    ("std.length(std.reverse([error 'a', error 'b']))", 2.0),
    ("std.objectHasAll({a:: error 'dead'}, 'a')", True),
    ("local f = function(a=std.trace('once', 1), b=a) a + b; f()", 2.0),
    ("local f(a=std.trace('once', 1), b=a + 1, c=0) = a + b + c; f(c=100)", 103.0),
    ("local f(a, b=std.trace('once', a)) = b + b; f(2)", 4.0),
    ("{local l = std.trace('once', 1), a: l, b: l}", {"a": 1.0, "b": 1.0}),
    ("local o = {a: std.trace('once', 1)}; [o.a, (o + {}).a == 1, o.a]", None),
    # formatting: a '*' precision consumed by a conversion that ignores precision (%s %c) stays unevaluated; an object
    # argument's unused fields stay unevaluated
    ("std.format('%.*s', [error 'dead', 'abc'])", "abc"),
    ("'%.*c' % [error 'dead', 'x']", "x"),
    ("std.format('<%.*s|%5.*c>', [error 'dead', 'abc', error 'dead', 'x'])", "<abc|    x>"),
    ("'%-6.*s|' % [error 'dead', 'hello']", "hello |"),
    ("std.mod('%.*s', [error 'dead', 'abc'])", "abc"),
    ("'%-6.*s|' % [std.trace('NEVER', 2), 'hello']", "hello |"),
    ("'%(a)s' % {a: 1, b: error 'dead'}", "1"),
    ("std.format('%(a)s-%(a)d', {a: 2, b: error 'dead'})", "2-2"),
    # hidden fields are not part of any manifestation / comparison / traversal of visible fields
    ("std.manifestJsonMinified({a: 1, b:: error 'dead'})", '{"a":1}'),
    ("std.toString({a: 1, b:: error 'dead'})", '{"a": 1}'),
    ("{a: 1, b:: error 'dead'} == {a: 1}", True),
    ("std.equals({a: 1, b:: error 'dead'}, {a: 1})", True),
    ("std.assertEqual({a: 1, b:: error 'dead'}, {a: 1})", True),
    ("std.prune({a: 1, b:: error 'dead'})", {"a": 1.0}),
    ("std.mapWithKey(function(k, v) v, {a: 1, b:: error 'dead'})", {"a": 1.0}),
    ("std.manifestYamlDoc({a: 1, b:: error 'dead'})", '"a": 1'),
    ("std.manifestTomlEx({a: 1, b:: error 'dead'}, ' ')", "a = 1"),
    ("std.manifestPython({a: 1, b:: error 'dead'})", '{"a": 1}'),
    ("'a' in {a: error 'dead'}", True),
    ("std.isObject({a: error 'dead'})", True),
    ("std.objectHasEx({a: error 'dead'}, 'a', true)", True),
    ("std.objectFieldsEx({a:: error 'dead'}, true)", ["a"]),
    ("std.length(std.objectKeysValuesAll({a:: error 'dead'}))", 1.0),
    ("std.objectValuesAll({a:: 1, b:: error 'dead'})[0]", 1.0),
    # structure-only operations
    ("std.mergePatch({a: error 'dead', b: 1}, {b: 2}).b", 2.0),
    ("std.objectRemoveKey({a: error 'dead', b: 1}, 'c').b", 1.0),
    ("std.objectRemoveKey({a: error 'dead', b: 1}, 'a')", {"b": 1.0}),
    ("std.length(std.sort([error 'dead']))", 1.0),
    ("std.length(std.uniq([error 'dead']))", 1.0),
    ("std.length(std.set([error 'dead']))", 1.0),
    ("std.slice([error 'dead', 1, 2, 3], 1, 4, 2)", [1.0, 3.0]),
    ("[1, error 'dead'][0:1]", [1.0]),
    ("std.length(std.flatMap(function(x) [error 'dead'], [1, 2]))", 2.0),
    ("std.length(std.makeArray(2, function(i) error 'dead') + [error 'dead'])", 3.0),
    ("std.repeat([1, error 'dead'], 2)[2]", 1.0),
    ("std.get({a: error 'dead', b: 2}, 'b', error 'dead')", 2.0),
    ("std.foldl(function(acc, x) acc + 1, [error 'dead', error 'dead'], 0)", 2.0),
    ("std.objectFields(std.mapWithKey(function(k, v) error 'dead', {a: error 'dead'}))", ["a"]),
    ("std.length(std.mapWithIndex(function(i, x) error 'dead', [error 'dead']))", 1.0),
    ("std.length(std.reverse(std.makeArray(3, function(i) error 'dead')))", 3.0),
    ("std.removeAt([1, error 'dead', 3], 1)", [1.0, 3.0]),
    ("std.length(std.filterMap(function(x) true, function(x) error 'dead', [1, 2]))", 2.0),
    ("local f(a, b) = a; f(b=error 'dead', a=1)", 1.0),
    ("local f(a=error 'dead', b=1) = b; f()", 1.0),
    # the same laziness whatever the kind of container the builtin walks: strings and objects, not only arrays
    ("std.length(std.map(function(c) error 'dead', 'ab'))", 2.0),
    ("std.map(function(c) std.trace('once', c), 'abc')[2] + ''", "c"),
    ("std.length(std.mapWithIndex(function(i, c) error 'dead', 'ab'))", 2.0),
    ("std.length(std.makeArray(2, function(i) error 'dead'))", 2.0),
    ("std.length(std.flatMap(function(c) [error 'dead'], [1, 2]))", 2.0),
    ("std.objectFields(std.mapWithKey(function(k, v) error 'dead', {a: 1}))", ["a"]),
    ("std.length(std.objectValues(std.mapWithKey(function(k, v) error 'dead', {a: 1, b: 2})))", 2.0),
    ("std.map(function(x) x, [1, error 'dead'])[0]", 1.0),
    ("std.length(std.map(function(o) o.nope, [{}, {}]))", 2.0),
    ("std.length(std.map(std.parseInt, ['x', 'y']))", 2.0),
    ("[std.trace('once', 1) for x in [0]][0] + 0", 1.0),
    ("local a = [std.trace('once', 1)]; [x for x in a] + a", [1.0, 1.0]),
]


def format_star_cases():
    """A '*' precision taken by a conversion that ignores precision (s, c) must stay unevaluated, whatever the flags,
    the width form and the entry point: the call must equal the same call without the precision."""
    out = []
    for conv, val in (("s", "'abc'"), ("s", "[1, 'x']"), ("c", "'x'"), ("c", "65")):
        for flags in ("", "-", "0", "+", " ", "#", "-0"):
            for width in ("", "5", "*"):
                for entry in ("std.format(%s, %s)", "%s %% %s", "std.mod(%s, %s)"):
                    wargs = ["7"] if width == "*" else []
                    with_p = entry % ("'[%%%s%s.*%s]'" % (flags, width, conv), "[" + ", ".join(wargs + ["error 'dead'", val]) + "]")
                    without = entry % ("'[%%%s%s%s]'" % (flags, width, conv), "[" + ", ".join(wargs + [val]) + "]")
                    out.append(("(%s) == (%s)" % (with_p, without), True))
    return out


def builtins_shard(args):
    seed, _ = args
    agg = Agg()
    ev = Ev(agg)
    try:
        for src, exp in LAZY_BUILTINS + format_star_cases():
            r = ev.run(src, walk=1)
            agg.nontrivial.add(common.h64(src))
            if exp is None:
                agg.count("lazy_builtin_cases")
                continue        # (re-extended objects legitimately re-evaluate: only recorded)
            if r.cls != "value" or not same_value(r.value, exp, strict_zero=False):
                agg.violation({"kind": "lazy_builtin", "src": src[:70]}, {"src": src, "expected": repr(exp), "got": r.brief()},
                              {"script": r.lines})
                continue
            once = [t for t in r.trace if t == "once"]
            if "'once'" in src and len(once) != 1:
                agg.violation({"kind": "evaluated_more_than_once", "src": src[:70]},
                              {"src": src, "trace": list(r.trace)}, {"script": r.lines})
            if "NEVER" in r.trace:
                agg.violation({"kind": "dead_element_evaluated", "src": src[:70]}, {"src": src, "trace": list(r.trace)},
                              {"script": r.lines})
            if "'key'" in src:
                c = collections.Counter(r.trace)
                if sorted(c) != ["key1", "key2", "key3"] or max(c.values()) != 1:
                    agg.violation({"kind": "sort_key_evaluated_more_than_once"}, {"src": src, "trace": list(r.trace)},
                                  {"script": r.lines})
            agg.count("lazy_builtin_cases")
    finally:
        ev.close()
    return agg


# ------------------------------------------------------------------------------------------------
# imports are delayed expressions too: an imported file is evaluated at most once however it is spelled and however
# often it is used, and an import the result does not depend on is never evaluated (real files, real CLI)

def imports_shard(args):
    seed, = args
    import json
    import os
    import shutil
    import subprocess
    import tempfile
    agg = Agg()
    os.makedirs(common.SCRATCH, exist_ok=True)
    d = tempfile.mkdtemp(dir=common.SCRATCH, prefix="c04imp")
    try:
        os.makedirs(os.path.join(d, "sub"))
        os.makedirs(os.path.join(d, "jlib"))
        files = {"lib.libsonnet": "std.trace('EVAL-lib', {v: 1, w: self.v + 1})", "sub/inner.libsonnet": "std.trace('EVAL-inner', {u: (import '../lib.libsonnet').v})",
                 "boom.libsonnet": "error 'boom-file'", "syntax.libsonnet": "{a: ", "jlib/jl.libsonnet": "std.trace('EVAL-jl', 5)",
                 "f.libsonnet": "std.trace('EVAL-f', function(x) x + 1)"}
        for rel, text in files.items():
            with open(os.path.join(d, rel), "w") as f:
                f.write(text)
        absl = os.path.join(d, "lib.libsonnet")
        cases = [
            ("[(import 'lib.libsonnet').v, (import './lib.libsonnet').w, (import 'sub/../lib.libsonnet').v, (import %s).w]" % common.jstr(absl), [1, 2, 1, 2], {"EVAL-lib": 1}),
            ("local f(n) = (import 'lib.libsonnet').v + n; [f(1), f(2), f(3)]", [2, 3, 4], {"EVAL-lib": 1}),
            ("[(import 'lib.libsonnet').w for i in std.range(1, 10)][9]", 2, {"EVAL-lib": 1}),
            ("[(import 'sub/inner.libsonnet').u, (import 'lib.libsonnet').v, (import 'sub/./inner.libsonnet').u]", [1, 1, 1], {"EVAL-lib": 1, "EVAL-inner": 1}),
            ("local u = import 'boom.libsonnet'; 1", 1, {}),
            ("local u = import 'no-such-file.libsonnet'; 2", 2, {}),
            ("local u = import 'syntax.libsonnet'; 3", 3, {}),
            ("{a: import 'boom.libsonnet', b: 4}.b", 4, {}),
            ("[import 'boom.libsonnet', 5][1]", 5, {}),
            ("(function(a, b) b)(import 'boom.libsonnet', 6)", 6, {}),
            ("if true then 7 else import 'boom.libsonnet'", 7, {}),
            ("local u = importstr 'no-such.txt', w = importbin 'no-such.bin'; 8", 8, {}),
            ("std.length([import 'boom.libsonnet', import 'lib.libsonnet'])", 2, {}),
            ("local l = import 'lib.libsonnet'; std.length(std.objectFields(l)) + l.v + l.v", 4, {"EVAL-lib": 1}),
            ("[(import 'jl.libsonnet'), (import 'jl.libsonnet') + 1, (import %s)]" % common.jstr(os.path.join(d, "jlib", "jl.libsonnet")), [5, 6, 5], {"EVAL-jl": 1}),
            ("local g = import 'f.libsonnet'; [g(1), g(2), (import 'f.libsonnet')(3)]", [2, 3, 4], {"EVAL-f": 1}),
            ("{a: (import 'lib.libsonnet').v, b: self.a + (import 'lib.libsonnet').w} + {c: (import 'lib.libsonnet').v}", {"a": 1, "b": 3, "c": 1}, {"EVAL-lib": 1}),
        ]
        # top-level arguments and external variables are delayed expressions as well: code given with --tla-code / --ext-code
        # (text or file) is evaluated only as far as the result needs it, and once
        with open(os.path.join(d, "dead_code.jsonnet"), "w") as f:
            f.write("error 'dead-code-file'")
        with open(os.path.join(d, "part_code.jsonnet"), "w") as f:
            f.write("{a: 1, c: [error 'dead-part'], t: std.trace('EVAL-f', 2)}")
        arg_cases = [
            (["--tla-code", "cfg={a: 1, c: [error 'dead']}"], "function(cfg) cfg.a", 1, {}),
            (["--tla-code", "x=error 'dead'"], "function(x) 1", 1, {}),
            (["--tla-code", "x=error 'dead'", "--tla-code", "y=2"], "function(x, y) y", 2, {}),
            (["--tla-code", "x=std.trace('EVAL-lib', 1)"], "function(x) 2", 2, {}),
            (["--tla-code", "x=std.trace('EVAL-lib', 5)"], "function(x) x + x", 10, {"EVAL-lib": 1}),
            (["--tla-code", "x={a: std.trace('EVAL-lib', 5), b: error 'dead'}"], "function(x) [x.a, x.a]", [5, 5], {"EVAL-lib": 1}),
            (["--tla-code-file", "x=" + os.path.join(d, "dead_code.jsonnet")], "function(x) 3", 3, {}),
            (["--tla-code-file", "x=" + os.path.join(d, "part_code.jsonnet")], "function(x) x.a", 1, {}),
            (["--tla-code-file", "x=" + os.path.join(d, "part_code.jsonnet")], "function(x) x.t + x.t", 4, {"EVAL-f": 1}),
            (["--ext-code", "e=error 'dead'"], "1", 1, {}),
            (["--ext-code", "e=error 'dead'"], "local u = std.extVar('e'); 4", 4, {}),
            (["--ext-code", "e={a: 1, b: error 'dead'}"], "std.extVar('e').a", 1, {}),
            (["--ext-code", "e=std.trace('EVAL-lib', 3)"], "std.extVar('e') + std.extVar('e')", 6, {"EVAL-lib": 1}),
            (["--ext-code-file", "e=" + os.path.join(d, "dead_code.jsonnet")], "5", 5, {}),
            (["--ext-code-file", "e=" + os.path.join(d, "part_code.jsonnet")], "std.extVar('e').a", 1, {}),
            (["--ext-code", "e=import 'boom.libsonnet'"], "[std.extVar('e'), 6][1]", 6, {}),
            (["--tla-code", "x=import 'lib.libsonnet'", "-J", d], "function(x, y=error 'dead default') x.v", 1, {"EVAL-lib": 1}),
        ]
        for flags, src, want, traces in arg_cases:
            cases.append((src, want, traces, flags))
        for case in cases:
            src, want, traces = case[:3]
            extra_flags = case[3] if len(case) > 3 else None
            root = os.path.join(d, "root.jsonnet")
            with open(root, "w") as f:
                f.write(src)
            for argv in ((["-J", os.path.join(d, "jlib"), root], ["-J", os.path.join(d, "jlib"), "-J", d, "-e", src]) if extra_flags is None
                         else (extra_flags + [root], extra_flags + ["-e", src])):
                agg.evaluations += 1
                try:
                    p = subprocess.run([common.CLI] + argv, capture_output=True, timeout=60, env=dict(os.environ, NO_COLOR="1"), cwd=d)
                except subprocess.TimeoutExpired:
                    agg.inconc("timeout")
                    continue
                errs = p.stderr.decode("utf-8", "replace")
                desc = {"program": src.replace(d, "<dir>"), "argv": [a.replace(d, "<dir>") for a in argv], "exit": p.returncode,
                        "stdout": p.stdout[:200].decode("utf-8", "replace"), "stderr": errs[-500:].replace(d, "<dir>")}
                try:
                    got = json.loads(p.stdout.decode("utf-8")) if p.returncode == 0 else None
                except ValueError:
                    got = None
                if got != want:
                    agg.violation({"kind": "import_laziness", "src": src[:50].replace(d, "<dir>")}, dict(desc, expected=want), {"argv": argv})
                    continue
                seen = {k: errs.count("TRACE: " + k) for k in ("EVAL-lib", "EVAL-inner", "EVAL-jl", "EVAL-f")}
                bad = {k: v for k, v in seen.items() if v != traces.get(k, 0)}
                if bad:
                    agg.violation({"kind": "imported_file_evaluation_count", "file": sorted(bad)[0]}, dict(desc, counts=seen, expected=traces), {"argv": argv})
                    continue
                agg.count("import_cases_ok")
                agg.nontrivial.add(common.h64("imp", src, " ".join(argv)))
    finally:
        shutil.rmtree(d, ignore_errors=True)
    return agg


def run(tier, seed):
    t0 = time.time()
    quick = tier != "thorough"
    total = Agg()
    n = 5000 if quick else 300_000
    for a in common.pmap(program_shard, [(seed * 1013 + i, n // 64) for i in range(64)]):
        total.merge(a)
    for a in common.pmap(imports_shard, [(seed,)]):
        total.merge(a)
    for a in common.pmap(builtins_shard, [(seed, 0)]):
        total.merge(a)
    rule = ("generated programs with std.trace(\"L<n>\", e) wrapped around binding sites (local values, arguments, "
            "default arguments, array elements, object field values, object locals, comprehension elements): (1) the "
            "multiset of traced labels must equal the force log of the call-by-need reference interpreter (each thunk "
            "instance at most once, dead instances never); (2a) every binding never traced is replaced by "
            "error \"dead\": value, error and trace sequence unchanged; (2b) 3 random rewrites per program (name with a "
            "local, identity function, one-element array, one-field object when self/super/$-free, dead local, dead "
            "array element, dead hidden field, dead defaulted parameter) leave value, error message and trace "
            "sequence unchanged; (3) a table of builtins/constructs whose unused elements are failing expressions and "
            "whose used elements are traced exactly once. imports through the CLI with real files: a file imported through several spellings / in a function called repeatedly / in a comprehension is evaluated once (trace count), and an import the result does not depend on (failing, missing or syntactically broken file) is never evaluated; code given with --tla-code / --ext-code (text or file) is evaluated only as far as the result needs it, and once. distinct_nontrivial = programs with at least one dead "
            "binding whose trace multiset matched + distinct rewritten programs compared + table cases.")
    return common.finish(PROP, tier, seed, total, rule, t0,
                         assumptions=["the reference interpreter's force log defines which thunk instances call-by-need evaluates",
                                      "trace order is compared only between a program and its rewrites (the specification fixes evaluation order only partially)"])

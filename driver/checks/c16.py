"""C16 - diagnostics always locate inside the source and always render."""
import random
import re
import time

import common
import genbytes
from common import Agg, Crashed, Outcome, Server, hx, run_lines

PROP = "C16"
ANSI = re.compile(r"\x1b\[[0-9;]*[A-Za-z]")

# programs that fail in a known way at a known place; {P} is replaced by padding that moves the error around
FAILING = [
    "error 'first byte'",
    "{P}error 'x'",
    "local a = 1;\n{P}a.b",
    "{P}[1, 2][5]",
    "{P}'\u00e9\u20ac\U0001f600' + {a: error 'in \u00e9'}.a",
    "{P}local f(x) = x + undefined_thing; f(1)",
    "{P}1 +",
    "{P}(1",
    "{P}'unterminated",
    "{P}\"bad \\q escape\"",
    "{P}/* unterminated comment",
    "{P}01",
    "{P}1 2",
    "{P}local x = 1, x = 2; x",
    "{P}{a: 1, a: 2}",
    "{P}self",
    "{P}function(a, a) 1",
    "{P}f(x=1, 2)",
    "{P}{assert false : 'obj assert'}.a",
    "{P}assert 1 == 2 : 'msg \u00e9'; 1",
    "{P}std.parseJson('{')",
    "{P}std.format('%d', ['s'])",
    "{P}1 / 0",
    "{P}1e308 * 10",
    "{P}std.sort([1, 'a'])",
    "{P}[1] < ['a']",
    "{P}{a: 1} == function(x) x",
    "{P}std.foldl(function(a, b) a + b.missing, [{}], 0)",
    "{P}local f(n) = if n == 0 then error 'bottom' else f(n - 1); f(30)",
    "{P}local f(n) = 1 + f(n + 1); f(0)",
    "{P}local a = b, b = a; a",
    "{P}std.map(function(x) error 'lazy ' + x, ['a', 'b'])",
    "{P}{a: {b: {c: error 'deep manifest'}}}",
    "{P}import 'does/not/exist.libsonnet'",
    "{P}importstr 'nope.txt'",
    "{P}std.extVar('undefined')",
    "{P}std.assertEqual({a: [1, 2]}, {a: [1, 3]})",
    "{P}std.trace('traced', error 'after trace')",
    "{P}\ttab_indented_error_var",
    "{P}a\r\n+ b",
    "{P}local x = |||\n  text\n|||; x.f",
    "{P}{ ['\u00e9' + 1]: 1 }",
    "{P}std.thisFile.x",
    "{P}@",
    "{P}\x00",
    "{P}1 {XFF} 2",
    "{P}'{XFF}{XFE}' + 1 + {}",
    "{P}$",
    "{P}super.x",
    "{P}{a: super.b}.a",
    "{P}[x for x in 5]",
    "{P}{[null]: 1, [1]: 2}",
    "{P}if 1 then 2",
    "{P}!1",
    "{P}1 << -1",
    "{P}1 & 1e300",
    "{P}'a'[1.5]",
    "{P}'a'['x']",
    "{P}std.char(-1)",
    "{P}std.makeArray(2, function(i, j) i)",
    "{P}(function(a) a)(1, 2)",
    "{P}(function(a) a)(b=1)",
    "{P}(function(a) a)()",
    "{P}5(1)",
    "{P}local o = {f: 1}; o.g",
    "{P}std.native('nope')(1)",
    "{P}\u0339",
    "{P}a \u0301 b",
    "{P}\u200d",
    "{P}\u200b + 1",
    "{P}\ufeff1",
    "{P}\u202e1",
    # errors whose location is the very end of the input (after a final line break, after blank lines, CR LF)
    "{P}|||\n  foo\n",
    "{P}|||\n  foo\n\n\n",
    "{P}{a: |||\r\n  foo\r\n\r\n\r\n",
    "{P}|||-\n\tfoo\n\n",
    "{P}|||\n  foo\n ",
    "{P}|||\n  foo\n  ",
    "{P}|||\n  foo",
    "{P}|||\n",
    "{P}|||\n\n",
    "{P}|||\r\n",
    "{P}|||",
    "{P}|||-",
    "{P}||| x",
    "{P}|||\nfoo\n|||",
    "{P}|||\n  foo\n bar\n|||",
    "{P}|||\n  foo\nbar",
    "{P}'abc\n",
    "{P}'abc\\",
    "{P}'abc\\u12",
    "{P}'\\ud800",
    "{P}@'abc\n\n",
    "{P}@\"",
    "{P}/* c\n",
    "{P}/*",
    "{P}/",
    "{P}1 +\n",
    "{P}1 +\n\n// c\n",
    "{P}1 + // c",
    "{P}local x =\n",
    "{P}{a:\r\n",
    "{P}[1,\n\n",
    "{P}f(\n",
    "{P}1.\n",
    "{P}1e\n",
    "{P}1e+",
    "{P}1_",
    "{P}import\n",
    "{P}{\n",
    "{P}local\n",
    "{P}function(\n",
    "{P}if true then\n",
    "{P}1 2\n",
    "{P}{XFF}",
    "{P}{XFF}\n",
    "{P}'{XFF}",
]
PADS = ["", " ", "\n", "\n\n\n", "\t", "  \t ", "\r\n", "// c\n", "/* \u00e9 */ ", "/* \U0001f600\U0001f600 */", "# h\r\n# i\r\n",
        "local long = '" + "x" * 300 + "';\n", "\n" * 40, "/*" + " " * 100000 + "*/", "/* {XFF}{XFE}{X80} */ ", "/* \t\t */\t"]


# errors whose span covers several lines, placed so that the span starts just before and ends just after the line number gains
# a digit (9|10, 99|100, 999|1000): the width of the line-number margin depends on which end is looked at
MULTILINE = [
    "{P}null{M}+ 1", "{P}{a: 1}{M}.b", "{P}[1, 2][{M}5]", "{P}error{M}'msg'", "{P}local x ={M}null; x + 1", "{P}assert false :{M}'m'; 1",
    "{P}std.length({M}1)", "{P}{ a:{M}error 'f' }.a", "{P}'unterminated{M}", "{P}/* unterminated{M}", "{P}|||\n  text{M}", "{P}zz({M}1)",
    "{P}local f(x) = x{M}+ null; f(1)", "{P}[1,{M}null < 2][1]", "{P}{ assert{M}false : 'a' }", "{P}if null{M}then 1 else 2",
    "{P}(function(a){M}a)()", "{P}std.map(function(x){M}x.q, [1])", "{P}{a: 1} +{M}{a+: 'x'} + {b: self.a + 1}.b",
]
MULTI_PADS = [7, 8, 9, 10, 97, 98, 99, 100, 997, 998, 999, 1000]
MULTI_GAPS = ["\n", "\n\n", "\n\n\n", "\r\n", "\n// c\n"]


def latin(b):
    return b.decode("latin-1")


def expected_line_col(src, start):
    """(line, col or None).  col only where the convention is unambiguous: the prefix of the line is printable
    ASCII without tabs."""
    line = src.count(b"\n", 0, start) + 1
    ls = src.rfind(b"\n", 0, start) + 1
    prefix = src[ls:start]
    if all(0x20 <= c < 0x7F for c in prefix):
        return line, len(prefix) + 1
    return line, None


def nlines(src):
    return src.count(b"\n") + 1


def render_case(agg, srv, src, path, family, stack=None):
    """One failing source: structured record through Program, rendered text through Session (plain and coloured,
    several max_trace values)."""
    rng = random.Random(common.h64(src))
    lines = run_lines(src, path=path, stack=stack)
    agg.evaluations += 1
    try:
        recs = srv.request(lines, timeout=120)
    except Crashed as e:
        if e.kind in ("timeout", "oom"):
            agg.inconc(e.kind)
        else:
            agg.inconc("c01_crash")
        return
    o = Outcome(recs)
    if o.cls in ("value", "panic", "herr"):
        if o.cls == "panic":
            loc = o.rec.s("loc") or ""
            msg = o.rec.s("msg") or ""
            if "span.rs" in loc or "lexer" in loc or "parser" in loc or "report" in loc:
                # a failing source whose diagnostic cannot even be built (span outside the source it names)
                agg.violation({"kind": "panic", "where": "building_diagnostic", "msg": re.sub(r"[0-9]+", "N", msg)[:120],
                               "loc": re.sub(r":[0-9]+", "", loc)},
                              {"family": family, "source": latin(src[:300]), "panic": msg, "loc": loc}, {"script": lines})
            else:
                agg.inconc("c01_panic")
        return
    rec = o.rec
    desc = {"family": family, "source": latin(src[:300]), "error": (rec.s("dbg") or "")[:200]}
    # (1) span monitor on the structured error
    agg.add("error_kinds", "%s:%s" % (rec.get("fam"), rec.get("kind")))
    if rec.get("badspans", "0") != "0":
        agg.violation({"kind": "span_outside_source", "errkind": rec.get("kind")}, dict(desc, spans=rec.get("spans"),
                      stackspans=rec.get("stackspans")), {"script": lines})
        return
    for field in ("spans", "stackspans"):
        v = rec.get(field, "-")
        if v in ("-", None):
            continue
        for sp in v.split(","):
            s_src, s, e, ln = sp.split(":")
            if s_src == "?" or not (0 <= int(s) <= int(e) <= int(ln)):
                agg.violation({"kind": "span_outside_source", "errkind": rec.get("kind")}, dict(desc, span=sp), {"script": lines})
                return
    primary = None
    if rec.get("spans", "-") != "-":
        p = rec["spans"].split(",")[0].split(":")
        if p[0] == "1":       # the user source (0 = stdlib)
            primary = (int(p[1]), int(p[2]))
    total_trace = int(rec.get("stack", "0"))
    # (2) rendering
    mt_choices = ["-", "0", "1", "2", "3", "7"]
    outputs = {}
    for colour in (0, 1):
        for mt in (rng.sample(mt_choices, 3) if total_trace else ["-"]):
            l2 = run_lines(src, path=path, stack=stack, session=(colour, mt))
            agg.evaluations += 1
            try:
                r2 = srv.request(l2, timeout=120)
                err = srv.stderr_since().decode("utf-8", "replace")
            except Crashed as e:
                if e.kind in ("timeout", "oom"):
                    agg.inconc(e.kind)
                    continue
                agg.violation({"kind": "render_crash"}, dict(desc, crash=e.detail[-300:]), {"script": l2})
                return
            o2 = Outcome(r2)
            if o2.cls == "panic":
                agg.violation({"kind": "panic", "where": "session", "msg": re.sub(r"[0-9]+", "N", o2.rec.s("msg") or "")[:120],
                               "loc": re.sub(r":[0-9]+$", "", o2.rec.s("loc") or "")},
                              dict(desc, panic=o2.rec.s("msg"), loc=o2.rec.s("loc"), colour=colour, max_trace=mt), {"script": l2})
                return
            if o2.cls == "value":
                agg.violation({"kind": "session_succeeds_where_program_fails"}, desc, {"script": l2})
                return
            text = re.sub(r"\x1e[0-9]+\n", "", err)
            plain = ANSI.sub("", text) if colour else text
            if colour and "\x1b[" not in text:
                agg.violation({"kind": "coloured_output_has_no_colour"}, dict(desc, text=text[:300]), {"script": l2})
            if not colour and "\x1b[" in text and b"\x1b" not in src:
                agg.violation({"kind": "plain_output_has_escape_codes"}, dict(desc, text=text[:300]), {"script": l2})
            outputs[(colour, mt)] = plain
            vd = dict(desc, colour=colour, max_trace=mt, rendered=plain[:1500])
            # strip TRACE: blocks (std.trace output precedes the error)
            body = plain
            first = next((ln for ln in body.split("\n") if ln.startswith("error: ")), None)
            if first is None:
                agg.violation({"kind": "no_error_header"}, vd, {"script": l2})
                return
            epos = body.index(first)
            after = body[epos:]
            if primary is not None:
                m = re.search(r"^ *--> (.*):([0-9]+):([0-9]+)$", after, re.M)
                # the primary label is the first location line after the error header and before the first note
                note_pos = after.find("\nnote: ")
                if m is None or (note_pos >= 0 and m.start() > note_pos):
                    agg.violation({"kind": "primary_span_not_located"}, vd, {"script": l2})
                    return
                line, col = expected_line_col(src, primary[0])
                if m.group(1) != path:
                    agg.violation({"kind": "wrong_file_named"}, dict(vd, named=m.group(1)), {"script": l2})
                    return
                gl, gc = int(m.group(2)), int(m.group(3))
                if gl != line or (col is not None and gc != col) or gl > nlines(src) or gc < 1:
                    agg.violation({"kind": "wrong_line_or_column"}, dict(vd, expected=[line, col], got=[gl, gc]), {"script": l2})
                    return
                agg.count("located_exact_col" if col is not None else "located_line_only")
            # every location line names a known file and an existing line
            for m in re.finditer(r"^ *--> (.*):([0-9]+):([0-9]+)$", after, re.M):
                if m.group(1) == path and int(m.group(2)) > nlines(src):
                    agg.violation({"kind": "location_beyond_last_line"}, vd, {"script": l2})
                    return
            # cropping arithmetic
            notes = [ln for ln in after.split("\n") if ln.startswith("note: ")]
            hidden = [ln for ln in notes if re.fullmatch(r"note: \.\.\. [0-9]+ items hidden \.\.\.", ln)]
            shown = len(notes) - len(hidden)
            if mt == "-" or total_trace <= int(mt):
                ok = (shown == total_trace and not hidden)
            else:
                nh = int(re.search(r"([0-9]+) items", hidden[0]).group(1)) if len(hidden) == 1 else -1
                ok = (len(hidden) == 1 and shown == int(mt) and nh == total_trace - int(mt) and shown + nh == total_trace)
            if not ok:
                agg.violation({"kind": "trace_cropping_arithmetic"}, dict(vd, total=total_trace, shown=shown,
                              hidden=hidden[:2]), {"script": l2})
                return
            agg.count("rendered")
    # colour-stripped == plain for equal max_trace
    for (c, mt), text in outputs.items():
        if c == 1 and (0, mt) in outputs and outputs[(0, mt)] != text:
            agg.violation({"kind": "coloured_differs_from_plain"}, dict(desc, plain=outputs[(0, mt)][:600], stripped=text[:600]), None)
            return
    agg.nontrivial.add(common.h64(src, path))
    if total_trace > 7:
        agg.count("long_traces")


def templates_shard(args):
    seed, cases = args
    agg = Agg()
    srv = Server()
    try:
        for (tmpl, pad, path, stack) in cases:
            src = tmpl.replace("{P}", pad).encode("utf-8").replace(b"{XFF}", b"\xff").replace(b"{XFE}", b"\xfe") \
                .replace(b"{X80}", b"\x80")
            render_case(agg, srv, src, path, "template", stack)
            if len(agg.samples) < 2:
                agg.sample({"source": latin(src[:120]), "path": path})
    finally:
        srv.close()
    return agg


def mutants_shard(args):
    seed, n = args
    rng = random.Random(seed)
    agg = Agg()
    srv = Server()
    try:
        for i in range(n):
            family, data = genbytes.gen_input(rng)
            if len(data) > 20000:
                continue
            path = rng.choice(["<in>", "dir/file.jsonnet", "weird name \u00e9.jsonnet", "a:b:c", "x"])
            render_case(agg, srv, data, path, family, rng.choice([None, None, 5, 50]))
    finally:
        srv.close()
    return agg


def long_trace_shard(args):
    seed, depths = args
    agg = Agg()
    srv = Server()
    try:
        for d in depths:
            src = ("local f(n) = if n == 0 then error 'bottom' else 1 + f(n - 1); f(%d)" % d).encode()
            render_case(agg, srv, src, "<deep>", "long_trace", stack=max(500, d * 3 + 100))
            src = ("local t = std.foldl(function(a, i) [a], std.range(1, %d), [error 'leaf']); t" % d).encode()
            render_case(agg, srv, src, "<tower>", "long_trace", stack=max(500, d * 3 + 100))
    finally:
        srv.close()
    return agg


def spanmon_shard(args):
    seed, runs = args
    agg = Agg()
    srv = Server()
    try:
        for (s, nctx, nspans, mode) in runs:
            agg.evaluations += nspans
            rec = srv.request(["SPANMON %d %d %d %d" % (s, nctx, nspans, mode)], timeout=600)[0]
            if rec.status == "PANIC":
                agg.violation({"kind": "span_manager_panic", "msg": re.sub(r"[0-9]+", "N", rec.s("msg") or "")[:80]},
                              {"run": [s, nctx, nspans, mode], "panic": rec.s("msg"), "loc": rec.s("loc")},
                              {"script": ["SPANMON %d %d %d %d" % (s, nctx, nspans, mode)]})
                continue
            if rec.status != "OK":
                raise common.Broken("SPANMON: " + rec.raw[:200])
            for k in ("spans", "interned", "reinterned", "biglen", "ctx_beyond_inline"):
                agg.count("spanmon_" + k, int(rec[k]))
            agg.count("spanmon_inline", int(rec["spans"]) - int(rec["interned"]))
            agg.count("spanmon_contexts", int(rec["ctxs"]))
            for i in range(min(int(rec["spans"]) - int(rec["reinterned"]), 50000)):
                agg.nontrivial.add(common.h64("span", str(s), str(mode), str(i)))
            if int(rec["mismatches"]) > 0:
                agg.violation({"kind": "span_round_trip_mismatch", "mode": mode},
                              {"run": [s, nctx, nspans, mode], "mismatches": int(rec["mismatches"]), "first": rec.s("first")},
                              {"script": ["SPANMON %d %d %d %d" % (s, nctx, nspans, mode)]})
            elif len(agg.samples) < 2:
                agg.sample({"spanmon": {k: v for k, v in rec.items() if k != "first"}})
    finally:
        srv.close()
    return agg


def eof_matrix():
    """Sources that end inside a lexical construct whose last 1-4 bytes are invalid or truncated UTF-8 (or an odd character):
    every error-producing prefix x every tail x every closer.  The error must be located inside the source and rendered."""
    prefixes = [b'"\\', b"'\\", b'"\\u12', b'"\\u', b'@"', b"@'", b'"', b"'", b"|||\n  ", b"|||\n  a\n ", b"/*", b"/* *", b"//", b"#", b"1e", b"1.", b"1_",
                b"$", b"x.", b"[1, ", b"{a: ", b"local x = ", b"import '", b"importstr @'", b'"ab\\x', b'"\\ud83d\\', b'"\\ud83d\\u', b"1 +", b"a@", b"`"]
    tails = [b"\xff", b"\xc3", b"\xe2\x82", b"\xf0\x9f\x98", b"\xed\xa0\x80", b"\xc0\x80", b"\xf4\x90\x80\x80", b"\x80", b"\xcc\xb9", b"\xe2\x80\x8b", b"\x00",
             b"\xf0\x9f\x98\x80", b"\xc3\xa9", b""]
    closers = [b"", b'"', b"'", b"\n", b"\r\n", b"*/", b"|||"]
    out = []
    for p_ in prefixes:
        for t_ in tails:
            for c_ in closers:
                out.append(p_ + t_ + c_)
    return out


def raw_sources_shard(args):
    seed, srcs = args
    agg = Agg()
    srv = Server()
    rng = random.Random(seed)
    try:
        for src in srcs:
            pad = rng.choice([b"", b"", b"\n", b"local z = 1;\n", b"\t "])
            render_case(agg, srv, pad + src, rng.choice(["<in>", "dir/f.jsonnet"]), "eof_matrix", None)
    finally:
        srv.close()
    return agg


def shared_path_shard(args):
    """Several distinct sources that carry the same display path, rendered one after another by one Session (virtual sources
    loaded under one name; a name equal to the standard library's): every diagnostic must quote and locate its own source."""
    seed, n = args
    rng = random.Random(seed)
    agg = Agg()
    srv = Server()
    try:
        for i in range(n):
            path = rng.choice(["<in>", "same.jsonnet", "<stdlib>", "dir/x.libsonnet", "-"])
            k = rng.choice([2, 2, 3])
            srcs = []
            for j in range(k):
                pad = rng.choice(["", " ", "\n", "\n\n\n   ", "\n" * rng.randint(4, 40) + " " * rng.randint(0, 30), "/* c */ ", "local zz = 1;\n"])
                body = rng.choice(["error 'MSG'", "std.map(function(x) error 'MSG', [1])[0]", "{a: error 'MSG'}.a", "local f(x) = error 'MSG'; f(1)",
                                   "std.length(std.toString(error 'MSG'))"]).replace("MSG", "m%d_%d" % (i, j))
                srcs.append((pad, body))
            colour = rng.randrange(2)
            lines = ["SESS %d %s" % (colour, rng.choice(["-", "0", "2", "7"]))]
            for j, (pad, body) in enumerate(srcs):
                lines.append("LOAD %d %s %s 1" % (j, hx(path), hx(pad + body)))
                lines.append("EVAL %d %d 0" % (j, j))
            agg.evaluations += 1
            try:
                recs = srv.request(lines, timeout=120)
                err = srv.stderr_since().decode("utf-8", "replace")
            except Crashed as e:
                if e.kind in ("timeout", "oom"):
                    agg.inconc(e.kind)
                    continue
                agg.violation({"kind": "render_crash", "family": "shared_path"}, {"sources": [p_ + b_ for p_, b_ in srcs], "crash": e.detail[-300:]}, {"script": lines})
                continue
            desc = {"path": path, "sources": [p_ + b_ for p_, b_ in srcs]}
            pan = [r for r in recs if r.status == "PANIC"]
            if pan:
                agg.violation({"kind": "panic", "where": "session", "msg": re.sub(r"[0-9]+", "N", pan[0].s("msg") or "")[:120],
                               "loc": re.sub(r":[0-9]+$", "", pan[0].s("loc") or "")}, dict(desc, panic=pan[0].s("msg")), {"script": lines})
                continue
            plain = ANSI.sub("", err)
            segs = re.split(r"\x1e[0-9]+\n", plain)
            ok = True
            for j, (pad, body) in enumerate(srcs):
                msg = "m%d_%d" % (i, j)
                seg = next((sg for sg in segs if "error: explicit error: " + msg in sg), None)
                if seg is None:
                    agg.violation({"kind": "no_error_header", "family": "shared_path"}, dict(desc, which=j, rendered=plain[:800]), {"script": lines})
                    ok = False
                    break
                src = (pad + body).encode()
                start = len(pad.encode()) + body.index("error '")
                line, col = expected_line_col(src, start)
                m = re.search(r"^ *--> (.*):([0-9]+):([0-9]+)$", seg, re.M)
                if m is None or m.group(1) != path or int(m.group(2)) != line or (col is not None and int(m.group(3)) != col):
                    agg.violation({"kind": "wrong_line_or_column", "family": "shared_path"},
                                  dict(desc, which=j, expected=[path, line, col], got=(m.groups() if m else None), rendered=seg[:600]), {"script": lines})
                    ok = False
                    break
                if ("error '%s'" % msg) not in seg.split("\n", 1)[1]:
                    agg.violation({"kind": "diagnostic_quotes_another_source", "family": "shared_path"},
                                  dict(desc, which=j, rendered=seg[:600]), {"script": lines})
                    ok = False
                    break
            if ok:
                agg.count("shared_path_ok")
                agg.add("shared_paths", path)
                agg.nontrivial.add(common.h64("shared", repr(srcs), path))
    finally:
        srv.close()
    return agg


def fuzz_judge(agg, d):
    """Re-run fuzz artifacts that belong to C16: the in-process span-containment monitor, and any panic raised while a
    diagnostic is located or rendered (span manager, report code, the annotation dependency)."""
    import fuzzleg
    data = d["data"]
    desc = {"family": "fuzz", "input": data[:400].decode("latin-1")}
    replay = {"script": run_lines(data, path="<in>", stack=120, session=(0, "-")), "fuzz_input_hex": data.hex()}
    if d["cls"] == "monitor" and d["prop"] == PROP:
        agg.violation({"kind": "span_outside_source", "where": "fuzz", "msg": re.sub(r"[0-9]+", "N", d["msg"])[:100]},
                      dict(desc, monitor=d["msg"]), replay)
    elif d["cls"] == "panic" and re.search(r"rsjsonnet-front/|sourceannot|/src/span\.rs|/report/", d["loc"]):
        agg.violation(fuzzleg.panic_signature(d, "session"), dict(desc, panic=d["msg"], loc="%s:%s" % (d["loc"], d["line"])), replay)
    elif d["cls"] in ("timeout", "resource"):
        agg.inconc("fuzz_" + d["cls"])
    else:
        agg.count("fuzz_artifact_of_other_property:" + d["cls"])


def fuzz_corpus_shard(args):
    inputs = args[0]
    agg = Agg()
    srv = Server()
    try:
        for k, data in enumerate(inputs):
            render_case(agg, srv, data, "<in>", "fuzz_corpus", [None, 5, 50][k % 3])
    finally:
        srv.close()
    return agg


def fuzz_corpus(agg, inputs):
    agg.count("fuzz_corpus_inputs_rendered", len(inputs))
    for a in common.pmap(fuzz_corpus_shard, [(inputs[i::16],) for i in range(16)]):
        agg.merge(a)


def run(tier, seed):
    t0 = time.time()
    quick = tier != "thorough"
    total = Agg()
    if not quick:
        # coverage-guided failing programs: span containment checked in process, the kept corpus rendered and located
        import fuzzleg
        import os
        fuzzleg.run_leg(total, PROP, "fz_pipeline", int(os.environ.get("VERIF_FUZZ_SECONDS") or 600), seed + 77, 2048,
                        fuzz_judge, fuzz_corpus)
    rng = random.Random(seed)
    cases = []
    paths = ["<in>", "dir/sub/file.jsonnet", "name with spaces.jsonnet", "\u00e9.jsonnet"]
    for tmpl in FAILING:
        pads = PADS if not quick else rng.sample(PADS, 5)
        for pad in pads:
            if "{P}" not in tmpl and pad:
                continue
            cases.append((tmpl, pad, rng.choice(paths), rng.choice([None, None, 3, 40])))
    for tmpl in MULTILINE:
        for lines in (MULTI_PADS if not quick else rng.sample(MULTI_PADS, 5)):
            for gap in (MULTI_GAPS if not quick else rng.sample(MULTI_GAPS, 2)):
                cases.append((tmpl.replace("{M}", gap), "\n" * (lines - 1), rng.choice(paths), rng.choice([None, None, 40])))
    rng.shuffle(cases)
    for a in common.pmap(templates_shard, [(seed, cases[i::32]) for i in range(32)]):
        total.merge(a)
    n = 2500 if quick else 150000
    for a in common.pmap(mutants_shard, [(seed * 811 + i, n // 32) for i in range(32)]):
        total.merge(a)
    em = eof_matrix()
    if quick:
        em = em[seed % 3::3]
    for a in common.pmap(raw_sources_shard, [(seed + i, em[i::32]) for i in range(32)]):
        total.merge(a)
    for a in common.pmap(shared_path_shard, [(seed * 823 + i, 40 if quick else 2000) for i in range(16)]):
        total.merge(a)
    depths = [0, 1, 2, 3, 4, 6, 7, 8, 9, 15, 100] if quick else list(range(0, 20)) + [50, 100, 499, 1000, 3000, 10000]
    for a in common.pmap(long_trace_shard, [(seed, depths[i::8]) for i in range(8)]):
        total.merge(a)
    runs = []
    k = 40 if quick else 1200
    for i in range(k):
        runs.append((seed * 1000 + i, rng.choice([1, 2, 5, 10, 50, 2000, 100000 if not quick else 20000]),
                     20000 if quick else 100000, i % 3))
    for a in common.pmap(spanmon_shard, [(seed, runs[i::16]) for i in range(16)]):
        total.merge(a)
    rule = (f"{len(FAILING)} failing templates (one per error family/kind: lexical, syntactic, static, run-time incl. "
            "imports, asserts, type errors, overflows, cycles) x paddings that move the error (first byte, after CRLF / "
            "tab / multi-byte / invalid UTF-8 / 100 000-column lines / 40 blank lines) + " + str(len(MULTILINE)) + " templates whose error span covers "
            "several lines and straddles the lines 9|10, 99|100, 999|1000 + an end-of-input matrix (30 prefixes that leave a lexical construct open x 14 invalid / truncated UTF-8 or zero-width tails x 7 "
            "closers) + several distinct sources under one display path rendered by one "
            "Session (each diagnostic must quote and locate its own source) + corpus mutants: (1) every "
            "span of the structured error and of each stack-trace item lies inside its source with start <= end; (2) "
            "rendered by Session plain and coloured with max_trace in {none,0,1,2,3,7}: no failure, an 'error:' "
            "header, the first location line names the file, the line computed from the span start and (for "
            "printable-ASCII line prefixes) the exact column; no location beyond the last line; shown + hidden == "
            "total trace length; colour-stripped == plain; traces up to 10^4 items; (3) SpanManager round trips in "
            "three regimes (contexts up to 2^40 bytes, many small contexts, offsets straddling 2^38; span lengths "
            "around 2^25): get_span(intern_span(c,s,e)) == (c,s,e), re-interning gives the same id. "
            "thorough tier: a coverage-guided libFuzzer campaign whose in-process monitor checks every error / stack-trace span against its source, kept corpus rendered and located like the templates. "
            "distinct_nontrivial = distinct failing sources fully rendered + distinct spans registered.")
    return common.finish(PROP, tier, seed, total, rule, t0,
                         assumptions=["columns are compared only where display width == byte offset (printable ASCII prefix)"])

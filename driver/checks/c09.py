"""C09 - scoping errors are found before anything runs, and only real ones."""
import random
import re
import time

import common
import genast
import genprog
from common import Agg, Ev, hx, Crashed, Server

PROP = "C09"


# ------------------------------------------------------------------------------------------------
# the oracle: static scoping rules of the specification over generator trees

def scope_faults(tree):
    """All static faults as (kind, name|None, node) in traversal order."""
    faults = []

    def dup(names, kind, nodes=None):
        seen = set()
        for i, n in enumerate(names):
            if n in seen:
                faults.append((kind, n, None))
            seen.add(n)

    def params(ps, env, inobj):
        dup([p[1] for p in ps], "RepeatedParamName")
        env2 = env | {p[1] for p in ps}
        for p in ps:
            if p[2] is not None:
                ex(p[2], env2, inobj)
        return env2

    def bind_body(b, env, inobj):
        _, name, ps, e = b
        if ps is None:
            ex(e, env, inobj)
        else:
            env2 = params(ps, env, inobj)
            ex(e, env2, inobj)

    def specs(ss, env, inobj):
        for s in ss:
            if s[0] == "sfor":
                ex(s[2], env, inobj)
                env = env | {s[1]}
            else:
                ex(s[1], env, inobj)
        return env

    def fname(n, env, inobj):
        if n[0] == "ename":
            ex(n[1], env, inobj)

    def obj(o, env, inobj):
        if o[0] == "obj":
            members = o[1]
            locals_ = [m[1] for m in members if m[0] == "mlocal"]
            dup([b[1] for b in locals_], "RepeatedLocalName")
            static = [m[1][1] for m in members if m[0] in ("field", "ffunc") and m[1][0] in ("id", "sname")]
            dup(static, "RepeatedFieldName")
            inner = env | {b[1] for b in locals_}
            for m in members:
                if m[0] in ("field", "ffunc"):
                    fname(m[1], env, inobj)          # computed names see the OUTER scope only
            for m in members:
                if m[0] == "field":
                    ex(m[4], inner, True)
                elif m[0] == "ffunc":
                    env2 = params(m[2], inner, True)
                    ex(m[4], env2, True)
                elif m[0] == "mlocal":
                    bind_body(m[1], inner, True)
                else:
                    ex(m[1], inner, True)
                    if m[2] is not None:
                        ex(m[2], inner, True)
            return
        _, l1, key, plus, val, l2, ss = o
        env_c = specs(ss, env, inobj)
        ex(key, env_c, inobj)
        binds = list(l1) + list(l2)
        dup([b[1] for b in binds], "RepeatedLocalName")
        inner = env_c | {b[1] for b in binds}
        for b in binds:
            bind_body(b, inner, True)
        ex(val, inner, True)

    def ex(e, env, inobj):
        k = e[0]
        if k in ("null", "true", "false", "num", "str"):
            return
        if k == "var":
            if e[1] not in env:
                faults.append(("UnknownVariable", e[1], e))
            return
        if k == "self":
            if not inobj:
                faults.append(("SelfOutsideObject", None, e))
            return
        if k == "dollar":
            if not inobj:
                faults.append(("DollarOutsideObject", None, e))
            return
        if k in ("superdot", "superidx", "insuper"):
            if not inobj:
                faults.append(("SuperOutsideObject", None, e))
            if k != "superdot":
                ex(e[1], env, inobj)
            return
        if k == "paren":
            return ex(e[1], env, inobj)
        if k == "arr":
            for x in e[1]:
                ex(x, env, inobj)
            return
        if k == "arrcomp":
            env2 = specs(e[2], env, inobj)
            return ex(e[1], env2, inobj)
        if k in ("obj", "objcomp"):
            return obj(e, env, inobj)
        if k == "dot":
            return ex(e[1], env, inobj)
        if k == "index":
            ex(e[1], env, inobj)
            return ex(e[2], env, inobj)
        if k == "slice":
            for p in e[1:5]:
                if p is not None:
                    ex(p, env, inobj)
            return
        if k == "call":
            ex(e[1], env, inobj)
            named = False
            for a in e[2]:
                if a[0] == "named":
                    named = True
                    ex(a[2], env, inobj)
                else:
                    if named:
                        faults.append(("PositionalArgAfterNamed", None, a[1]))
                    ex(a[1], env, inobj)
            return
        if k == "local":
            dup([b[1] for b in e[1]], "RepeatedLocalName")
            env2 = env | {b[1] for b in e[1]}
            for b in e[1]:
                bind_body(b, env2, inobj)
            return ex(e[2], env2, inobj)
        if k == "if":
            ex(e[1], env, inobj)
            ex(e[2], env, inobj)
            if e[3] is not None:
                ex(e[3], env, inobj)
            return
        if k == "func":
            env2 = params(e[1], env, inobj)
            return ex(e[2], env2, inobj)
        if k == "assert":
            ex(e[1], env, inobj)
            if e[2] is not None:
                ex(e[2], env, inobj)
            return ex(e[3], env, inobj)
        if k == "error":
            return ex(e[1], env, inobj)
        if k in ("import", "importstr", "importbin"):
            p = e[1]
            while p[0] == "paren":
                p = p[1]
            if p[0] != "str":
                faults.append(("ComputedImportPath", None, e[1]))
            elif p[2] == "tb":
                faults.append(("TextBlockAsImportPath", None, e[1]))
            return
        if k == "un":
            return ex(e[2], env, inobj)
        if k == "bin":
            ex(e[2], env, inobj)
            return ex(e[3], env, inobj)
        if k == "objext":
            ex(e[1], env, inobj)
            return obj(e[2], env, inobj)
        raise AssertionError(k)
    ex(tree, {"std"}, False)
    return faults


# ------------------------------------------------------------------------------------------------
# workload

def rename_to_pool(tree, rng, pool):
    """Renames every generated variable (v1, p2, f3, ...) to a name from a small pool: creates shadowing at every
    binder kind and, sometimes, duplicate binders / captures: the oracle decides what must happen."""
    mapping = {}

    def nm(n):
        if re.fullmatch(r"[a-z][0-9]+", n) or n in ("top",):
            if n not in mapping:
                mapping[n] = rng.choice(pool)
            return mapping[n]
        return n

    def walk(node):
        k = node[0]
        if k == "var":
            return ("var", nm(node[1]))
        if k == "param":
            return ("param", nm(node[1]), None if node[2] is None else walk(node[2]))
        if k == "bind":
            ps = None if node[2] is None else [walk(p) for p in node[2]]
            return ("bind", nm(node[1]), ps, walk(node[3]))
        if k == "named":
            return ("named", nm(node[1]), walk(node[2]))
        if k == "sfor":
            return ("sfor", nm(node[1]), walk(node[2]))
        out = []
        for x in node:
            if isinstance(x, tuple) and x and isinstance(x[0], str):
                out.append(walk(x))
            elif isinstance(x, list):
                out.append([walk(y) if isinstance(y, tuple) and y and isinstance(y[0], str) else y for y in x])
            else:
                out.append(x)
        return tuple(out)
    return walk(tree)


FAULTS = ["unbound", "self", "super", "dollar", "dup_local", "dup_param", "dup_field", "pos_after_named",
          "computed_import", "dup_objlocal", "unbound_in_dead_branch", "unbound_in_unused_local", "unbound_in_default"]


def inject(tree, rng):
    """Replaces a random expression site by a faulty expression.  Returns (tree, fault kind, site role)."""
    sites = []

    def collect(node, in_obj):
        def f(child, role):
            sites.append((child, role, in_obj or node[0] in ("obj", "objcomp")))
            collect(child, in_obj or node[0] in ("obj", "objcomp", "objext"))
            return child
        genast.map_children(node, f)
    collect(tree, False)
    if not sites:
        return None
    target, role, _ = rng.choice(sites)
    kind = rng.choice(FAULTS)
    one = ("num", "1")
    bad = {
        "unbound": ("var", "zz_unbound"),
        "self": ("dot", ("self",), "a"),
        "super": ("superdot", "a"),
        "dollar": ("dot", ("dollar",), "a"),
        "dup_local": ("local", [("bind", "q", None, one), ("bind", "q", None, ("num", "2"))], ("num", "3")),
        "dup_param": ("func", [("param", "q", None), ("param", "q", None)], one),
        "dup_field": ("obj", [("field", ("id", "q"), False, 1, one), ("field", ("sname", "q", "dq"), False, 2, one)]),
        "pos_after_named": ("call", ("func", [("param", "q", None), ("param", "r", None)], one),
                            [("named", "q", one), ("pos", one)], False),
        "computed_import": ("import", ("bin", "+", ("str", "a", "dq"), ("str", "b", "dq"))),
        "dup_objlocal": ("obj", [("mlocal", ("bind", "q", None, one)), ("mlocal", ("bind", "q", None, one)),
                                 ("field", ("id", "f"), False, 1, one)]),
        "unbound_in_dead_branch": ("if", ("true",), one, ("var", "zz_unbound")),
        "unbound_in_unused_local": ("local", [("bind", "unused_q", None, ("var", "zz_unbound"))], one),
        "unbound_in_default": ("call", ("func", [("param", "q", ("var", "zz_unbound"))], one), [("pos", one)], False),
    }[kind]
    done = [False]

    def walk(node):
        def f(child, r):
            if child is target and not done[0]:
                done[0] = True
                return bad
            return walk(child)
        return genast.map_children(node, f)
    new = walk(tree)
    if not done[0]:
        return None
    return new, kind, role


EXPECT_KIND = {"unbound": "UnknownVariable", "self": "SelfOutsideObject", "super": "SuperOutsideObject",
               "dollar": "DollarOutsideObject", "dup_local": "RepeatedLocalName", "dup_param": "RepeatedParamName",
               "dup_field": "RepeatedFieldName", "pos_after_named": "PositionalArgAfterNamed",
               "computed_import": "ComputedImportPath", "dup_objlocal": "RepeatedLocalName",
               "unbound_in_dead_branch": "UnknownVariable", "unbound_in_unused_local": "UnknownVariable",
               "unbound_in_default": "UnknownVariable"}


def load_only(srv, text):
    lines = ["NEW", "LOAD 0 %s %s 1" % (hx("<prog>"), hx(text))]
    return srv.request(lines, timeout=60)[1], lines


def judge(agg, srv, tree, family, expect_fault=None, role=None):
    """Loads (never evaluates) the program and compares accept/reject (+ error kind/name/span) with the oracle."""
    text, printer = genast.render(tree, random.choice(["min", "noisy"]) if False else "min")
    faults = scope_faults(tree)
    agg.evaluations += 1
    try:
        rec, lines = load_only(srv, text)
    except Crashed as e:
        if e.kind in ("timeout", "oom"):
            agg.inconc(e.kind)
            return None
        agg.violation({"kind": "analyzer_crash"}, {"program": text.decode("utf-8", "replace")[:800], "crash": e.detail[-300:]}, None)
        return None
    desc = {"family": family, "program": text.decode("utf-8", "replace")[:1200], "oracle_faults": [(k, n) for k, n, _ in faults[:4]]}
    replay = {"script": lines}
    if rec.status == "PANIC":
        agg.violation({"kind": "analyzer_panic", "msg": re.sub(r"[0-9]+", "N", rec.s("msg") or "")[:80]},
                      dict(desc, panic=rec.s("msg")), replay)
        return None
    if rec.status == "ERR" and rec.get("fam") != "analyze":
        agg.violation({"kind": "printed_program_not_parsed", "fam": rec.get("fam")}, dict(desc, error=(rec.s("dbg") or "")[:200]), replay)
        return None
    rejected = rec.status == "ERR"
    if rejected and not faults:
        agg.violation({"kind": "well_scoped_program_rejected", "err": rec.get("kind")},
                      dict(desc, error=(rec.s("dbg") or "")[:300]), replay)
        return None
    if not rejected and faults:
        agg.violation({"kind": "scoping_fault_not_detected", "fault": faults[0][0], "position": role},
                      desc, replay)
        return None
    if rejected:
        kinds = {k for k, _, _ in faults}
        if rec.get("kind") not in kinds:
            agg.violation({"kind": "wrong_static_error", "got": rec.get("kind"), "expected": sorted(kinds)[0]},
                          dict(desc, error=(rec.s("dbg") or "")[:300]), replay)
            return None
        if len(faults) == 1:
            k, name, node = faults[0]
            if name is not None and rec.s("msg") != name:
                agg.violation({"kind": "wrong_name_in_static_error"}, dict(desc, got=rec.s("msg"), expected=name), replay)
                return None
            if node is not None and id(node) in printer.ext and k in ("UnknownVariable", "SelfOutsideObject", "DollarOutsideObject"):
                s, e = printer.ext[id(node)]
                sp = rec["spans"].split(",")[0].split(":")
                if (int(sp[1]), int(sp[2])) != (s, e):
                    agg.violation({"kind": "static_error_points_elsewhere", "fault": k},
                                  dict(desc, expected_span=[s, e], got_span=[int(sp[1]), int(sp[2])]), replay)
                    return None
                agg.count("span_exact")
        agg.count("rejected:" + rec.get("kind"))
        if expect_fault:
            agg.add("fault_x_position", (expect_fault, role))
    else:
        agg.count("accepted")
    agg.nontrivial.add(common.h64(text))
    return rejected


def shard(args):
    seed, n = args
    rng = random.Random(seed)
    agg = Agg()
    srv = Server()
    ev = Ev(agg)
    try:
        for i in range(n):
            g = genprog.Gen(rng, depth=rng.choice([2, 3, 3, 4]), obj_heavy=rng.random() < 0.3)
            base = g.top()
            # (a) clean, with shadowing: rename to a small pool; the oracle says whether it stays well scoped
            pool = rng.choice([["x"], ["x", "y"], ["x", "y", "z"], ["x", "y", "z", "w", "std"], ["a", "b", "self_", "x"]])
            renamed = rename_to_pool(base, rng, pool)
            rej = judge(agg, srv, renamed, "renamed_to_pool")
            if rej is False:
                # a program that passed the check must never fail because a variable/self/$ is unbound
                text, _ = genast.render(renamed, "min")
                r = ev.run(text, walk=0, stack=500)
                if r.cls in ("panic", "crash"):
                    agg.violation({"kind": "accepted_program_crashes", "msg": re.sub(r"[0-9]+", "N", (r.msg or ""))[:80]},
                                  {"program": text.decode("utf-8", "replace")[:1000], "panic": r.msg}, {"script": r.lines})
                else:
                    agg.count("accepted_then_evaluated:" + r.cls)
            judge(agg, srv, base, "clean")
            # (b) one injected fault at a random node
            inj = inject(base, rng)
            if inj is not None:
                tree, kind, role = inj
                faults = scope_faults(tree)
                if not faults:
                    # e.g. `self` injected inside an object is legal
                    agg.count("injection_legal_here")
                    judge(agg, srv, tree, "injected_legal")
                else:
                    judge(agg, srv, tree, "injected", kind, role)
            # syntactic trees (arbitrary scoping, unbound names galore): accept/reject must match too
            if rng.random() < 0.3:
                sg = genast.SynGen(rng, rng.choice([5, 12, 25]))
                st = genast.dangling_else_safe(sg.expr())
                judge(agg, srv, st, "syntactic")
            if i < 1:
                agg.sample({"program": genast.render(renamed, "min")[0].decode("utf-8", "replace")[:300],
                            "oracle": [(k, nme) for k, nme, _ in scope_faults(renamed)[:3]]})
    finally:
        srv.close()
        ev.close()
    return agg


# ------------------------------------------------------------------------------------------------
# binder matrix: every scope kind x every pair of binder slots of that scope (equal or distinct names) x the
# same names in *nested* scopes (legal shadowing) x live / dead contexts.  The oracle above decides each verdict.

def binder_matrix():
    one = ("num", "1")
    out = []

    def name_sets(n):
        yield None, ["n%d" % k for k in range(n)]
        for i in range(n):
            for j in range(i + 1, n):
                nm = ["n%d" % k for k in range(n)]
                nm[j] = nm[i]
                yield (i, j), nm

    def fld(name, kind, vis=1):
        fn = ("id", name) if kind == 0 else ("sname", name, "dq" if kind == 1 else "sq")
        return ("field", fn, False, vis, one)

    for n in (2, 3):
        for pair, nm in name_sets(n):
            tag = "same%s" % (pair,) if pair else "distinct"
            binds = [("bind", x, None, one) for x in nm]
            params = [("param", x, None) for x in nm]
            dparams = [("param", x, one if k else None) for k, x in enumerate(nm)]
            out.append(("local/" + tag, ("local", binds, ("var", nm[0]))))
            out.append(("func/" + tag, ("func", params, one)))
            out.append(("func_defaults/" + tag, ("func", dparams, one)))
            out.append(("local_func/" + tag, ("local", [("bind", "f", params, one)], one)))
            out.append(("method/" + tag, ("obj", [("ffunc", ("id", "m"), params, 1, one)])))
            out.append(("objlocal_func/" + tag, ("obj", [("mlocal", ("bind", "f", params, one)), fld("k", 0)])))
            # nested scopes: legal shadowing whatever the names
            out.append(("nested_local/" + tag, ("local", [binds[0]], ("local", binds[1:], one))))
            out.append(("param_vs_local/" + tag, ("local", [binds[0]], ("func", params[1:], one))))
            out.append(("comp_vars/" + tag, ("arrcomp", one, [("sfor", x, ("arr", [one])) for x in nm])))
            out.append(("objlocal_vs_outer/" + tag, ("local", [binds[0]], ("obj", [("mlocal", b) for b in binds[1:]] + [fld("k", 0)]))))
            # object locals interleaved with fields in every arrangement
            for mask in range(1 << (n + 1)):
                members = []
                for k in range(n):
                    if mask >> k & 1:
                        members.append(fld("f%d" % k, 0))
                    members.append(("mlocal", binds[k]))
                if mask >> n & 1:
                    members.append(fld("g", 0))
                out.append(("objlocals/%s/m%d" % (tag, mask), ("obj", members)))
            # object comprehension: k locals before the field, n-k after
            for k in range(n + 1):
                oc = ("objcomp", binds[:k], ("var", "cv"), False, one, binds[k:], [("sfor", "cv", ("arr", [("str", "a", "dq")]))])
                out.append(("objcomp_locals/%s/before%d" % (tag, k), oc))
            out.append(("objcomp_local_vs_compvar/" + tag,
                        ("objcomp", binds[1:], ("var", nm[0]), False, one, [], [("sfor", nm[0], ("arr", [("str", "a", "dq")]))])))
            # statically named fields: identifier / string spellings, visibilities, methods
            for kinds in ((0, 0, 0), (0, 1, 2), (1, 1, 0), (2, 0, 1)):
                for vis in ((1, 1, 1), (1, 2, 3), (3, 1, 2)):
                    members = [fld(x, kinds[k], vis[k]) for k, x in enumerate(nm)]
                    out.append(("fields/%s/k%s/v%s" % (tag, "".join(map(str, kinds)), "".join(map(str, vis))), ("obj", members)))
            members = [fld(nm[0], 0)] + [("ffunc", ("id", x), [], 1, one) for x in nm[1:]]
            out.append(("field_vs_method/" + tag, ("obj", members)))
            members = [("field", ("ename", ("str", x, "dq")), False, 1, one) for x in nm]
            out.append(("computed_names_equal_is_runtime/" + tag, ("obj", members)))
    return out


def in_contexts(tree):
    one = ("num", "1")
    yield "live", tree
    yield "dead_else", ("if", ("true",), one, tree)
    yield "unused_local", ("local", [("bind", "unused_q", None, tree)], one)
    yield "default_arg", ("call", ("func", [("param", "q", tree)], one), [("pos", one)], False)
    yield "hidden_field", ("dot", ("obj", [("field", ("id", "h"), False, 2, tree), ("field", ("id", "v"), False, 1, one)]), "v")
    yield "comp_body_never", ("arrcomp", tree, [("sfor", "zq", ("arr", []))])
    yield "fieldname_expr", ("obj", [("field", ("ename", ("if", ("false",), tree, ("str", "k", "dq"))), False, 1, one)])
    yield "uncalled_function", ("local", [("bind", "uf", [], tree)], one)


def matrix_shard(args):
    cases, = args
    agg = Agg()
    srv = Server()
    ev = Ev(agg)
    try:
        for name, ctx, tree in cases:
            rej = judge(agg, srv, tree, "binder_matrix:" + name.split("/")[0] + ":" + ctx)
            if rej is not None:
                agg.add("binder_matrix_cells", (name.split("/")[0], ctx, rej))
            if rej is False:
                text, _ = genast.render(tree, "min")
                r = ev.run(text, walk=0, stack=500)
                if r.cls in ("panic", "crash"):
                    agg.violation({"kind": "accepted_program_crashes", "msg": re.sub(r"[0-9]+", "N", (r.msg or ""))[:80]},
                                  {"program": text.decode("utf-8", "replace")[:1000], "panic": r.msg}, {"script": r.lines})
    finally:
        srv.close()
        ev.close()
    return agg


TEMPLATES_OK = [
    "local x = 1; local x = 2; x", "local x = 1; (function(x) x)(2)", "local x = 1; [x for x in [x]]",
    "local x = 1; {x: x, local y = x, z: y}", "local x = 1; {local x = 2, a: x}", "{a: 1, b: {a: self.a}}",
    "local f(x, y=x) = y; f(1)", "local f(x=y, y=1) = x; f()", "{[k]: k for k in ['a']}", "local a = b, b = 1; a",
    "{local a = b, local b = 1, c: a}", "local std = 1; std", "function(self_) self_", "{a: $}.a.a.a == null || true",
    "{f(x):: x + self.g, g: 1}", "[y for x in [[1]] for y in x]", "{[x]: 1 for x in ['a'] if x != 'b'}",
    "local x = 1; {[std.toString(x)]: 1}", "{a: 1} {b: super.a}", "{local s = self, a: s.b, b: 1}",
    "{a: {b: $.c}, c: 1}", "local o = {a: 1}; o {a+: 1}", "{assert self.a == 1, a: 1}", "(import 'x.libsonnet') == 1 || true",
    "{a: 'x' in super}", "local f(a) = a; f(a=1)", "{x: 1, 'y': 2, ['x' + 'z']: 3}", "{a: function() self.b, b: 1}.a()",
]
TEMPLATES_BAD = [
    ("x", "UnknownVariable"), ("local x = y; 1", "UnknownVariable"), ("if false then zz else 1", "UnknownVariable"),
    ("local f(a=zz) = 1; 1", "UnknownVariable"), ("[x for y in [1]]", "UnknownVariable"), ("[1 for x in x]", "UnknownVariable"),
    ("{[k]: 1 for j in ['a']}", "UnknownVariable"), ("{local l = 1, [l]: 2}", "UnknownVariable"),
    ("{[x]: 1 for x in ['a'] for y in [x, z]}", "UnknownVariable"), ("self", "SelfOutsideObject"), ("$", "DollarOutsideObject"),
    ("super.a", "SuperOutsideObject"), ("'a' in super", "SuperOutsideObject"), ("{[self.a]: 1}", "SelfOutsideObject"),
    ("{[$.a]: 1}", "DollarOutsideObject"), ("local f = function() self; {a: 1}", "SelfOutsideObject"),
    ("local x = 1, x = 2; x", "RepeatedLocalName"), ("{local a = 1, local a = 2, b: 1}", "RepeatedLocalName"),
    ("function(a, a) 1", "RepeatedParamName"), ("local f(a, a) = 1; 1", "RepeatedParamName"), ("{f(a, a): 1}", "RepeatedParamName"),
    ("{a: 1, a: 2}", "RepeatedFieldName"), ("{a: 1, 'a': 2}", "RepeatedFieldName"), ("{a: 1, a:: 2}", "RepeatedFieldName"),
    ("{a: 1, a(x): 2}", "RepeatedFieldName"), ("local f(a, b) = 1; f(a=1, 2)", "PositionalArgAfterNamed"),
    ("import 'a' + 'b'", "ComputedImportPath"), ("importstr ('a' + 'b')", "ComputedImportPath"), ("local p = 'a'; importbin p", "ComputedImportPath"),
    ("import |||\n  a\n|||", "TextBlockAsImportPath"), ("{a: 1} + {b: if false then unbound_dead}", "UnknownVariable"),
    ("local unused = function() nope; 1", "UnknownVariable"), ("{a:: unbound_hidden}", "UnknownVariable"),
    ("[1, 2][0:unbound_slice]", "UnknownVariable"), ("{assert unbound_assert, a: 1}", "UnknownVariable"),
    ("error unbound_err", "UnknownVariable"), ("std.length(x=unbound_named)", "UnknownVariable"),
]


def templates_shard(args):
    agg = Agg()
    srv = Server()
    try:
        for src in TEMPLATES_OK:
            rec, lines = load_only(srv, src.encode())
            agg.evaluations += 1
            agg.nontrivial.add(common.h64(src))
            if rec.status != "OK":
                agg.violation({"kind": "well_scoped_template_rejected", "src": src[:60]}, {"src": src, "error": (rec.s("dbg") or "")[:200]},
                              {"script": lines})
        for src, kind in TEMPLATES_BAD:
            rec, lines = load_only(srv, src.encode())
            agg.evaluations += 1
            agg.nontrivial.add(common.h64(src))
            if rec.status != "ERR" or rec.get("fam") != "analyze" or rec.get("kind") != kind:
                agg.violation({"kind": "bad_template_outcome", "src": src[:60]},
                              {"src": src, "expected": kind, "got": rec.raw[:300]}, {"script": lines})
    finally:
        srv.close()
    return agg


# ------------------------------------------------------------------------------------------------
# callbacks handed to the standard library: a function value carries its defining environment, so default arguments
# that mention captured locals / std / self / $ must still resolve when a builtin (not user code) makes the call

CB_DEFAULTS = [("cap", "captured local"), ("std.length('ab') + cap", "std and captured"), ("self.q", "self"), ("$.q", "dollar"),
               ("outer.q", "captured object")]
CB_RETURNS = ["d", "d > 0", "std.toString(d)", "[d]", "if d > 0 then p0 else p0", "{k: d}"]
CB_OTHERS = ["[1, 2]", "'ab'", "{a: 1, b: 2}", "1", "[[1], [2]]", "['a', 'b']"]


def callback_sources(funcs):
    out = []
    for fname, arity in funcs:
        if arity < 1 or arity > 4:
            continue
        for pos in range(arity):
            for req in (0, 1, 2, 3):
                for di, (dflt, _) in enumerate(CB_DEFAULTS):
                    for ri, ret in enumerate(CB_RETURNS):
                        if req == 0 and "p0" in ret:
                            continue
                        params = ", ".join(["p%d" % i for i in range(req)] + ["d=" + dflt])
                        cb = "function(%s) %s" % (params, ret)
                        for oi, other in enumerate(CB_OTHERS):
                            args = [cb if i == pos else other for i in range(arity)]
                            src = ("local cap = 7; local outer = {q: 5}; {q: 3, r: std.%s(%s)}.r" % (fname, ", ".join(args)))
                            out.append((fname, pos, req, di, src))
    return out


def callbacks_shard(args):
    cases, = args
    agg = Agg()
    ev = Ev(agg)
    try:
        for fname, pos, req, di, src in cases:
            r = ev.run(src, walk=1, stack=500)
            if r.cls == "inconclusive":
                continue
            if r.cls in ("panic", "crash"):
                agg.violation({"kind": "callback_default_lost_scope", "fn": fname, "pos": pos,
                               "msg": re.sub(r"[0-9]+", "N", (r.msg or ""))[:80]},
                              {"program": src, "panic": r.msg, "default_kind": CB_DEFAULTS[di][1]}, {"script": r.lines})
                continue
            if r.cls == "error" and r.kind == "UnknownVariable":
                agg.violation({"kind": "callback_unknown_variable", "fn": fname}, {"program": src, "got": r.brief()}, {"script": r.lines})
                continue
            agg.count("callback:" + r.cls)
            if r.cls == "value":
                agg.add("callback_called_ok", (fname, pos))
            agg.nontrivial.add(common.h64(src))
    finally:
        ev.close()
    return agg


def run(tier, seed):
    t0 = time.time()
    quick = tier != "thorough"
    total = Agg()
    n = 8000 if quick else 500_000
    for a in common.pmap(shard, [(seed * 1201 + i, n // 64) for i in range(64)]):
        total.merge(a)
    for a in common.pmap(templates_shard, [(seed,)]):
        total.merge(a)
    mcases = [(name, ctx, t2) for name, t in binder_matrix() for ctx, t2 in in_contexts(t)]
    total.count("binder_matrix_cases", len(mcases))
    for a in common.pmap(matrix_shard, [(mcases[i::32],) for i in range(32)]):
        total.merge(a)
    srv0 = Server()
    try:
        from checks.c01 import std_functions
        funcs = sorted((f, k) for f, k in std_functions(srv0).items() if k >= 0)
    finally:
        srv0.close()
    cases = callback_sources(funcs)
    if quick:
        rng = random.Random(seed * 31 + 5)
        cases = rng.sample(cases, min(len(cases), 120_000))
    for a in common.pmap(callbacks_shard, [(cases[i::64],) for i in range(64)]):
        total.merge(a)
    rule = ("generated programs are only loaded (never evaluated) and the accept/reject verdict, the AnalyzeError "
            "variant, the reported name and (for unbound variables, self, $) the exact span are compared with a scope "
            "checker written from the specification's static rules: (a) typed closed programs, also with every "
            "generated binder renamed to a pool of 1-5 names (shadowing at every binder kind, duplicate binders, "
            "captures; a local named std); (b) one of 13 fault kinds injected at a random node (incl. dead branches, "
            "unused locals, default arguments, comprehension specs, field-name expressions, object locals); (c) "
            "arbitrary syntactic trees; (d) every accepted renamed program is then evaluated: no 'variable not "
            "found'/self/$ panic; (e) every std function x argument position given a callback whose defaulted "
            "parameter mentions a captured local / std / self / $ (0-3 required parameters, 6 result shapes, 6 "
            "companion arguments): no panic, no unknown-variable error; (f) binder matrix: every scope kind (local, function / "
            "local-function / method parameters, object locals interleaved with fields in every arrangement, object-comprehension "
            "locals split before/after the field in every way, statically named fields in identifier/string spellings x "
            "visibilities, nested scopes where the same name is legal) x every pair of binder slots equal or distinct x 8 "
            "contexts (live, dead branch, unused local, default argument, hidden field, never-executed comprehension body, "
            "field-name expression, uncalled function); + 65 hand-written accept/reject templates. distinct_nontrivial = distinct "
            "programs whose verdict was compared.")
    return common.finish(PROP, tier, seed, total, rule, t0,
                         assumptions=["scope oracle = my reading of the specification's static checks"])

"""C02 - the core language evaluates as the Jsonnet specification defines."""
import random
import re
import time

import common
import genast
import genprog
import refinterp
from common import Agg, Ev, same_value

PROP = "C02"


def rs_class(r):
    """Outcome class of an rsjsonnet result in the model's vocabulary."""
    if r.cls == "value":
        return ("V",)
    if r.cls == "error":
        if r.kind == "ExplicitError":
            return ("E", "error", r.msg)
        if r.kind == "AssertFailed":
            return ("E", "assert", r.msg)
        return ("E", "runtime", r.kind)
    return (r.cls,)


def compare_with_model(agg, ev, tree, family, modes=("min", "noisy"), seed=0, extra_sites=0):
    """Evaluates tree in the model and (printed) in rsjsonnet.  Returns the model outcome."""
    m = refinterp.run(tree)
    if m[0] == "U":
        agg.count("model_unmodelled")
        agg.add("unmodelled_reasons", m[1][:40])
        return m
    for mode in modes:
        text, _ = genast.render(tree, mode, random.Random(seed))
        r = ev.run(text, walk=1, stack=2000)
        if r.cls == "inconclusive":
            return m
        desc = {"family": family, "mode": mode, "program": text.decode("utf-8", "replace")[:1500]}
        if r.cls in ("panic", "crash"):
            agg.violation(common.panic_signature(r, {"family": family}), desc, {"script": r.lines})
            return m
        got = rs_class(r)
        if r.cls == "error" and r.kind in ("StackOverflow",):
            agg.count("skipped_stack_overflow")
            return m
        if m[0] == "V":
            if got[0] != "V":
                agg.violation({"kind": "model_value_impl_error", "err": r.kind},
                              dict(desc, expected=repr(m[1])[:400], got=r.brief()), {"script": r.lines})
                return m
            if not same_value(r.value, m[1], strict_zero=False):
                agg.violation({"kind": "value_differs_from_specification"},
                              dict(desc, expected=repr(m[1])[:600], got=repr(r.value)[:600]), {"script": r.lines})
                return m
        else:
            if got[0] == "V":
                agg.violation({"kind": "model_error_impl_value", "model": m[1]},
                              dict(desc, expected_error=[m[1], m[2]], got=repr(r.value)[:400]), {"script": r.lines})
                return m
            if m[1] in ("error", "assert"):
                if got[1] != m[1] or got[2] != m[2]:
                    if got[1] == "runtime" or (got[1] in ("error", "assert") and got != ("E", m[1], m[2])):
                        # both fail but differently: only a violation if the program has a single failure site,
                        # otherwise the (partially unspecified) evaluation order may pick another one
                        if count_failure_sites(tree) + extra_sites <= 1:
                            agg.violation({"kind": "wrong_error", "model": m[1], "impl": got[1]},
                                          dict(desc, expected=[m[1], m[2]], got=list(got)), {"script": r.lines})
                            return m
                        agg.count("both_fail_different_site")
            elif got[1] != "runtime":
                # a function value that cannot be manifested is a failure site of its own: whether it or an explicit
                # error elsewhere in the result is reported first is not fixed by the specification
                if count_failure_sites(tree) + extra_sites <= 1 and "manifest a function" not in str(m[2]):
                    agg.violation({"kind": "wrong_error", "model": "runtime", "impl": got[1]},
                                  dict(desc, expected=[m[1], m[2]], got=list(got)), {"script": r.lines})
                    return m
                agg.count("both_fail_different_site")
        agg.count("agree:" + (m[0] if m[0] == "V" else m[1]))
    agg.nontrivial.add(common.h64(repr(tree)))
    return m


def count_failure_sites(t):
    """Number of explicit error/assert nodes (a lower bound on failure sites)."""
    n = 0
    if isinstance(t, tuple):
        if t and t[0] in ("error", "assert", "massert"):
            # an object-level assert is checked once per layer it ends up in (`o + o`): it can be two failure sites, and the
            # order in which the layers' asserts are checked is not fixed by the specification
            n += 2 if t[0] == "massert" else 1
        for x in t[1:]:
            n += count_failure_sites(x)
    elif isinstance(t, list):
        for x in t:
            n += count_failure_sites(x)
    return n


def features(t, acc):
    if isinstance(t, tuple):
        if t and isinstance(t[0], str):
            k = t[0]
            if k == "bin":
                acc.add("bin:" + t[1])
            elif k == "un":
                acc.add("un:" + t[1])
            elif k == "field":
                acc.add("field:vis%d%s" % (t[3], "+" if t[2] else ""))
                acc.add("fieldname:" + t[1][0])
            elif k == "call":
                if any(a[0] == "named" for a in t[2]):
                    acc.add("call:named")
                acc.add("call")
            elif k == "param" and t[2] is not None:
                acc.add("param:default")
            else:
                acc.add(k)
        for x in t[1:]:
            features(x, acc)
    elif isinstance(t, list):
        for x in t:
            features(x, acc)


# systematic feature-interaction templates: source text + expected value (by the specification)
TEMPLATES = [
    # shadowing: an inner binder of the same name wins inside its scope only, whatever the two binder kinds are
    ("local x = 1; [local x = 2; x, x]", [2.0, 1.0]),
    ("local x = 1; [(function(x) x)(2), x]", [2.0, 1.0]),
    ("local x = 1; [[x for x in [2, 3]], x]", [[2.0, 3.0], 1.0]),
    ("[x for x in [1, 2] for x in [x * 10, x * 20]]", [10.0, 20.0, 20.0, 40.0]),
    ("[x for x in [1, 2] for x in [x * 10, x * 20] if x > 15]", [20.0, 20.0, 40.0]),
    ("[[x for x in [x * 10]] for x in [1, 2]]", [[10.0], [20.0]]),
    ("[x + y for x in [1] for y in [x + 1] for x in [y * 10]]", [22.0]),
    ("{[k]: k for k in ['a'] for k in [k + '1', k + '2']}", {"a1": "a1", "a2": "a2"}),
    ("local x = 1; {local x = 2, a: x}.a + x", 3.0),
    ("local x = 'a'; {local x = 'b', [x]: x}", {"a": "b"}),
    ("local x = 1; (function(x, y=x) y)(5) + x", 6.0),
    ("local x = 1; {local x = 2, f(x):: x, a: self.f(3) + x}.a", 5.0),
    ("local k = 'z'; {local k2 = k, [k]: k2 for k in ['a', 'b']}", {"a": "a", "b": "b"}),
    ("local x = 1; local f(x) = (local x = 7; x); [f(2), x]", [7.0, 1.0]),
    ("local x = [1, 2]; [x for x in x]", [1.0, 2.0]),
    ("local f = function(f) f; f(3)", 3.0),
    ("local o = {x: 1, y: {x: 2, z: self.x, w: $.x}}; [o.y.z, o.y.w]", [2.0, 1.0]),
    ("{a: 1, b: self.a + 1} + {a: 10}", {"a": 10.0, "b": 11.0}),
    ("{a: 1} + {a+: 2} + {a+: 3}", {"a": 6.0}),
    ("({a: [1]} + {a+: [2]}) + {a+: [3]}", {"a": [1.0, 2.0, 3.0]}),
    ("{a: 1} + ({a+: 2} + {a+: 3})", {"a": 6.0}),
    ("{a:: 1} + {a: 2}", {}),
    ("{a:: 1} + {a::: 2}", {"a": 2.0}),
    ("{a: 1} + {a:: 2} + {a: 3}", {}),
    ("{a::: 1} + {a: 2}", {"a": 2.0}),
    ("{a: 1, b: 2} + {a:: super.a + 10, c: self.a}", {"b": 2.0, "c": 11.0}),
    ("local o = {x: 1, y: $.x + 1, z: {w: $.x + 10, v: self.w}}; o + {x: 5}", {"x": 5.0, "y": 6.0, "z": {"w": 15.0, "v": 15.0}}),
    ("{a: 1, f(x):: x + self.a, b: self.f(2)} + {a: 10}", {"a": 10.0, "b": 12.0}),
    ("local f(a, b=a + 1, c=b * 2) = [a, b, c]; [f(1), f(1, 5), f(1, c=0), f(c=1, a=2)]",
     [[1.0, 2.0, 4.0], [1.0, 5.0, 10.0], [1.0, 2.0, 0.0], [2.0, 3.0, 1.0]]),
    ("local f(a=b, b=1) = a + b; f()", 2.0),
    ("[x + y for x in [1, 2] for y in [10, 20] if x != y / 10]", [21.0, 12.0]),
    ("{[k]: std.length(k) for k in ['a', 'bb']}", {"a": 1.0, "bb": 2.0}),
    ("{local n = 2, [k]: n for k in ['a']}", {"a": 2.0}),
    ("{['a']: 1, [null]: 2}", {"a": 1.0}),
    ("local k = 'x'; {[k]: 1, ['y' + k]: 2}", {"x": 1.0, "yx": 2.0}),
    ("{a: 1, b: {c: self.d, d: $.a}}", {"a": 1.0, "b": {"c": 1.0, "d": 1.0}}),
    ("{a: 1} + {b: super.a, c: 'a' in super, d: 'z' in super}", {"a": 1.0, "b": 1.0, "c": True, "d": False}),
    ("{a: 1} + {a: 2, b: super.a} + {a: 3, c: super.a}", {"a": 3.0, "b": 1.0, "c": 2.0}),
    ("({a: 1} + {b: super.a}) + {a: 5}", {"a": 5.0, "b": 1.0}),
    ("{a: 1} + ({b: super.a} + {a: 5})", {"a": 5.0, "b": 1.0}),
    ("{assert self.a > 0 : 'neg', a: 1} + {a: 2}", {"a": 2.0}),
    ("local o = {local l = self.a * 2, a: 1, b: l}; o + {a: 4}", {"a": 4.0, "b": 8.0}),
    ("[1, 2, 3, 4, 5][1:4:2]", [2.0, 4.0]),
    ("'abcdef'[::2] + 'abcdef'[4:] + 'abcdef'[:1]", "aceefa"),
    ("[[1, 2, 3][i:] for i in [0, 1, 2, 3, 4]]", [[1.0, 2.0, 3.0], [2.0, 3.0], [3.0], [], []]),
    ("1 + 2 * 3 - 4 / 2 % 3", 5.0),
    ("[1 < 2 == true, 1 + 1 == 2 && 2 + 2 == 4, !true || true, 1 << 2 + 1, 7 & 3 | 8 ^ 1, -2 * -3, ~0, !false]",
     [True, True, True, 8.0, 11.0, 6.0, -1.0, True]),
    ("['a' + 1, 1 + 'a', 'a' + [1, 'b'] + {c: null}, 'x' + true]", ["a1", "1a", 'a[1, "b"]{"c": null}', "xtrue"]),
    ("[if true then 1, if false then 1, if false then 1 else 2]", [1.0, None, 2.0]),
    ("local a = 1, b = a + 1, c = b + a; [a, b, c]", [1.0, 2.0, 3.0]),
    ("local f = function(x) function(y) x + y; f(1)(2)", 3.0),
    ("local fact(n) = if n == 0 then 1 else n * fact(n - 1); fact(10)", 3628800.0),
    ("local a = [1, a[0] + 1, a[1] + 1]; a", [1.0, 2.0, 3.0]),
    ("local o = {a: 1, b: o.a + 1}; o", {"a": 1.0, "b": 2.0}),
    ("{a: 1} == {a: 1, b:: 2}", True),
    ("[1, [2, {a: 3}]] == [1, [2, {a: 3}]]", True),
    ("['a' < 'b', 'a' < 'B', [1, 2] < [1, 3], [1] < [1, 0], 'é' > 'z', [] < [0]]", [True, False, True, True, True, True]),
    ("{a: 1} {b: 2} {a+: 3}", {"a": 4.0, "b": 2.0}),
    ("local x = 1; local x = 2; x", 2.0),
    ("local x = 1; (function(x) x + 1)(10) + x", 12.0),
    ("[x for x in [1, 2, 3] if x % 2 == 1]", [1.0, 3.0]),
    ("std.length({a: 1, b:: 2}) + std.length([1, 2]) + std.length('é€') + std.length(function(a, b) a)", 7.0),
    ("{a: 1, b:: 2, c::: 3} + {c: 4, b: 5, a:: 6}", {"c": 4.0}),
    ("local o = {a:: 1}; [std.objectHas(o, 'a'), std.objectHasAll(o, 'a'), 'a' in o, std.objectFields(o), std.objectFieldsAll(o)]",
     [False, True, True, [], ["a"]]),
]
ERROR_TEMPLATES = [
    ("error 'boom'", ("error", "boom")),
    ("error {a: 1}", ("error", '{"a": 1}')),
    ("error 1 + 2", ("error", "3")),
    ("assert false : 'msg'; 1", ("assert", "msg")),
    ("assert 1 == 2; 1", ("assert", None)),
    ("{assert self.a > 1 : 'small ' + self.a, a: 1}", ("assert", "small 1")),
    ("{assert self.a > 1 : 'small', a: 1}.a", ("assert", "small")),
    ("({assert self.a > 1 : 'small', a: 1} + {a: 2}).a + {assert false}.x", ("runtime", None)),
    ("[1, error 'second'][0]", None),
    ("{a: error 'unused'}.b", ("runtime", None)),
    ("local f(x) = 1; f(error 'lazy arg')", None),
    ("1 / 0", ("runtime", None)),
    ("[1][1]", ("runtime", None)),
    ("{a: 1}.b", ("runtime", None)),
    ("1 + {}", ("runtime", None)),
    ("if 1 then 2 else 3", ("runtime", None)),
    ("local f(a) = a; f(1, 2)", ("runtime", None)),
    ("local f(a) = a; f(b=1)", ("runtime", None)),
    ("local f(a) = a; f()", ("runtime", None)),
    ("{a: 1, ['a']: 2}", ("runtime", None)),
    ("{[1]: 2}", ("runtime", None)),
    ("{a: super.b}.a", ("runtime", None)),
    ("1 < 'a'", ("runtime", None)),
    ("{} < {}", ("runtime", None)),
    ("(function(x) x) == (function(x) x)", ("runtime", None)),
    ("[x for x in 3]", ("runtime", None)),
    ("'abc'[5]", ("runtime", None)),
    ("local a = a; a", ("runtime", None)),
]


def random_shard(args):
    seed, n = args
    rng = random.Random(seed)
    agg = Agg()
    ev = Ev(agg)
    try:
        for i in range(n):
            g = genprog.Gen(rng, depth=rng.choice([2, 3, 3, 4]), obj_heavy=rng.random() < 0.4)
            tree = g.top()
            m = compare_with_model(agg, ev, tree, "random", seed=rng.getrandbits(32))
            acc = set()
            features(tree, acc)
            for f in acc:
                agg.add("features", f)
            if i < 2:
                agg.sample({"program": genast.render(tree, "min")[0].decode("utf-8", "replace")[:300], "model": repr(m[:3])[:200]})
    finally:
        ev.close()
    return agg


def history_program(rng):
    """Objects with invariants that are observed (or not) before being combined: the combined object must re-check
    every inherited assert against the new self, whatever was already checked on the operands."""
    num, st, std, call = genprog.num, genprog.s, genprog.std, genprog.call
    nobj = rng.choice([2, 2, 3])
    names = ["h%d" % i for i in range(nobj)]
    binds = []
    for i, nm in enumerate(names):
        k = rng.randrange(5)
        xval = num(rng.choice([-2, -1, 0, 1, 2, 5]))
        if k == 0:
            ms = [("massert", ("bin", rng.choice([">", ">=", "<", "!="]), ("dot", ("self",), "x"), num(rng.choice([0, 0, 1]))),
                   st("inv-%s" % nm) if rng.random() < 0.8 else None),
                  ("field", ("id", "x"), False, 1, xval)]
            if rng.random() < 0.4:
                ms.append(("field", ("id", "y"), False, rng.choice([1, 2]), ("bin", "+", ("dot", ("self",), "x"), num(1))))
            rng.shuffle(ms)
            e = ("obj", ms)
        elif k == 1:
            e = ("obj", [("field", ("id", "x"), rng.random() < 0.3, rng.choice([1, 1, 2]), xval)])
        elif k == 2:
            kk = "k%d" % i
            e = ("objcomp", [], ("var", kk), False, xval, [], [("sfor", kk, ("arr", [st("x")]))])
        elif k == 3:
            ms = [("massert", ("bin", rng.choice(["<", ">="]), ("dot", ("self",), "y"), num(rng.choice([0, 3]))), st("invy-%s" % nm)),
                  ("field", ("id", "y"), False, 1, ("bin", "*", ("dot", ("self",), "x"), num(2))),
                  ("field", ("id", "x"), False, 1, xval)]
            e = ("obj", ms)
        else:
            e = ("obj", [("massert", ("bin", "in", st("x"), ("self",)), st("needs-x-%s" % nm)),
                         ("field", ("id", rng.choice(["x", "z"])), False, 1, xval)])
        binds.append(("bind", nm, None, e))
    uses = []
    for nm in names:
        k = rng.randrange(5)
        v = ("var", nm)
        if k == 0:
            continue
        if k == 1:
            uses.append(("bin", "==", v, v))
        elif k == 2:
            uses.append(("bin", "==", ("dot", v, "x"), ("dot", v, "x")))
        elif k == 3:
            uses.append(("bin", ">=", call(std("length"), call(std("toString"), v)), num(0)))
        else:
            uses.append(("bin", ">=", call(std("length"), call(std("objectFields"), v)), num(0)))
    order = names[:]
    rng.shuffle(order)
    comb = ("var", order[0])
    for nm in order[1:]:
        comb = ("bin", "+", comb, ("var", nm))
    if rng.random() < 0.3:
        comb = ("objext", comb, ("obj", [("field", ("id", "x"), rng.random() < 0.5, 1, num(rng.choice([-1, 1, 3])))]))
    k = rng.randrange(4)
    res = comb if k == 0 else ("dot", comb, "x") if k == 1 else ("bin", "==", comb, comb) if k == 2 else \
        call(std("objectFields"), comb)
    cond = None
    for u in uses:
        cond = u if cond is None else ("bin", "&&", cond, u)
    body = res if cond is None else ("if", cond, res, st("unused"))
    return ("local", binds, body)


def history_shard(args):
    seed, n = args
    rng = random.Random(seed)
    agg = Agg()
    ev = Ev(agg)
    try:
        for i in range(n):
            tree = history_program(rng)
            m = compare_with_model(agg, ev, tree, "assert_history", modes=("min",), seed=rng.getrandbits(32))
            agg.count("history:" + (m[0] if m[0] != "E" else m[1]))
    finally:
        ev.close()
    return agg


# ------------------------------------------------------------------------------------------------
# ill-typed operands: a typed program in which one sub-expression is replaced by a value of another type.  The
# specification makes most of these fail (and some not: `==` across types, string + anything, lazily unused parts);
# the model decides.

def wrong_values():
    num, st = genprog.num, genprog.s
    return [num(1), num(0), st("s"), st(""), ("true",), ("false",), ("null",), ("arr", [num(1)]), ("arr", []),
            ("obj", [("field", ("id", "a"), False, 1, num(1))]), ("obj", []),
            ("func", [("param", "zq", None)], ("var", "zq"))]


def inject_type_fault(tree, rng):
    sites = []

    def collect(node):
        def f(child, role):
            sites.append((child, role, node[0] + (":" + node[1] if node[0] in ("bin", "un") else "")))
            collect(child)
            return child
        genast.map_children(node, f)
    collect(tree)
    if not sites:
        return None
    target, role, parent = rng.choice(sites)
    bad = rng.choice(wrong_values())
    done = [False]

    def walk(node):
        def f(child, r):
            if child is target and not done[0]:
                done[0] = True
                return bad
            return walk(child)
        return genast.map_children(node, f)
    new = walk(tree)
    return (new, parent + "/" + role, bad[0]) if done[0] else None


def operand_matrix():
    """Every binary / unary operator, if, index, slice, call, comprehension, assert, in, field name with every
    combination of operand types (both short-circuit states for && and ||)."""
    vals = wrong_values()
    out = []
    for op in genast.BIN_PREC:
        for a in vals:
            for b in vals:
                out.append(("bin:" + op, ("bin", op, a, b)))
    for op in ("-", "+", "!", "~"):
        for a in vals:
            out.append(("un:" + op, ("un", op, a)))
    one, two = genprog.num(1), genprog.num(2)
    for a in vals:
        out.append(("if", ("if", a, one, two)))
        out.append(("index_arr", ("index", ("arr", [one, two]), a)))
        out.append(("index_obj", ("index", ("obj", [("field", ("id", "s"), False, 1, one)]), a)))
        out.append(("index_str", ("index", genprog.s("xyz"), a)))
        out.append(("index_of", ("index", a, genprog.num(0))))
        out.append(("dot_of", ("dot", a, "a")))
        out.append(("call_of", ("call", a, [("pos", one)], False)))
        out.append(("arrcomp_over", ("arrcomp", ("var", "cv"), [("sfor", "cv", a)])))
        out.append(("arrcomp_if", ("arrcomp", ("var", "cv"), [("sfor", "cv", ("arr", [one])), ("sif", a)])))
        out.append(("assert_cond", ("assert", a, None, one)))
        out.append(("assert_msg", ("assert", ("false",), a, one)))
        out.append(("error_of", ("error", a)))
        out.append(("fieldname", ("obj", [("field", ("ename", a), False, 1, one)])))
        out.append(("objcomp_key", ("objcomp", [], a, False, one, [], [("sfor", "cv", ("arr", [one]))])))
        out.append(("objext_of", ("objext", a, ("obj", [("field", ("id", "b"), False, 1, two)]))))
        out.append(("massert_cond", ("dot", ("obj", [("massert", a, None), ("field", ("id", "a"), False, 1, one)]), "a")))
        for b in (None, one):
            out.append(("slice_of", ("slice", a, b, None, None)))
            out.append(("slice_arg", ("slice", ("arr", [one, two]), a, b, None)))
            out.append(("slice_step", ("slice", ("arr", [one, two]), None, b, a)))
        for b in vals:
            # +: with every pair of (inherited value, added value), as a fixed, a computed and a comprehension field
            out.append(("plus_field", ("dot", ("bin", "+", ("obj", [("field", ("id", "a"), False, 1, a)]),
                                               ("obj", [("field", ("id", "a"), True, 1, b)])), "a")))
        out.append(("plus_field_computed", ("dot", ("bin", "+", ("obj", [("field", ("id", "a"), False, 1, a)]),
                                                    ("obj", [("field", ("ename", genprog.s("a")), True, 1, genprog.s("x"))])), "a")))
        out.append(("plus_field_objcomp", ("dot", ("bin", "+", ("obj", [("field", ("id", "a"), False, 1, a)]),
                                                   ("objcomp", [], ("var", "ck"), True, genprog.s("y"), [], [("sfor", "ck", ("arr", [genprog.s("a")]))])), "a")))
        out.append(("insuper", ("bin", "+", ("obj", [("field", ("id", "a"), False, 1, one)]),
                                 ("obj", [("field", ("id", "b"), False, 1, ("insuper", a))]))))
        out.append(("superidx", ("bin", "+", ("obj", [("field", ("id", "a"), False, 1, one)]),
                                  ("obj", [("field", ("id", "b"), False, 1, ("superidx", a))]))))
    return out


def type_fault_shard(args):
    seed, n, cases = args
    rng = random.Random(seed)
    agg = Agg()
    ev = Ev(agg)
    try:
        for name, tree in cases:
            m = compare_with_model(agg, ev, tree, "operand_matrix", modes=("min",))
            agg.add("operand_matrix_cells", (name, m[0] if m[0] != "E" else m[1]))
        for i in range(n):
            g = genprog.Gen(rng, depth=rng.choice([2, 3, 3]), obj_heavy=rng.random() < 0.3)
            inj = inject_type_fault(g.top(), rng)
            if inj is None:
                continue
            tree, where, what = inj
            # (the injected ill-typed operand is a failure site of its own next to any explicit error / assert)
            m = compare_with_model(agg, ev, tree, "type_fault", modes=("min",), seed=rng.getrandbits(32), extra_sites=1)
            agg.add("type_fault_sites", (where, what))
            agg.count("type_fault:" + (m[0] if m[0] != "E" else m[1]))
            if i < 1:
                agg.sample({"leg": "type_fault", "program": genast.render(tree, "min")[0].decode("utf-8", "replace")[:300],
                            "site": where, "model": repr(m[:3])[:200]})
    finally:
        ev.close()
    return agg


# ------------------------------------------------------------------------------------------------
# nesting towers: objects nested to depth 1..5 through every carrier; each level has its own t; the innermost
# object reads $ / self / super in every reader position; the outermost object may be extended afterwards.

def tower(rng, depth, reader_kind):
    num, st = genprog.num, genprog.s
    carriers = ["field", "array", "local", "call", "arrcomp", "plus", "objext", "objcomp", "hidden", "method"]
    readers = {
        "dollar_t": ("dot", ("dollar",), "t"),
        "dollar_idx": ("index", ("dollar",), st("t")),
        "self_t": ("dot", ("self",), "t"),
        "dollar_in_local": ("local", [("bind", "lv", None, ("dot", ("dollar",), "t"))], ("var", "lv")),
        "dollar_in_func": ("call", ("func", [("param", "pq", ("dot", ("dollar",), "t"))], ("var", "pq")), [], False),
        "dollar_eq": ("bin", "==", ("dot", ("dollar",), "t"), ("dot", ("self",), "t")),
        "dollar_in": ("bin", "in", st("t"), ("dollar",)),
        "dollar_has_n": ("bin", "in", st("n"), ("dollar",)),
    }
    used = []

    def level(i):
        t = ("field", ("id", "t"), False, 1, num(i))
        if i == depth:
            ms = [t, ("field", ("id", "r"), False, 1, readers[reader_kind])]
            if rng.random() < 0.3:
                ms.append(("mlocal", ("bind", "ol", None, ("dot", ("dollar",), "t"))))
                ms.append(("field", ("id", "q"), False, 1, ("var", "ol")))
            if rng.random() < 0.2:
                ms.append(("massert", ("bin", ">=", ("dot", ("dollar",), "t"), num(0)), st("top-t")))
            return ("obj", ms)
        inner = level(i + 1)
        c = rng.choice(carriers)
        used.append(c)
        if c == "field":
            n = inner
        elif c == "array":
            n = ("index", ("arr", [num(0), inner]), num(1))
        elif c == "local":
            n = ("local", [("bind", "w%d" % i, None, inner)], ("var", "w%d" % i))
        elif c == "call":
            n = ("call", ("func", [("param", "u%d" % i, None)], inner), [("pos", num(0))], False)
        elif c == "arrcomp":
            n = ("index", ("arrcomp", inner, [("sfor", "cv%d" % i, ("arr", [num(0)]))]), num(0))
        elif c == "plus":
            n = ("bin", "+", ("obj", [("field", ("id", "t"), False, 1, num(50 + i))]), inner)
        elif c == "objext":
            n = ("objext", ("obj", [("field", ("id", "z"), False, 1, num(0))]), inner)
        elif c == "objcomp":
            n = ("dot", ("objcomp", [], ("var", "ck%d" % i), False, inner, [], [("sfor", "ck%d" % i, ("arr", [st("k")]))]), "k")
        elif c == "hidden":
            return ("obj", [t, ("field", ("id", "h"), False, 2, inner), ("field", ("id", "n"), False, 1, ("dot", ("self",), "h"))])
        else:
            return ("obj", [t, ("ffunc", ("id", "mk"), [], 2, inner), ("field", ("id", "n"), False, 1, ("call", ("dot", ("self",), "mk"), [], False))])
        return ("obj", [t, ("field", ("id", "n"), False, 1, n)])
    top = level(1)
    k = rng.random()
    if k < 0.3:
        top = ("bin", "+", top, ("obj", [("field", ("id", "t"), False, 1, num(100))]))
    elif k < 0.4:
        top = ("bin", "+", ("obj", [("field", ("id", "t"), False, 1, num(200)), ("field", ("id", "zz"), False, 1, num(1))]), top)
    elif k < 0.5:
        top = ("index", ("arr", [top]), num(0))
    return top, used


def tower_shard(args):
    seed, n = args
    rng = random.Random(seed)
    agg = Agg()
    ev = Ev(agg)
    kinds = ["dollar_t", "dollar_idx", "self_t", "dollar_in_local", "dollar_in_func", "dollar_eq", "dollar_in", "dollar_has_n"]
    try:
        for i in range(n):
            depth = 1 + i % 5
            rk = kinds[(i // 5) % len(kinds)]
            tree, used = tower(rng, depth, rk)
            m = compare_with_model(agg, ev, tree, "nesting_tower", modes=("min",), seed=rng.getrandbits(32))
            agg.add("tower_cells", (depth, rk))
            for c in used:
                agg.add("tower_carriers", c)
            if i < 1:
                agg.sample({"leg": "nesting_tower", "program": genast.render(tree, "min")[0].decode("utf-8", "replace")[:400],
                            "model": repr(m[:3])[:200]})
    finally:
        ev.close()
    return agg


# ------------------------------------------------------------------------------------------------
# call binding matrix: functions of 0-4 parameters with every mask of defaulted parameters, called with every number of
# positional arguments and every subset of the remaining parameters bound by name (in both orders), plus the error
# cases (too many, unknown name, bound twice, missing).  Defaults read earlier and later parameters.

def call_matrix():
    import itertools
    num = genprog.num
    out = []
    for n in range(0, 5):
        names = ["p%d" % i for i in range(n)]
        for mask in range(1 << n):
            params = []
            for i, nm in enumerate(names):
                if mask >> i & 1:
                    # default: 100*(i+1) + the next parameter (a LATER one) or the previous one
                    other = names[i + 1] if i + 1 < n and i % 2 == 0 else (names[i - 1] if i > 0 else None)
                    d = num(100 * (i + 1)) if other is None else ("bin", "+", num(100 * (i + 1)), ("var", other))
                    params.append(("param", nm, d))
                else:
                    params.append(("param", nm, None))
            body = ("arr", [("var", nm) for nm in names])
            for form in ("local_fn", "func_value", "method"):
                for p in range(0, n + 2):
                    rest = names[p:] if p <= n else []
                    subsets = [c for k in range(len(rest) + 1) for c in itertools.combinations(rest, k)]
                    if len(subsets) > 8 and form != "local_fn":
                        subsets = subsets[::3]
                    for sub in subsets:
                        for order in ((sub, tuple(reversed(sub))) if len(sub) > 1 and form == "local_fn" else (sub,)):
                            args = [("pos", num(i + 1)) for i in range(p)] + [("named", nm, num(10 * (names.index(nm) + 1))) for nm in order]
                            if form == "local_fn":
                                t = ("local", [("bind", "f", params, body)], ("call", ("var", "f"), args, False))
                            elif form == "func_value":
                                t = ("call", ("func", params, body), args, False)
                            else:
                                t = ("call", ("dot", ("obj", [("ffunc", ("id", "m"), params, 2, body)]), "m"), args, False)
                            out.append(("n%d/mask%d/pos%d/named%d" % (n, mask, p, len(sub)), t))
            # error cases: unknown name, a parameter bound twice
            if n >= 1:
                f = ("local", [("bind", "f", params, body)], None)
                out.append(("unknown_name", ("local", f[1], ("call", ("var", "f"), [("named", "zz", num(1))], False))))
                out.append(("bound_twice", ("local", f[1], ("call", ("var", "f"), [("pos", num(1)), ("named", names[0], num(2))], False))))
    return out


def scope_reference_matrix():
    """Every scope kind with several binders where binder i's value mentions binder j, for all (i, j): locals, object locals
    interleaved with fields, object-comprehension locals before/after the field, parameter defaults, comprehension variables.
    Programs the scope rules reject are skipped here (C09 judges them); the others are compared with the model."""
    num = genprog.num
    out = []
    for n in (2, 3):
        for i in range(n):
            for j in range(n):
                names = ["b%d" % k for k in range(n)]

                def val(k):
                    if k == i and i != j:
                        return ("bin", "+", ("var", names[j]), num(1))
                    return num(10 * (k + 1))
                binds = [("bind", names[k], None, val(k)) for k in range(n)]
                res = ("arr", [("var", nm) for nm in names])
                tag = "n%d/%d_reads_%d" % (n, i, j)
                out.append(("local/" + tag, ("local", binds, res)))
                for split in range(n + 1):
                    members = [("mlocal", b) for b in binds[:split]] + [("field", ("id", "r"), False, 1, res)] + [("mlocal", b) for b in binds[split:]]
                    out.append(("objlocals/%s/split%d" % (tag, split), ("dot", ("obj", members), "r")))
                    oc = ("objcomp", binds[:split], ("var", "cv"), False, res, binds[split:], [("sfor", "cv", ("arr", [genprog.s("x"), genprog.s("y")]))])
                    out.append(("objcomp_locals/%s/split%d" % (tag, split), oc))
                params = [("param", names[k], val(k)) for k in range(n)]
                out.append(("param_defaults/" + tag, ("call", ("func", params, res), [], False)))
                out.append(("param_defaults_named/" + tag, ("call", ("func", params, res), [("named", names[(i + 1) % n], num(7))], False)))
                specs = [("sfor", names[k], ("arr", [val(k), num(k)])) for k in range(n)]
                out.append(("comp_vars/" + tag, ("arrcomp", res, specs)))
                out.append(("objcomp_var_vs_local/" + tag,
                            ("objcomp", [("bind", names[0], None, ("bin", "+", ("var", "cv"), genprog.s("!")))], ("var", "cv"), False, ("var", names[0]), [],
                             [("sfor", "cv", ("arr", [genprog.s("x"), genprog.s("y")]))])))
    return out


def value_grid():
    """Every arithmetic / bitwise / shift / comparison operator over a grid of operand VALUES (signs, fractions, powers of two
    around 2^31 / 2^32 / 2^52 / 2^53, large magnitudes): truncation towards zero, fmod's sign rule, two's-complement bitwise
    results, shift counts modulo 64, the safe-integer rule."""
    vals = [0, 1, -1, 2, 3, -3, 7, -8, 0.5, -0.5, 2.5, -7.75, 31, 32, 33, 63, 64, 65, 2 ** 31 - 1, 2 ** 31, -(2 ** 31), 2 ** 32, 2 ** 32 + 1,
            2 ** 52, 2 ** 53 - 1, -(2 ** 53 - 1), 2 ** 53, 1e10, -1e10, 1e300]

    def lit(v):
        if v < 0:
            return ("un", "-", lit(-v))
        if isinstance(v, float) and v != int(v):
            return ("num", repr(v))
        if abs(v) >= 1e21:
            return ("num", "1e300")
        return ("num", str(int(v)))
    out = []
    for op in ("+", "-", "*", "/", "%", "&", "|", "^", "<<", ">>", "<", "<=", "==", "!=", ">", ">="):
        for a in vals:
            for b in vals:
                if op in ("<<", ">>") and not (b in (0, 1, 2, 3, 7, 31, 32, 33, 63, 64, 65, -1, 0.5, 2 ** 31)):
                    continue
                out.append(("bin:" + op, ("bin", op, lit(a), lit(b))))
    for op in ("-", "+", "~", "!"):
        for a in vals:
            out.append(("un:" + op, ("un", op, lit(a))))
    return out


def matrix_shard(args):
    which, i, k = args
    from checks import c09
    agg = Agg()
    ev = Ev(agg)
    try:
        cases = (call_matrix() if which == "call" else value_grid() if which == "values" else scope_reference_matrix())[i::k]
        for name, tree in cases:
            if which == "scope" and c09.scope_faults(tree):
                agg.count("scope_matrix_statically_rejected")
                continue
            m = compare_with_model(agg, ev, tree, which + "_matrix", modes=("min",))
            agg.add(which + "_matrix_cells", (name.split("/")[0] if which == "scope" else name, m[0] if m[0] != "E" else m[1]))
            if which == "values":
                agg.count("value_grid:" + (m[0] if m[0] != "E" else m[1]))
    finally:
        ev.close()
    return agg


def templates_shard(args):
    seed, _ = args
    agg = Agg()
    ev = Ev(agg)
    try:
        for src, exp in TEMPLATES:
            r = ev.run(src, walk=1)
            agg.nontrivial.add(common.h64(src))
            if r.cls != "value" or not same_value(r.value, exp, strict_zero=False):
                agg.violation({"kind": "template_value", "src": src[:60]}, {"src": src, "expected": repr(exp), "got": r.brief()},
                              {"script": r.lines})
        for src, exp in ERROR_TEMPLATES:
            r = ev.run(src, walk=1)
            agg.nontrivial.add(common.h64(src))
            got = rs_class(r)
            if exp is None:
                if r.cls != "value":
                    agg.violation({"kind": "template_lazy", "src": src[:60]}, {"src": src, "got": r.brief()}, {"script": r.lines})
            elif got[0] != "E" or got[1] != exp[0] or (exp[0] != "runtime" and got[2] != exp[1]):
                agg.violation({"kind": "template_error", "src": src[:60]}, {"src": src, "expected": list(exp), "got": list(got)},
                              {"script": r.lines})
    finally:
        ev.close()
    return agg


def run(tier, seed):
    t0 = time.time()
    quick = tier != "thorough"
    total = Agg()
    n = 16_000 if quick else 1_000_000
    for a in common.pmap(random_shard, [(seed * 907 + i, n // 64) for i in range(64)]):
        total.merge(a)
    nh = 6_000 if quick else 300_000
    for a in common.pmap(history_shard, [(seed * 1931 + i, nh // 32) for i in range(32)]):
        total.merge(a)
    om = operand_matrix()
    total.count("operand_matrix_cases", len(om))
    nt = 6_000 if quick else 300_000
    for a in common.pmap(type_fault_shard, [(seed * 1933 + i, nt // 32, om[i::32]) for i in range(32)]):
        total.merge(a)
    nw = 3_200 if quick else 100_000
    for a in common.pmap(tower_shard, [(seed * 1949 + i, nw // 16) for i in range(16)]):
        total.merge(a)
    for a in common.pmap(matrix_shard, [("call", i, 16) for i in range(16)] + [("scope", i, 4) for i in range(4)] + [("values", i, 12) for i in range(12)]):
        total.merge(a)
    for a in common.pmap(templates_shard, [(seed, 0)]):
        total.merge(a)
    rule = ("typed random programs over the core grammar (numbers, booleans, strings, arrays, objects with inheritance, "
            "self/super/$, +:, three visibilities, computed names, object locals, asserts, comprehensions of both "
            "kinds, slices, functions with default/named arguments and recursion, error, in, in super) generated as "
            "syntax trees, printed minimal and noisy, evaluated by rsjsonnet and by a reference interpreter written "
            "from the specification; compared: manifested value (Value API walk) or failure class (+ message for "
            "error/assert); plus ~80 hand-derived feature-interaction templates with values/errors derived from the "
            "specification; plus an assert-history family (objects with invariants that are compared / read / "
            "converted, or not, before being combined with +); an operand matrix (every binary/unary operator, if, index, slice, "
            "call, comprehension, assert, error, field name, +:, in super with every combination of 12 operand values of all "
            "types; both short-circuit states) and typed programs with one sub-expression replaced by a value of another type; "
            "nesting towers (objects nested 1-5 deep through 10 carriers, the innermost reading $ / self in 8 reader positions, "
            "the outermost optionally extended); call-binding matrix (functions of 0-4 parameters x every mask of defaulted parameters - "
            "defaults reading earlier and later parameters - x every positional count x every subset of the rest bound by name in both "
            "orders, as local function / function value / method, plus unknown-name and bound-twice errors); operator value grid (16 binary + 4 unary operators over 30 operand values: signs, fractions, "
            "powers of two around 2^31 / 2^32 / 2^52 / 2^53, shift counts around 32 and 64); scope-reference matrix "
            "(binder i's value mentions binder j for all i, j in locals, object locals around the fields, object-comprehension locals "
            "before/after the field, parameter defaults, comprehension variables). distinct_nontrivial = distinct generated programs on which both printings agreed with the "
            "model + templates.")
    return common.finish(PROP, tier, seed, total, rule, t0, level="exploration",
                         assumptions=["driver/refinterp.py encodes the specification (trusted base); programs whose number "
                                      "rendering conventions differ are skipped (counted as model_unmodelled)"])

"""C19 - std.format and % follow printf-style formatting for every directive and value."""
import math
import random
import re
import time

import common
from common import Agg, Ev, jstr, jnum

PROP = "C19"

INT_VALUES = [0, 1, -1, 7, 8, 9, 10, 15, 16, 17, 42, -42, 255, 256, -255, 1000, 65535, 65536, 2 ** 31 - 1, 2 ** 31,
              -2 ** 31, 2 ** 32, 2 ** 53 - 1, -(2 ** 53 - 1), 123456789012, 999999, 1000000, 99999999999999]
FLOAT_VALUES = [0.0, -0.0, 0.5, 1.5, 2.5, 3.5, -0.5, -1.5, -2.5, 0.125, 0.375, 0.1, 0.25, 0.05, 0.15, 0.45, 1.0, -1.0,
                9.5, 9.95, 9.995, 99.5, 0.999, 0.9999999, 1e-5, 1.5e-5, 1e-7, 123.456, -123.456, 1e10, 1e15, 1e16,
                1e21, 1e22, 1.7976931348623157e308, -1.7976931348623157e308, 5e-324, 2.2250738585072014e-308,
                1e100, 1e-100, 3.141592653589793, 2.718281828459045, 1 / 3, 2 / 3, 0.3, 0.7, 1e-10, 123456789.125,
                0.000123456, 4.35, 4.45, 1e5, 1e6, 1e-4, 1.2345e-4, 99999.5, 999999.5, 0.00001234, 1e300, 8.5, 0.5e-3]
BIG_VALUES = [2.0 ** 53, 2.0 ** 53 + 2, 2.0 ** 63, 2.0 ** 64, 1e17, 1e18, 1e19, 1e20, 1e21, 1e30, 1e100, 1e308,
              -2.0 ** 53, -1e30, 1.7976931348623157e308]
STR_VALUES = ["", "a", "abc", "hello world", "\u20ac", "\u20ac\u20ac", "\U0001f600", "a\U0001f600b", "\u00e9", "\u65e5\u672c\u8a9e\u30c6\u30ad\u30b9\u30c8", " ", "%", "%d", "\n",
              "\t", "a\u0301", "x" * 20]
WIDTHS = [None, 0, 1, 2, 3, 5, 8, 12, 20, 70]
HUGE_WIDTHS = [300, 70000]
PRECS = [None, 0, 1, 2, 3, 5, 6, 10, 15, 17, 20]
HUGE_PRECS = [60, 400, 1100, 65535, 65536, 70000]


def rand_flags(rng):
    """A random subset of the flags, in a random order, now and then with a flag repeated (printf accepts both)."""
    fl = [f for f in "#0- +" if rng.random() < 0.25]
    rng.shuffle(fl)
    if fl and rng.random() < 0.15:
        fl.insert(rng.randrange(len(fl) + 1), rng.choice(fl))
    return "".join(fl)


def all_flag_subsets():
    out = []
    for m in range(32):
        out.append("".join(f for i, f in enumerate("#0- +") if m >> i & 1))
    return out


def py_expected(spec, conv, value):
    """Python's rendering for the shared subset; None if the conventions do not coincide."""
    if conv in "diu":
        v = int(value)
        if value < 0 and v == 0:
            # int(-0.5) = 0: Python prints '0'; Jsonnet truncates the magnitude and keeps the sign rule
            # "negative iff value < 0" only when the truncated value is nonzero in some implementations
            return None
        return (spec + "d") % v
    if conv in "oxX":
        if "#" in spec and conv == "o":
            return None
        v = int(value)
        if value < 0 and v == 0:
            return None
        return (spec + conv) % v
    if conv in "eEfF":
        v = float(value)
        if v == 0 and math.copysign(1, v) < 0:
            v = 0.0   # convention: Jsonnet prints the sign only if v < 0
        return (spec + conv) % v
    if conv == "c":
        if isinstance(value, str):
            return (spec + "c") % value
        return (spec + "c") % int(value)
    if conv == "s":
        if not isinstance(value, str):
            return None
        if "." in spec:
            return None
        return (spec + "s") % value
    return None


def jv(value):
    if isinstance(value, str):
        return jstr(value)
    return jnum(float(value))


def one_directive(rng, agg, ev, flags, width, prec, conv, value, via):
    spec = "%" + flags + ("" if width is None else str(width)) + ("" if prec is None else "." + str(prec))
    fmt = spec + conv
    if via == "star" and width is not None and prec is not None:
        fmt_j = "%" + flags + "*.*" + conv
        src = "std.format(%s, [%d, %d, %s])" % (jstr(fmt_j), width, prec, jv(value))
    elif via == "star_w" and width is not None:
        fmt_j = "%" + flags + "*" + ("" if prec is None else "." + str(prec)) + conv
        src = "std.format(%s, [%d, %s])" % (jstr(fmt_j), width, jv(value))
    elif via == "percent":
        src = "%s %% [%s]" % (jstr(fmt), jv(value))
    elif via == "scalar" and not isinstance(value, (list, dict)):
        src = "%s %% %s" % (jstr(fmt), jv(value))
    elif via == "key":
        fmt_j = "%(k)" + fmt[1:]
        src = "%s %% {k: %s, other: 1}" % (jstr(fmt_j), jv(value))
    elif via == "embedded":
        src = "std.format(%s, [%s])" % (jstr("<<" + fmt + ">>%%"), jv(value))
    else:
        src = "std.format(%s, [%s])" % (jstr(fmt), jv(value))
    r = ev.run(src)
    if r.cls == "inconclusive":
        return
    sig = {"conv": conv, "via": via}
    detail = {"src": src, "fmt": fmt, "value": repr(value)}
    if r.cls in ("panic", "crash"):
        agg.violation(common.panic_signature(r, sig), detail, {"script": r.lines})
        return
    agg.count("conv:" + conv)
    exp = None
    exact = True
    if conv in "diuoxX" and isinstance(value, (int, float)) and abs(value) >= 2 ** 53:
        exact = False
    try:
        if exact:
            exp = py_expected(spec, conv, value)
    except (ValueError, TypeError, OverflowError) as e:
        exp = e
    if isinstance(exp, Exception):
        if r.cls == "value":
            agg.violation(dict(sig, kind="expected_error"), dict(detail, python=repr(exp), got=r.brief()),
                          {"script": r.lines})
        return
    if r.cls != "value" or not isinstance(r.value, str):
        if conv == "c" and isinstance(value, (int, float)) and not (0 <= value < 0x110000 and not 0xD800 <= value < 0xE000):
            return
        agg.violation(dict(sig, kind="format_failed", err=r.kind), dict(detail, got=r.brief()), {"script": r.lines})
        return
    text = r.value
    if via == "embedded":
        if not (text.startswith("<<") and text.endswith(">>%")):
            agg.violation(dict(sig, kind="literal_text_lost"), dict(detail, got=text[:200]), {"script": r.lines})
            return
        text = text[2:-3]
    # field never shorter than its width, counted in characters
    if width is not None and len(text) < width:
        agg.violation(dict(sig, kind="field_shorter_than_width"), dict(detail, got=text[:200], length=len(text)),
                      {"script": r.lines})
        return
    if exp is not None:
        agg.nontrivial.add(common.h64(fmt, repr(value)))
        if text != exp:
            agg.violation(dict(sig, kind="differs_from_printf", flags="".join(sorted(flags))),
                          dict(detail, expected=exp[:300], got=text[:300]), {"script": r.lines})
    else:
        # invariants beyond the shared subset
        agg.count("invariants_only")
        if conv in "gGeEfF" or (conv in "diu" and not exact):
            body = text.strip()
            m = re.fullmatch(r"[-+ ]?[0-9]*\.?[0-9]*(?:[eE][-+]?[0-9]+)?", body)
            if not m or not re.search("[0-9]", body):
                agg.violation(dict(sig, kind="not_a_number_rendering"), dict(detail, got=text[:200]),
                              {"script": r.lines})
                return
            from decimal import Decimal
            back = Decimal(body.replace(" ", ""))
            v = Decimal(float(value))
            av = abs(v)
            if conv in "diu":
                ok = back == v or abs(back - v) <= av * Decimal("1e-15")
            else:
                p = 6 if prec is None else prec
                half = Decimal("0.51")
                if conv in "gG":
                    # upstream's %g is approximate: it keeps p - max(1, exponent + 1) decimals in fixed notation
                    pe = max(p, 1)
                    tol = max(av, Decimal(1)) * Decimal(10) ** (-(pe - 1)) * half
                elif conv in "eE":
                    tol = av * Decimal(10) ** (-p) * half
                else:
                    tol = Decimal(10) ** (-p) * half
                ok = abs(back - v) <= tol or back == v
            if not ok:
                agg.violation(dict(sig, kind="value_not_within_precision"),
                              dict(detail, got=text[:200], back=str(back)[:60]), {"script": r.lines})
            if value < 0 and not body.startswith("-"):
                agg.violation(dict(sig, kind="sign_lost"), dict(detail, got=text[:200]), {"script": r.lines})
            if "+" in flags and value >= 0 and not body.startswith("+"):
                agg.violation(dict(sig, kind="plus_flag_ignored"), dict(detail, got=text[:200]), {"script": r.lines})
        if conv not in "sc" and "-" in flags and width and text.startswith(" ") and " " not in flags:
            agg.violation(dict(sig, kind="left_flag_pads_left"), dict(detail, got=text[:200]), {"script": r.lines})


def grid_shard(args):
    seed, n, thorough = args
    rng = random.Random(seed)
    agg = Agg()
    ev = Ev(agg)
    try:
        for i in range(n):
            conv = rng.choice("diuoxXeEfFgGcs")
            if conv in "diuoxX":
                value = rng.choice(INT_VALUES + FLOAT_VALUES[:20] + (BIG_VALUES if rng.random() < 0.2 else [])
                                   + [rng.randint(-10 ** 15, 10 ** 15)])
            elif conv in "eEfFgG":
                value = rng.choice(FLOAT_VALUES + [float(x) for x in INT_VALUES[:12]] + [common.rand_double(rng)])
                if conv in "fF" and abs(value) > 1e22 and rng.random() < 0.7:
                    value = rng.choice(FLOAT_VALUES)
            elif conv == "c":
                value = rng.choice(["a", "\u20ac", "\U0001f600", 65, 97, 0x20AC, 0x1F600, 0x10FFFF, 0x110000, 0xD800, -1, 0, 48.0, 65.5])
            else:
                value = rng.choice(STR_VALUES)
            flags = rand_flags(rng)
            width = rng.choice(WIDTHS)
            prec = rng.choice(PRECS)
            k = rng.random()
            if k < (0.03 if thorough else 0.01):
                width = rng.choice(HUGE_WIDTHS)
            elif k < (0.06 if thorough else 0.02) and conv in "eEfFgGdiuoxX":
                prec = rng.choice(HUGE_PRECS)
                if conv in "fF":
                    value = rng.choice([0.0, 1.0, 0.5, 1 / 3, 123.456, 1e-5, 5e-324, 1e22])
            if conv == "c":
                prec = None
            via = rng.choice(["format", "format", "percent", "scalar", "key", "star", "star_w", "embedded"])
            one_directive(rng, agg, ev, flags, width, prec, conv, value, via)
            if i < 2:
                agg.sample({"fmt": "%" + flags + str(width or "") + ("." + str(prec) if prec is not None else "") + conv,
                            "value": repr(value), "via": via})
    finally:
        ev.close()
    return agg


def flags_shard(args):
    """Every subset of flags x every conversion x small widths/precisions x a few values."""
    seed, convs = args
    rng = random.Random(seed)
    agg = Agg()
    ev = Ev(agg)
    try:
        for conv in convs:
            subsets = all_flag_subsets()
            # every subset in its canonical order, reversed, and in one more random order
            extra = []
            for fl in subsets:
                if len(fl) > 1:
                    extra.append(fl[::-1])
                    t = list(fl)
                    rng.shuffle(t)
                    extra.append("".join(t))
            for flags in subsets + extra:
                for width in (None, 0, 1, 6, 9):
                    for prec in (None, 0, 2, 7):
                        if conv == "c" and prec is not None:
                            continue
                        if conv in "diuoxX":
                            values = [0, 5, -5, 255, -4096, 1234567, 2.7, -2.7]
                        elif conv in "eEfFgG":
                            values = [0.0, -0.0, 1.0, -1.5, 0.000123, 123456.789, 2.5, 1e21]
                        elif conv == "c":
                            values = ["x", 8364]
                        else:
                            values = ["", "ab", "\u20ac\u20ac\u20ac"]
                        for value in values:
                            one_directive(rng, agg, ev, flags, width, prec, conv, value, "format")
                            agg.add("flag_subsets", "".join(sorted(flags)))
                            agg.add("flag_orders", flags)
    finally:
        ev.close()
    return agg


MALFORMED = ["%", "%5", "%.", "%.3", "%(", "%(a", "%(a)", "%-", "%#", "%l", "%hh", "%y", "%k", "%!", "%5.2", "%*",
             "%.*", "%(a)*d", "% ", "%\u20ac", "%1$d", "%'d", "abc%", "%d%", "%%%", "%(a)%", "%5%", "%-5%", "%.2%",
             "%D", "%S", "%n", "%p", "%a", "%b"]


def errors_shard(args):
    seed, n = args
    rng = random.Random(seed)
    agg = Agg()
    ev = Ev(agg)
    try:
        cases = []
        for f in MALFORMED:
            for arg in ("[1]", "[]", "{a: 1}", "1", '"s"', "[1, 2]"):
                cases.append(("malformed", "std.format(%s, %s)" % (jstr(f), arg), f, arg))
        # count / type mismatches
        cases += [("count", 'std.format("%d %d", [1])', None, None), ("count", 'std.format("%d", [1, 2])', None, None),
                  ("count", 'std.format("%d", [])', None, None), ("count", 'std.format("%*d", [1])', None, None),
                  ("count", 'std.format("%*.*f", [1, 2])', None, None), ("count", 'std.format("no directives", [1])', None, None),
                  ("type", 'std.format("%d", ["x"])', None, None), ("type", 'std.format("%f", ["x"])', None, None),
                  ("type", 'std.format("%d", [null])', None, None), ("type", 'std.format("%d", [[1]])', None, None),
                  ("type", 'std.format("%d", [{a: 1}])', None, None), ("type", 'std.format("%x", [true])', None, None),
                  ("type", 'std.format("%c", ["ab"])', None, None), ("type", 'std.format("%c", [""])', None, None),
                  ("type", 'std.format("%c", [1114112])', None, None), ("type", 'std.format("%c", [-1])', None, None),
                  ("type", 'std.format("%c", [55296])', None, None), ("type", 'std.format("%*d", ["w", 1])', None, None),
                  ("type", 'std.format("%*d", [1.5, 1])', None, None), ("type", 'std.format("%.*f", [null, 1])', None, None),
                  ("other", 'std.format("%(a)d", [1])', None, None), ("key", 'std.format("%(b)d", {a: 1})', None, None),
                  ("key", 'std.format("%d", {a: 1})', None, None), ("key", 'std.format("%(a)*d", {a: 1})', None, None),
                  ("key", 'std.format("%(a)d %d", {a: 1})', None, None), ("type", 'std.format(1, [1])', None, None),
                  ("type", 'std.format("%d", function(x) x)', None, None), ("type", 'std.format("%s", [function(x) x])', None, None),
                  ("type", 'std.format("%*d", [-5, 1])', None, None), ("type", 'std.format("%*d", [1e308, 1])', None, None),
                  ("type", 'std.format("%.*f", [-1, 1])', None, None), ("type", 'std.format("%.*f", [1e10, 1])', None, None)]
        # the same mismatch through every entry point (std.format, the % operator, std.mod), and format strings without
        # any directive ('' / text / only %%) with every argument shape
        more = []
        for kind, src, f, arg in cases:
            m = re.fullmatch(r'std\.format\((".*"|1), (.*)\)', src)
            if m and kind != "malformed":
                more.append((kind, "%s %% %s" % (m.group(1), m.group(2)), f, arg))
                more.append((kind, "std.mod(%s, %s)" % (m.group(1), m.group(2)), f, arg))
        for fmt in ('""', '"abc"', '"100%%"', '"%%"', '"a b c"', '"\u20ac"'):
            for arg, bad in (("[1]", True), ("[1, 2]", True), ("1", True), ('"s"', True), ("null", True), ("[[]]", True), ("true", True),
                             ("[]", False), ("{}", False), ("{a: 1}", False)):
                for entry in ("std.format(%s, %s)", "%s %% %s", "std.mod(%s, %s)"):
                    more.append(("nodirective_count" if bad else "nodirective_ok", entry % (fmt, arg), None, None))
        cases += more
        for kind, src, f, arg in cases:
            r = ev.run(src)
            if r.cls == "inconclusive":
                continue
            agg.nontrivial.add(common.h64(src))
            agg.count("errors:" + kind + ":" + r.cls)
            if r.cls in ("panic", "crash"):
                agg.violation(common.panic_signature(r, {"leg": "errors"}), {"src": src}, {"script": r.lines})
                continue
            # Python as the arbiter of "is this malformed" where it can be asked
            if kind == "malformed":
                try:
                    pyarg = eval(arg.replace("{a: 1}", "{'a': 1}"))
                    if isinstance(pyarg, list):
                        pyarg = tuple(pyarg)
                    f % pyarg
                    py_ok = True
                except Exception:
                    py_ok = False
                unambiguous = f in ("%", "%5", "%.", "%.3", "%(", "%(a", "%(a)", "%-", "%#", "%l", "%y", "%k", "%!",
                                    "%5.2", "%*", "%.*", "% ", "abc%", "%D", "%S", "%n", "%p", "%b", "%\u20ac")
                if not py_ok and r.cls == "value" and unambiguous and arg in ("[1]", "[1, 2]", "{a: 1}"):
                    agg.violation({"kind": "malformed_format_accepted", "fmt": f},
                                  {"src": src, "got": r.brief()}, {"script": r.lines})
            elif kind == "nodirective_count":
                if r.cls == "value":
                    agg.violation({"kind": "mismatch_accepted", "src": re.sub(r'"[^"]*"', '"..."', src)[:40]}, {"src": src, "got": r.brief()},
                                  {"script": r.lines})
            elif kind == "nodirective_ok":
                if r.cls != "value":
                    agg.violation({"kind": "directive_free_format_rejected", "src": re.sub(r'"[^"]*"', '"..."', src)[:40]},
                                  {"src": src, "got": r.brief()}, {"script": r.lines})
            elif kind in ("count", "key") or re.sub(r"^std\.mod\((.*)\)$|^(\".*\") % (.*)$", lambda m_: "std.format(%s)" % m_.group(1) if m_.group(1) else "std.format(%s, %s)" % (m_.group(2), m_.group(3)), src) in ('std.format("%d", ["x"])', 'std.format("%c", ["ab"])',
                                                    'std.format("%c", [1114112])', 'std.format("%c", [55296])',
                                                    'std.format("%d", [null])', 'std.format("%*d", ["w", 1])'):
                if r.cls == "value" and src != 'std.format("%(a)d %d", {a: 1})':
                    agg.violation({"kind": "mismatch_accepted", "src": src}, {"src": src, "got": r.brief()},
                                  {"script": r.lines})
    finally:
        ev.close()
    return agg


def run(tier, seed):
    t0 = time.time()
    quick = tier != "thorough"
    total = Agg()
    n = 120_000 if quick else 6_000_000
    for a in common.pmap(grid_shard, [(seed * 101 + i, n // 64, not quick) for i in range(64)]):
        total.merge(a)
    convs = list("diuoxXeEfFgGcs")
    for a in common.pmap(flags_shard, [(seed + i, [c]) for i, c in enumerate(convs)]):
        total.merge(a)
    for a in common.pmap(errors_shard, [(seed, 0)]):
        total.merge(a)
    rule = ("directive x random flag subset x width (0..70, 300, 70000, *) x precision (0..20, 60..70000, .*) x value, "
            "through std.format / % / scalar / (key) / * forms; exhaustive over all 32 flag subsets (each in canonical, reversed and one random order; random cases also repeat flags) x 14 conversions x "
            "small widths/precisions; oracle = Python % digit for digit on the shared subset (d i u o x X e E f F c s, "
            "|v| < 2^53 for integer conversions, -0.0 normalised, #o and %.Ns excluded), value/shape invariants for "
            "g G and larger magnitudes; len(field) >= width always; malformed formats and count/type/key mismatches "
            "must be errors. distinct_nontrivial = distinct (format, value) pairs compared digit for digit.")
    return common.finish(PROP, tier, seed, total, rule, t0,
                         assumptions=["Python's % operator implements C printf for the shared subset"])

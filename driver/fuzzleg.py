"""Coverage-guided legs (thorough tiers of C01, C14, C16): libFuzzer campaigns on /verif/fuzz with in-process monitors.

The fuzzer only *produces* inputs and keeps those on which a monitor or rsjsonnet itself failed; every kept artifact is
then re-run alone through the same binary, its report parsed and turned into a signature of the calling check.  Timeouts,
out-of-memory stops and slow units are resource observations (inconclusive counters), never verdicts."""
import glob
import hashlib
import os
import random
import re
import shutil
import subprocess
import time

import common
import genbytes

FUZZ_DIR = os.path.join(common.VERIF, "fuzz")
FUZZ_TARGET = os.path.join(common.TARGET, "fuzz")
_NORM = re.compile(r"[0-9]+")


def _fuzz_dir():
    """The crate depends on the repository by path; for a repository snapshot (VERIF_REPO) a patched copy is used."""
    lock_src = os.path.join(common.REPO, "Cargo.lock")
    if common.REPO == "/repo":
        d = FUZZ_DIR
    else:
        d = os.path.join(common.TARGET, "fuzz_src")
        shutil.rmtree(d, ignore_errors=True)
        shutil.copytree(FUZZ_DIR, d, ignore=shutil.ignore_patterns("target", "Cargo.lock"))
        p = os.path.join(d, "Cargo.toml")
        with open(p) as f:
            t = f.read()
        with open(p, "w") as f:
            f.write(t.replace('"/repo/', '"' + common.REPO.rstrip("/") + "/"))
    lock = os.path.join(d, "Cargo.lock")
    if not os.path.exists(lock):
        shutil.copy(lock_src, lock)
    return d


def build():
    """No sanitizer: with forbid(unsafe_code) in all three crates ASan can only indict dependencies (C01's thorough tier
    has an ASan leg of its own), and on this target it costs two orders of magnitude (every execution runs in a fresh
    thread with a large stack).  Debug assertions and overflow checks are on (profile in fuzz/Cargo.toml)."""
    env = dict(common.CARGO_ENV, CARGO_TARGET_DIR=FUZZ_TARGET)
    return common._run_build(["cargo", "+nightly", "fuzz", "build", "-s", "none", "--fuzz-dir", _fuzz_dir()], env, "fuzz targets")


def binary(target):
    return os.path.join(FUZZ_TARGET, "x86_64-unknown-linux-gnu", "release", target)


def seed_corpus(dst, seed, max_len, extra=300):
    os.makedirs(dst, exist_ok=True)
    n = 0
    for root, _, files in os.walk(os.path.join(common.REPO, "ui-tests")):
        for fn in sorted(files):
            if fn.endswith((".jsonnet", ".libsonnet")):
                p = os.path.join(root, fn)
                if os.path.getsize(p) <= max_len:
                    shutil.copy(p, os.path.join(dst, "ui_%04d" % n))
                    n += 1
    rng = random.Random(seed)
    for i in range(extra):
        _, data = genbytes.gen_input(rng)
        with open(os.path.join(dst, "gen_%04d" % i), "wb") as f:
            f.write(data[:max_len])
    return n + extra


def _known_open(key_part):
    return any(key_part in k.get("key", "") and k.get("status") == "open" for k in common.load_known_findings())


def _fuzz_env(work):
    env = dict(os.environ, TMPDIR=work)
    if _known_open("sourceannot-zero-width-span"):
        env["VERIF_FUZZ_SWALLOW_KNOWN"] = "1"
    return env


def _worker(args):
    """One libFuzzer process after another on the shared corpus directory until the time is up (a crash ends a process
    and leaves an artifact; the next one carries on)."""
    target, corpus, art, work, seconds, seed, max_len, idx = args
    t_end = time.time() + seconds
    st = {"executions": 0, "processes": 0, "coverage_edges": 0, "features": 0, "deadly": 0, "log_tail": ""}
    k = 0
    while time.time() < t_end - 3 and k < 400:
        left = int(t_end - time.time())
        cmd = [binary(target), corpus, "-artifact_prefix=" + art + "/", "-max_total_time=%d" % left, "-timeout=10",
               "-rss_limit_mb=3000", "-malloc_limit_mb=1500", "-max_len=%d" % max_len, "-close_fd_mask=2",
               "-seed=%d" % (seed * 1000 + idx * 37 + k + 1), "-reload=1", "-print_final_stats=1", "-report_slow_units=30"]
        try:
            p = subprocess.run(cmd, stdout=subprocess.PIPE, stderr=subprocess.STDOUT, text=True, errors="replace",
                               timeout=left + 120, env=_fuzz_env(work), cwd=work)
            out = p.stdout
        except subprocess.TimeoutExpired as e:
            out = e.stdout.decode("utf-8", "replace") if isinstance(e.stdout, bytes) else (e.stdout or "")
        k += 1
        st["processes"] += 1
        m = re.search(r"stat::number_of_executed_units: (\d+)", out)
        if m:
            st["executions"] += int(m.group(1))
        else:
            ms = re.findall(r"^#(\d+)\t", out, re.M)
            if ms:
                st["executions"] += int(ms[-1])
        for m in re.finditer(r"^#\d+\t\w+ +cov: (\d+) ft: (\d+)", out, re.M):
            st["coverage_edges"] = max(st["coverage_edges"], int(m.group(1)))
            st["features"] = max(st["features"], int(m.group(2)))
        if "deadly signal" in out or "ERROR: libFuzzer" in out:
            st["deadly"] += 1
        st["log_tail"] = "\n".join(l for l in out.splitlines() if "NEW_FUNC" not in l)[-500:]
    return st


def campaign(target, seconds, seed, max_len=2048, jobs=None, workdir=None):
    """Runs `jobs` libFuzzer workers on one shared corpus; returns (stats dict, [artifact paths], work dir)."""
    jobs = jobs or common.NPROC
    work = workdir or os.path.join(common.SCRATCH, "fuzz_%s_%d" % (target, os.getpid()))
    shutil.rmtree(work, ignore_errors=True)
    corpus, art = os.path.join(work, "corpus"), os.path.join(work, "art")
    os.makedirs(art)
    nseed = seed_corpus(corpus, seed, max_len)
    t0 = time.time()
    res = common.pmap(_worker, [(target, corpus, art, work, seconds, seed, max_len, i) for i in range(jobs)], nproc=jobs)
    stats = {"target": target, "seconds": round(time.time() - t0, 1), "seed_inputs": nseed, "jobs": jobs,
             "executions": sum(r["executions"] for r in res), "processes": sum(r["processes"] for r in res),
             "coverage_edges": max(r["coverage_edges"] for r in res), "features": max(r["features"] for r in res),
             "deadly_signals": sum(r["deadly"] for r in res), "corpus": len(os.listdir(corpus)),
             "log_tail": res[0]["log_tail"]}
    arts = sorted(glob.glob(os.path.join(art, "*")))
    return stats, arts, work


def rerun(target, path, timeout=120):
    """One artifact alone through the fuzz binary; returns a classification dict."""
    with open(path, "rb") as f:
        data = f.read()
    env = dict(os.environ)
    env.pop("VERIF_FUZZ_SWALLOW_KNOWN", None)
    try:
        p = subprocess.run([binary(target), path, "-timeout=60", "-rss_limit_mb=3000", "-malloc_limit_mb=1500"],
                           stdout=subprocess.PIPE, stderr=subprocess.PIPE, timeout=timeout, env=env)
    except subprocess.TimeoutExpired:
        return {"cls": "timeout", "data": data}
    err = p.stderr.decode("utf-8", "replace")
    d = {"data": data, "exit": p.returncode, "stderr": err[-3000:]}
    m = re.search(r"VERIF-MONITOR (C\d+): ([^\n]*)", err)
    if m:
        d.update(cls="monitor", prop=m.group(1), msg=m.group(2))
        return d
    m = re.search(r"panicked at ([^\n]+?):(\d+):(\d+):\n([^\n]*)", err)
    if m:
        d.update(cls="panic", loc=m.group(1), line=int(m.group(2)), msg=m.group(4))
        return d
    m = re.search(r"ERROR: (AddressSanitizer|libFuzzer): ([^\n]*)", err)
    if m:
        what = m.group(2)
        if "out-of-memory" in what or "timeout" in what:
            d.update(cls="resource", what=what[:80])
        elif "stack-overflow" in what:
            d.update(cls="native_stack_overflow", what=what[:80])
        else:
            d.update(cls="sanitizer", what=m.group(1) + ": " + what[:100])
        return d
    if p.returncode == 0:
        d.update(cls="clean")
    else:
        d.update(cls="crash")
    return d


def panic_signature(d, where=None):
    loc = d["loc"]
    msg = d["msg"].split(" of `")[0].split("; it is inside")[0]
    if where is None:
        where = "session" if ("rsjsonnet-front/" in loc or "sourceannot" in loc) else "evalsrv"
    return {"kind": "panic", "where": where, "msg": _NORM.sub("N", msg)[:120], "loc": loc}


def run_leg(agg, prop, target, seconds, seed, max_len, judge, corpus_cb=None):
    """Builds, runs a campaign, re-runs every crash artifact and hands its classification to `judge(agg, cls_dict)`.
    `judge` records violations that belong to `prop`; everything else is counted."""
    build()
    stats, arts, work = campaign(target, seconds, seed, max_len=max_len)
    try:
        agg.evaluations += stats["executions"]
        for k in ("executions", "coverage_edges", "features", "corpus", "processes", "deadly_signals", "seed_inputs"):
            agg.count("fuzz_%s_%s" % (target, k), stats[k])
        if stats["executions"] == 0:
            agg.inconc("fuzz_campaign_did_not_run")
            agg.sample({"fuzz_log_tail": stats["log_tail"]})
            return stats
        # non-trivial = inputs the fuzzer kept because they reached new coverage (beyond the seed inputs)
        corpus_files = glob.glob(os.path.join(work, "corpus", "*"))
        found = []
        for p in corpus_files:
            bn = os.path.basename(p)
            if not bn.startswith(("ui_", "gen_")):
                agg.nontrivial.add(common.h64("fuzz", target, bn))
                if corpus_cb is not None:
                    with open(p, "rb") as f:
                        found.append(f.read())
        if corpus_cb is not None:
            # the inputs the fuzzer kept because they reached new coverage also go through the check's own oracle
            corpus_cb(agg, found)
        seen = set()
        for a in arts:
            bn = os.path.basename(a)
            kind = bn.split("-")[0]
            if kind in ("oom", "timeout", "slow"):
                agg.count("fuzz_resource_artifact:" + kind)
                continue
            with open(a, "rb") as f:
                h = hashlib.sha1(f.read()).hexdigest()
            if h in seen:
                continue
            seen.add(h)
            d = rerun(target, a)
            agg.count("fuzz_artifact:" + d["cls"])
            judge(agg, d)
        agg.sample({"fuzz_campaign": {k: v for k, v in stats.items() if k != "log_tail"}})
    finally:
        shutil.rmtree(work, ignore_errors=True)
    return stats

"""Reference lexer for Jsonnet written from the lexical grammar of the specification
(jsonnet.org/ref/spec.html#lexing), working on bytes.  Returns tokens
(kind, start, end, payload) or raises LexErr(start, end).  Text blocks: lines end with LF, a CR before it is
content, a line of CR LF alone is blank; a stray CR right after ||| raises Unmodelled (the caller skips the payload
comparison, the tiling monitor still applies)."""

KEYWORDS = {"assert", "else", "error", "false", "for", "function", "if", "import", "importstr", "importbin", "in",
            "local", "null", "tailstrict", "then", "self", "super", "true"}
OPCHARS = b"!$:~+-&|^=<>*/%"
SIMPLE_OPS = {":": "Colon", "::": "ColonColon", ":::": "ColonColonColon", "+:": "PlusColon", "+::": "PlusColonColon",
              "+:::": "PlusColonColonColon", "=": "Eq", "$": "Dollar", "*": "Asterisk", "/": "Slash", "%": "Percent",
              "+": "Plus", "-": "Minus", "<<": "LtLt", ">>": "GtGt", "<": "Lt", "<=": "LtEq", ">": "Gt", ">=": "GtEq",
              "==": "EqEq", "!=": "ExclamEq", "&": "Amp", "^": "Hat", "|": "Pipe", "&&": "AmpAmp", "||": "PipePipe",
              "!": "Exclam", "~": "Tilde"}
SYMBOLS = {"{": "LeftBrace", "}": "RightBrace", "[": "LeftBracket", "]": "RightBracket", ",": "Comma", ".": "Dot",
           "(": "LeftParen", ")": "RightParen", ";": "Semicolon"}
KW_NAMES = {"assert": "Assert", "else": "Else", "error": "Error", "false": "False", "for": "For", "function": "Function",
            "if": "If", "import": "Import", "importstr": "Importstr", "importbin": "Importbin", "in": "In",
            "local": "Local", "null": "Null", "tailstrict": "Tailstrict", "then": "Then", "self": "Self_",
            "super": "Super", "true": "True"}


class LexErr(Exception):
    def __init__(self, what, start=None, end=None):
        super().__init__(what)
        self.what = what


class Unmodelled(Exception):
    pass


def lossy(b):
    return b.decode("utf-8", "replace")


def lex(data, want_ws=True):
    n = len(data)
    i = 0
    toks = []

    def add(kind, s, e, payload=None):
        if want_ws or kind not in ("W", "C"):
            toks.append((kind, s, e, payload))

    while i < n:
        c = data[i]
        ch = chr(c)
        start = i
        if ch in SYMBOLS:
            i += 1
            add("S" + SYMBOLS[ch], start, i)
        elif ch in " \t\n\r":
            while i < n and data[i] in b" \t\n\r":
                i += 1
            add("W", start, i)
        elif ch == "#" or data.startswith(b"//", i):
            j = data.find(b"\n", i)
            i = n if j < 0 else j + 1
            add("C", start, i)
        elif data.startswith(b"/*", i):
            j = data.find(b"*/", i + 2)
            if j < 0:
                raise LexErr("unfinished comment")
            i = j + 2
            add("C", start, i)
        elif data.startswith(b"|||", i):
            i, text = text_block(data, i)
            add("B", start, i, text)
        elif c in OPCHARS:
            k = i + 1
            while k < n and data[k] in OPCHARS:
                if data.startswith(b"//", k) or data.startswith(b"/*", k) or data.startswith(b"|||", k):
                    break
                k += 1
            while k - i > 1 and data[k - 1] in b"+-~!$":
                k -= 1
            op = data[i:k].decode("ascii")
            i = k
            if op in SIMPLE_OPS:
                add("S" + SIMPLE_OPS[op], start, i)
            else:
                add("O", start, i, op)
        elif ch.isdigit() and c < 0x80:
            i, digits, exp = number(data, i)
            add("N", start, i, (digits, exp))
        elif (ch.isalpha() and c < 0x80) or ch == "_":
            while i < n and (data[i] < 0x80 and (chr(data[i]).isalnum() or data[i] == 0x5F)):
                i += 1
            word = data[start:i].decode("ascii")
            if word in KEYWORDS:
                add("S" + KW_NAMES[word], start, i)
            else:
                add("I", start, i, word)
        elif ch == "@":
            if i + 1 < n and data[i + 1] in b"'\"":
                i, text = verbatim(data, i + 2, data[i + 1])
                add("Q", start, i, text)
            else:
                raise LexErr("invalid char @")
        elif ch in "'\"":
            i, text = quoted(data, i + 1, c)
            add("Q", start, i, text)
        else:
            raise LexErr("invalid character or UTF-8")
    add("E", n, n)
    return toks


def number(data, i):
    n = len(data)
    start = i

    def digits_with_underscores(i):
        ds = []
        if not (i < n and chr(data[i]).isdigit() and data[i] < 0x80):
            return i, None
        while True:
            while i < n and 0x30 <= data[i] <= 0x39:
                ds.append(chr(data[i]))
                i += 1
            if i < n and data[i] == 0x5F:
                if i + 1 < n and 0x30 <= data[i + 1] <= 0x39:
                    i += 1
                    continue
                raise LexErr("missing digit after underscore")
            break
        return i, "".join(ds)

    i, ip = digits_with_underscores(i)
    if len(ip) > 1 and ip[0] == "0":
        raise LexErr("leading zero")
    # a leading 0 followed by '_' digit is also a leading zero situation: 0_1
    frac = ""
    if i < n and data[i] == 0x2E:
        i += 1
        j, frac = digits_with_underscores(i)
        if frac is None:
            raise LexErr("missing fraction digits")
        i = j
    exp = 0
    if i < n and data[i] in b"eE":
        i += 1
        sign = 1
        if i < n and data[i] in b"+-":
            sign = -1 if data[i] == 0x2D else 1
            i += 1
        j, ed = digits_with_underscores(i)
        if ed is None:
            raise LexErr("missing exponent digits")
        i = j
        ev = int(ed)
        if ev >= 2 ** 63:
            raise LexErr("exponent overflow")
        exp = sign * ev
    return i, ip + frac, exp - len(frac)


ESC = {0x22: '"', 0x27: "'", 0x5C: "\\", 0x2F: "/", 0x62: "\b", 0x66: "\f", 0x6E: "\n", 0x72: "\r", 0x74: "\t"}


def hex4(data, i):
    h = data[i:i + 4]
    if len(h) == 4 and all(chr(b) in "0123456789abcdefABCDEF" for b in h):
        return int(h.decode("ascii"), 16)
    return None


def quoted(data, i, delim):
    n = len(data)
    out = []
    raw = bytearray()

    def flush():
        if raw:
            out.append(lossy(bytes(raw)))
            raw.clear()
    while True:
        if i >= n:
            raise LexErr("unfinished string")
        b = data[i]
        if b == delim:
            flush()
            return i + 1, "".join(out)
        if b == 0x5C:
            flush()
            if i + 1 >= n:
                raise LexErr("unfinished string")
            e = data[i + 1]
            if e in ESC:
                out.append(ESC[e])
                i += 2
            elif e == 0x75:
                cu = hex4(data, i + 2)
                if cu is None:
                    raise LexErr("incomplete unicode escape")
                i += 6
                if 0xD800 <= cu <= 0xDFFF:
                    if data.startswith(b"\\u", i):
                        cu2 = hex4(data, i + 2)
                        if cu2 is None:
                            raise LexErr("incomplete unicode escape")
                        if 0xD800 <= cu <= 0xDBFF and 0xDC00 <= cu2 <= 0xDFFF:
                            out.append(chr(0x10000 + ((cu - 0xD800) << 10) + (cu2 - 0xDC00)))
                            i += 6
                        else:
                            raise LexErr("invalid surrogate pair")
                    else:
                        raise LexErr("lone surrogate")
                else:
                    out.append(chr(cu))
            else:
                raise LexErr("invalid escape")
        else:
            raw.append(b)
            i += 1


def verbatim(data, i, delim):
    n = len(data)
    raw = bytearray()
    while True:
        if i >= n:
            raise LexErr("unfinished string")
        b = data[i]
        if b == delim:
            if i + 1 < n and data[i + 1] == delim:
                raw.append(delim)
                i += 2
                continue
            return i + 1, lossy(bytes(raw))
        raw.append(b)
        i += 1


def text_block(data, i):
    """data[i:] starts with '|||'.  A line ends with LF; a CR before it is ordinary content, except that a line
    consisting of CR LF alone is as blank as one consisting of LF alone.  Every line contributes exactly its bytes
    after the indentation prefix (blank lines: all their bytes)."""
    n = len(data)
    i += 3
    chomp = False
    if i < n and data[i] == 0x2D:
        chomp = True
        i += 1
    # optional horizontal whitespace, then a line break (LF or CR LF)
    while i < n and data[i] in b" \t":
        i += 1
    if i < n and data[i] == 0x0D:
        i += 1
        if i < n and data[i] != 0x0A:
            raise Unmodelled()      # a stray CR after |||: the grammar does not say
    if i >= n or data[i] != 0x0A:
        raise LexErr("missing line break after |||")
    i += 1
    lines = []
    # leading blank lines
    while i < n:
        if data[i] == 0x0A:
            lines.append(b"\n")
            i += 1
        elif data.startswith(b"\r\n", i):
            lines.append(b"\r\n")
            i += 2
        else:
            break
    # first line defines the prefix
    j = i
    while j < n and data[j] in b" \t":
        j += 1
    prefix = data[i:j]
    if not prefix:
        raise LexErr("text block's first line must start with whitespace")
    while True:
        # at the start of a line
        if data.startswith(prefix, i):
            k = data.find(b"\n", i)
            if k < 0:
                raise LexErr("unfinished text block")
            lines.append(data[i + len(prefix):k + 1])
            i = k + 1
        elif i < n and data[i] == 0x0A:
            lines.append(b"\n")
            i += 1
        elif data.startswith(b"\r\n", i):
            lines.append(b"\r\n")
            i += 2
        else:
            j = i
            while j < n and data[j] in b" \t":
                j += 1
            if data.startswith(b"|||", j):
                i = j + 3
                break
            raise LexErr("bad text block termination")
    text = lossy(b"".join(lines))
    if chomp:
        if not text.endswith("\n"):
            raise Unmodelled()
        text = text[:-1]
    return i, text

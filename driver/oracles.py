"""Independent decoders used as oracles: strict RFC 8259 JSON, the emitted YAML subset, helpers."""
import re


class Invalid(Exception):
    pass


_NUM = re.compile(r"-?(?:0|[1-9][0-9]*)(?:\.[0-9]+)?(?:[eE][-+]?[0-9]+)?")
_WS = " \t\n\r"
_ESC = {'"': '"', "\\": "\\", "/": "/", "b": "\b", "f": "\f", "n": "\n", "r": "\r", "t": "\t"}


class Obj(dict):
    """Decoded JSON object that remembers key order and duplicates."""
    pass


def strict_json(text, want_sorted=False):
    """Parses text as exactly one RFC 8259 JSON value.  Raises Invalid.  Numbers -> float.
    Objects -> dict; duplicate keys and (if want_sorted) unsorted keys raise Invalid."""
    n = len(text)
    pos = 0

    def ws():
        nonlocal pos
        while pos < n and text[pos] in _WS:
            pos += 1

    def string():
        nonlocal pos
        assert text[pos] == '"'
        pos += 1
        out = []
        while True:
            if pos >= n:
                raise Invalid("unterminated string")
            c = text[pos]
            if c == '"':
                pos += 1
                return "".join(out)
            if c == "\\":
                pos += 1
                if pos >= n:
                    raise Invalid("bad escape")
                e = text[pos]
                if e in _ESC:
                    out.append(_ESC[e])
                    pos += 1
                elif e == "u":
                    h = text[pos + 1:pos + 5]
                    if not re.fullmatch(r"[0-9a-fA-F]{4}", h):
                        raise Invalid("bad \\u escape")
                    cu = int(h, 16)
                    pos += 5
                    if 0xD800 <= cu < 0xDC00:
                        h2 = text[pos:pos + 6]
                        if not re.fullmatch(r"\\u[dD][c-fC-F][0-9a-fA-F]{2}", h2):
                            raise Invalid("lone high surrogate escape")
                        lo = int(h2[2:], 16)
                        pos += 6
                        out.append(chr(0x10000 + ((cu - 0xD800) << 10) + (lo - 0xDC00)))
                    elif 0xDC00 <= cu < 0xE000:
                        raise Invalid("lone low surrogate escape")
                    else:
                        out.append(chr(cu))
                else:
                    raise Invalid("bad escape \\" + e)
            elif ord(c) < 0x20:
                raise Invalid("raw control character U+%04X in string" % ord(c))
            else:
                out.append(c)
                pos += 1

    def value(depth):
        nonlocal pos
        if depth > 2000:
            raise Invalid("too deep")
        ws()
        if pos >= n:
            raise Invalid("unexpected end")
        c = text[pos]
        if c == "{":
            pos += 1
            o = Obj()
            keys = []
            ws()
            if pos < n and text[pos] == "}":
                pos += 1
                return o
            while True:
                ws()
                if pos >= n or text[pos] != '"':
                    raise Invalid("expected key")
                k = string()
                ws()
                if pos >= n or text[pos] != ":":
                    raise Invalid("expected ':'")
                pos += 1
                v = value(depth + 1)
                if k in o:
                    raise Invalid("duplicate key %r" % k)
                if want_sorted and keys and not (keys[-1] < k):
                    raise Invalid("keys not sorted: %r before %r" % (keys[-1], k))
                keys.append(k)
                o[k] = v
                ws()
                if pos < n and text[pos] == ",":
                    pos += 1
                    continue
                if pos < n and text[pos] == "}":
                    pos += 1
                    return o
                raise Invalid("expected ',' or '}'")
        if c == "[":
            pos += 1
            a = []
            ws()
            if pos < n and text[pos] == "]":
                pos += 1
                return a
            while True:
                a.append(value(depth + 1))
                ws()
                if pos < n and text[pos] == ",":
                    pos += 1
                    continue
                if pos < n and text[pos] == "]":
                    pos += 1
                    return a
                raise Invalid("expected ',' or ']'")
        if c == '"':
            return string()
        if text.startswith("true", pos):
            pos += 4
            return True
        if text.startswith("false", pos):
            pos += 5
            return False
        if text.startswith("null", pos):
            pos += 4
            return None
        m = _NUM.match(text, pos)
        if m:
            pos = m.end()
            x = float(m.group(0))
            if x != x or x in (float("inf"), float("-inf")):
                raise Invalid("number out of range")
            return x
        raise Invalid("unexpected character %r at %d" % (c, pos))

    v = value(0)
    ws()
    if pos != n:
        raise Invalid("trailing characters at %d: %r" % (pos, text[pos:pos + 20]))
    return v


# ------------------------------------------------------------------------------------------------
# The YAML subset emitted by std.manifestYamlDoc/Stream (DESIGN.md Appendix C)

_PLAIN_KEY = re.compile(r"[0-9A-Za-z/_.\-]+")


class BlockScalar(Exception):
    """A `|` block scalar was met: excluded by the property, the case is skipped."""


def _scalar(tok):
    """A scalar value token of the subset."""
    if tok == "[]":
        return []
    if tok == "{}":
        return {}
    if tok.startswith("|"):
        raise BlockScalar()
    try:
        v = strict_json(tok)
    except Invalid as e:
        raise Invalid("bad YAML scalar %r: %s" % (tok[:40], e))
    if isinstance(v, (dict, list)) and tok not in ("[]", "{}"):
        raise Invalid("flow collection not expected: %r" % tok[:40])
    return v


def _split_key(content):
    """content = 'key: rest' | 'key:' -> (key, rest or None)."""
    if content.startswith('"'):
        # scan a JSON string
        i = 1
        while i < len(content):
            if content[i] == "\\":
                i += 2
                continue
            if content[i] == '"':
                break
            i += 1
        else:
            raise Invalid("unterminated quoted key")
        key = strict_json(content[:i + 1])
        rest = content[i + 1:]
    else:
        m = _PLAIN_KEY.match(content)
        if not m:
            raise Invalid("bad plain key in %r" % content[:40])
        key = m.group(0)
        rest = content[m.end():]
    if rest == ":":
        return key, None
    if rest.startswith(": "):
        return key, rest[2:]
    raise Invalid("expected ': ' after key in %r" % content[:60])


def yaml_subset_doc(text):
    """Parses one document (without '---') of the emitted subset."""
    if text.endswith("\n"):
        raise Invalid("document ends with newline")
    lines = text.split("\n")
    rows = []
    for ln in lines:
        stripped = ln.lstrip(" ")
        if stripped == "":
            raise Invalid("blank line")
        if "\t" in ln[:len(ln) - len(stripped)]:
            raise Invalid("tab in indentation")
        rows.append((len(ln) - len(stripped), stripped))
    if len(rows) == 1 and not rows[0][1].startswith("- ") and rows[0][1] != "-":
        # a lone scalar or a one-entry mapping
        c = rows[0][1]
        if rows[0][0] != 0:
            raise Invalid("indented root")
        try:
            return _scalar(c)
        except Invalid:
            pass
    pos = 0

    def is_seq_line(c):
        return c == "-" or c.startswith("- ")

    def block(indent):
        """Parses a block collection whose lines are at `indent`."""
        nonlocal pos
        if pos >= len(rows):
            raise Invalid("unexpected end of document")
        ind, c = rows[pos]
        if ind != indent:
            raise Invalid("indentation %d, expected %d" % (ind, indent))
        if is_seq_line(c):
            return seq(indent)
        return mapping(indent)

    def seq(indent):
        nonlocal pos
        out = []
        while pos < len(rows) and rows[pos][0] == indent and is_seq_line(rows[pos][1]):
            c = rows[pos][1]
            if c == "-":
                pos += 1
                if pos >= len(rows) or rows[pos][0] <= indent:
                    raise Invalid("empty sequence entry")
                out.append(block(rows[pos][0]))
                continue
            rest = c[2:]
            # scalar or first key of a mapping
            is_map = False
            try:
                k, r = _split_key(rest)
                is_map = True
            except Invalid:
                is_map = False
            if is_map and not (rest.startswith('"') and _looks_scalar(rest)):
                # treat "- key: value" as a mapping whose keys are at indent+2
                rows[pos] = (indent + 2, rest)
                out.append(mapping(indent + 2))
            else:
                out.append(_scalar(rest))
                pos += 1
        return out

    def mapping(indent):
        nonlocal pos
        out = {}
        while pos < len(rows) and rows[pos][0] == indent and not is_seq_line(rows[pos][1]):
            key, rest = _split_key(rows[pos][1])
            if key in out:
                raise Invalid("duplicate key %r" % key)
            pos += 1
            if rest is not None:
                if rest.startswith("|"):
                    raise BlockScalar()
                out[key] = _scalar(rest)
            else:
                if pos >= len(rows):
                    raise Invalid("missing value for key %r" % key)
                nind, nc = rows[pos]
                if is_seq_line(nc) and nind >= indent:
                    out[key] = seq(nind)
                elif nind > indent:
                    out[key] = block(nind)
                else:
                    raise Invalid("missing value for key %r" % key)
        if not out:
            raise Invalid("empty mapping at line %d" % pos)
        return out

    v = block(rows[0][0])
    if pos != len(rows):
        raise Invalid("unconsumed lines from %d: %r" % (pos, rows[pos]))
    return v


def _looks_scalar(rest):
    try:
        strict_json(rest)
        return True
    except Invalid:
        return False


def yaml_subset_stream(text, document_end=True):
    """'---\\n doc \\n---\\n doc ... \\n...\\n' -> list of documents (without c_document_end the stream
    ends with a single newline)."""
    if document_end:
        if not text.endswith("\n...\n"):
            raise Invalid("stream does not end with '...'")
    else:
        if not text.endswith("\n") or text.endswith("\n...\n"):
            raise Invalid("stream does not end with a newline / has an unexpected '...'")
        text = text[:-1] + "\n...\n"
    body = text[:-len("\n...\n")]
    if not body.startswith("---\n"):
        raise Invalid("stream does not start with '---'")
    docs = []
    cur = []
    for ln in body.split("\n")[1:]:
        if ln == "---":
            docs.append("\n".join(cur))
            cur = []
        else:
            cur.append(ln)
    docs.append("\n".join(cur))
    return [yaml_subset_doc(d) for d in docs]


def lossy_utf8(b):
    """Maximal-subpart lossy decoding (what String::from_utf8_lossy does)."""
    return b.decode("utf-8", "replace")

"""./check <Cxx> [--tier quick|thorough] [--replay FILE]   |   ./check setup"""
import importlib
import json
import os
import sys
import time

sys.path.insert(0, os.path.dirname(os.path.abspath(__file__)))
import common  # noqa: E402


def main():
    args = sys.argv[1:]
    if not args:
        print(__doc__)
        return 2
    prop = args[0]
    tier = None
    replay = None
    i = 1
    while i < len(args):
        if args[i] == "--tier":
            tier = args[i + 1]
            i += 2
        elif args[i] == "--replay":
            replay = args[i + 1]
            i += 2
        else:
            print("unknown argument", args[i])
            return 2
    tier, seed = common.tier_seed(tier)
    try:
        t = common.build_harness()
        t2 = common.build_cli()
        if prop == "setup":
            print(f"setup: harness built in {t:.1f}s, cli in {t2:.1f}s")
            return 0
        mod = importlib.import_module("checks." + prop.lower())
        if replay:
            with open(replay) as f:
                case = json.load(f)
            return mod.replay(case) if hasattr(mod, "replay") else common_replay(case)
        return mod.run(tier, seed)
    except common.Broken as e:
        print(f"[{prop}] BROKEN: {e}")
        return 2


def common_replay(case):
    rp = case.get("replay") or {}
    if "script" in rp:
        srv = common.Server()
        try:
            recs = srv.request(rp["script"], timeout=120)
            for r in recs:
                print(r.raw[:2000])
            err = srv.stderr_since()
            if err:
                print("stderr:", err.decode("utf-8", "replace")[:4000])
        except common.Crashed as e:
            print("server:", e)
        finally:
            srv.close()
    elif "argv" in rp:
        import subprocess
        p = subprocess.run([common.CLI] + rp["argv"], input=(rp.get("stdin") or "").encode(),
                           capture_output=True, timeout=120)
        print("exit", p.returncode)
        print("stdout", p.stdout[:4000])
        print("stderr", p.stderr[:4000])
    else:
        print(json.dumps(case, indent=1)[:8000])
    return 0


if __name__ == "__main__":
    sys.exit(main())

"""Table-driven oracle checks: cases = (name, jsonnet source, expectation)."""
import random
import re

import common
from common import Agg, Ev, same_value


class Err:
    """Expectation: the evaluation must fail with a diagnosed error (never a value, never a panic)."""

    def __init__(self, kinds=None):
        self.kinds = kinds


class Any:
    """Expectation: value or error, but never a crash."""


def norm(v):
    """ints -> floats recursively, tuples -> lists."""
    if isinstance(v, bool) or v is None or isinstance(v, str):
        return v
    if isinstance(v, (int, float)):
        return float(v)
    if isinstance(v, (list, tuple)):
        return [norm(x) for x in v]
    if isinstance(v, dict):
        return {k: norm(x) for k, x in v.items()}
    return v


def run_cases(agg, ev, cases, strict_zero=False, sample_every=997, **runkw):
    for (name, src, exp) in cases:
        r = ev.run(src, **runkw)
        if r.cls == "inconclusive":
            continue
        agg.count("family:" + name)
        sig = {"family": name.split(":")[0]}
        detail = {"src": src[:1500]}
        if r.cls in ("panic", "crash"):
            agg.violation(common.panic_signature(r, sig), dict(detail, got=r.brief()), {"script": r.lines})
            continue
        if isinstance(exp, Any):
            agg.nontrivial.add(common.h64(name, src))
            continue
        if isinstance(exp, Err):
            agg.nontrivial.add(common.h64(name, src))
            if r.cls == "value":
                agg.violation(dict(sig, kind="expected_error_got_value"), dict(detail, got=r.brief()),
                              {"script": r.lines})
            elif exp.kinds and r.kind not in exp.kinds:
                agg.violation(dict(sig, kind="wrong_error_kind", got=r.kind), dict(detail, got=r.brief()),
                              {"script": r.lines})
            continue
        if callable(exp):
            agg.nontrivial.add(common.h64(name, src))
            problem = exp(r)
            if problem:
                agg.violation(dict(sig, kind="predicate_failed", what=re.sub(r"[0-9]+", "N", str(problem))[:60]),
                              dict(detail, problem=str(problem)[:400], got=r.brief()), {"script": r.lines})
            continue
        if r.cls != "value":
            agg.violation(dict(sig, kind="expected_value_got_error", err=r.kind),
                          dict(detail, expected=common.jsonable(exp) if not isinstance(exp, float) else repr(exp),
                               got=r.brief()), {"script": r.lines})
            continue
        agg.nontrivial.add(common.h64(name, src))
        if not same_value(r.value, norm(exp), strict_zero=strict_zero):
            agg.violation(dict(sig, kind="value_mismatch"),
                          dict(detail, expected=repr(exp)[:600], got=repr(r.value)[:600]), {"script": r.lines})
        if agg.evaluations % sample_every == 1:
            agg.sample({"family": name, "src": src[:200], "got": (r.out or "")[:120]})


def shard_runner(gen):
    """Builds a shard function: gen(rng, n) yields cases."""
    def shard(args):
        seed, n = args
        rng = random.Random(seed)
        agg = Agg()
        ev = Ev(agg)
        try:
            run_cases(agg, ev, gen(rng, n))
        finally:
            ev.close()
        return agg
    return shard

"""Byte-level input generators: random bytes, token soup, corpus mutation."""
import os
import random

from common import REPO

_corpus = None


def corpus():
    """All .jsonnet/.libsonnet files under /repo/ui-tests as bytes (sorted, deterministic)."""
    global _corpus
    if _corpus is None:
        files = []
        for root, _, names in os.walk(os.path.join(REPO, "ui-tests")):
            for n in names:
                if n.endswith((".jsonnet", ".libsonnet")):
                    files.append(os.path.join(root, n))
        files.sort()
        out = []
        for p in files:
            with open(p, "rb") as f:
                d = f.read()
            if len(d) <= 200_000:
                out.append((os.path.relpath(p, REPO), d))
        _corpus = out
    return _corpus


KEYWORDS = [b"assert", b"else", b"error", b"false", b"for", b"function", b"if", b"import", b"importstr",
            b"importbin", b"in", b"local", b"null", b"tailstrict", b"then", b"self", b"super", b"true"]
SYMBOLS = [b"{", b"}", b"[", b"]", b",", b".", b"(", b")", b";", b"!", b"$", b":", b"::", b":::", b"+:", b"+::",
           b"+:::", b"~", b"+", b"-", b"&", b"|", b"^", b"=", b"<", b">", b"*", b"/", b"%", b"==", b"!=", b"<=",
           b">=", b"<<", b">>", b"&&", b"||", b"|||", b"//", b"/*", b"*/", b"#", b"@", b"'", b'"', b"\\", b"|||-"]
ATOMS = [b"x", b"y", b"std", b"std.length", b"std.map", b"std.format", b"std.foldl", b"std.sort", b"std.makeArray",
         b"std.parseJson", b"std.parseYaml", b"std.manifestJsonEx", b"std.extVar", b"std.native", b"std.thisFile",
         b"0", b"1", b"2", b"10", b"0.5", b"1e3", b"1e309", b"1.5e-7", b"1_000", b"0x10", b"01", b"1.", b"1e", b"1e+",
         b'"a"', b"'b'", b'"\\u20ac"', b'"\\ud83d\\ude00"', b'"\\ud800"', b'"\\q"', b'@"v""v"', b"@'w''w'",
         b"|||\n  text\n|||", b"|||-\n  text\n|||", b"|||\n text", b"\xe2\x82\xac", b"\xf0\x9f\x98\x80",
         b"\xff", b"\xc0\x80", b"\xed\xa0\x80", b"\xf4\x90\x80\x80", b"\xe2\x82", b"\x00", b"\r\n", b"\t",
         b"\n", b" ", b"  ", b"// c\n", b"# c\n", b"/* c */", b"a.b", b"a[0]", b"a[1:2]", b"a[::2]", b"f(1)",
         b"f(x=1)", b"{a: 1}", b"{a:: 1}", b"{a+: 1}", b"{[k]: 1}", b"[x for x in y]", b"{[x]: 1 for x in y}",
         b"self.a", b"super.a", b"$.a", b"x in super", b"e {a: 1}", b"local x = 1;", b"assert true;",
         b"function(x) x", b"if x then y else z", b"error 'e'", b"import 'a'", b"importstr 'a'", b"importbin 'a'"]
INVALID_UTF8 = [b"\x80", b"\xbf", b"\xc0", b"\xc1\x80", b"\xc2", b"\xe0\x80\x80", b"\xe0\xa0", b"\xed\xa0\x80",
                b"\xed\xbf\xbf", b"\xef\xbf", b"\xf0\x80\x80\x80", b"\xf0\x90\x80", b"\xf4\x90\x80\x80", b"\xf5",
                b"\xf8\x88\x80\x80\x80", b"\xfe", b"\xff", b"\xe2\x28\xa1", b"\xf0\x28\x8c\xbc", b"\xc3\x28"]


def random_bytes(rng, maxlen=200):
    n = rng.randint(0, maxlen)
    k = rng.random()
    if k < 0.3:
        return bytes(rng.getrandbits(8) for _ in range(n))
    if k < 0.6:
        return bytes(rng.choice(b" \t\n{}[]()+-*/%<>=!&|^~.,;:'\"\\@#$abcxyz0123456789_eE") for _ in range(n))
    return bytes(rng.choice([rng.getrandbits(7), rng.getrandbits(8)]) for _ in range(n))


def token_soup(rng, maxtok=40):
    n = rng.randint(1, maxtok)
    parts = []
    for _ in range(n):
        k = rng.random()
        if k < 0.25:
            parts.append(rng.choice(KEYWORDS))
        elif k < 0.5:
            parts.append(rng.choice(SYMBOLS))
        else:
            parts.append(rng.choice(ATOMS))
        if rng.random() < 0.7:
            parts.append(b" ")
    return b"".join(parts)


def mutate(rng, data, rounds=None):
    data = bytearray(data)
    rounds = rounds or rng.choice([1, 1, 1, 2, 3, 5])
    for _ in range(rounds):
        k = rng.randrange(12)
        n = len(data)
        if k == 0 and n:
            i = rng.randrange(n)
            data[i] ^= 1 << rng.randrange(8)
        elif k == 1 and n:
            i = rng.randrange(n)
            j = min(n, i + rng.randint(1, 20))
            del data[i:j]
        elif k == 2:
            i = rng.randint(0, n)
            data[i:i] = rng.choice(SYMBOLS + KEYWORDS + ATOMS)
        elif k == 3 and n:
            data = data[:rng.randint(0, n)]
        elif k == 4 and n:
            i = rng.randrange(n)
            j = min(n, i + rng.randint(1, 60))
            data[i:i] = data[i:j]
        elif k == 5:
            i = rng.randint(0, n)
            data[i:i] = rng.choice(INVALID_UTF8)
        elif k == 6 and n:
            other = corpus()[rng.randrange(len(corpus()))][1]
            if other:
                a = rng.randrange(len(other))
                b = min(len(other), a + rng.randint(1, 200))
                i = rng.randint(0, n)
                data[i:i] = other[a:b]
        elif k == 7 and n:
            i = rng.randrange(n)
            data[i] = rng.getrandbits(8)
        elif k == 8 and n:
            # swap two chunks
            i = rng.randrange(n)
            j = rng.randrange(n)
            data[i], data[j] = data[j], data[i]
        elif k == 9 and n:
            # replace a digit run by a boundary number
            import re
            m = list(re.finditer(rb"[0-9]+(\.[0-9]+)?", bytes(data)))
            if m:
                mm = rng.choice(m)
                data[mm.start():mm.end()] = rng.choice([b"0", b"-1", b"1e308", b"1e309", b"0.5", b"9007199254740993",
                                                          b"1e-400", b"2147483648", b"4294967296", b"65536",
                                                          b"1114112", b"55296", b"500", b"501", b"31", b"1e400"])
        elif k == 10 and n:
            # replace a std.xxx by another
            import re
            m = list(re.finditer(rb"std\.[A-Za-z0-9_]+", bytes(data)))
            if m:
                mm = rng.choice(m)
                data[mm.start():mm.end()] = rng.choice(ATOMS[3:13])
        else:
            i = rng.randint(0, n)
            data[i:i] = b"\r\n" if rng.random() < 0.5 else b"\n"
    return bytes(data)


def gen_input(rng):
    """One byte-level input: (family, bytes)."""
    k = rng.random()
    if k < 0.12:
        return "random", random_bytes(rng)
    if k < 0.32:
        return "soup", token_soup(rng)
    c = corpus()
    name, data = c[rng.randrange(len(c))]
    if k < 0.36:
        return "corpus", data
    return "mutant", mutate(rng, data)

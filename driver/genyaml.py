"""Structured YAML documents with anchors and aliases in every position (scalar values, mapping keys, sequence items,
whole collections), block and flow styles, and a scalar pool that contains texts a YAML 1.2 core-schema reader may resolve
to numbers outside the finite doubles."""

HUGE = ["1e999", "-1e999", "1E400", "+1e999", "1.5e308", "1.7976931348623159e308", "-1.7976931348623159e308", "1e309",
        ".inf", "-.inf", "+.inf", ".Inf", ".INF", ".nan", ".NaN", ".NAN", "0x" + "f" * 256, "0x1" + "0" * 256,
        "-0x" + "f" * 300, "0o" + "7" * 342, "0o2" + "0" * 341, "0o1" + "0" * 342, "9" * 400, "-" + "9" * 400,
        "1" + "0" * 308 + ".0", "0x" + "F" * 257, "179769313486231590" + "0" * 291, "1e+999", "1.e999", "0.1e1000"]
PLAIN = ["1", "0", "-1", "1.5", "1e3", "0x1f", "0o17", "true", "false", "null", "~", "abc", "a b", "x1", "-", "1e5",
         "1.7976931348623157e308", "5e-324", "1e-400", "0.0", "-0", "12_000", "0b11", "1:30", "2001-01-01", "", "''", '"q"',
         '"1e999"', "'1e999'", '"\\u00e9"', "é", "€"]


class Gen:
    def __init__(self, rng, huge_share=0.3):
        self.r = rng
        self.n = 0
        self.anchors = []          # (name, kind) defined so far in document order; kind in scalar|seq|map
        self.huge_share = huge_share
        self.stats = set()

    def scalar(self):
        r = self.r
        return r.choice(HUGE) if r.random() < self.huge_share else r.choice(PLAIN)

    def anchor(self, kind, pos):
        self.n += 1
        name = "a%d" % self.n
        self.anchors.append((name, kind))
        self.stats.add("anchor:%s:%s" % (kind, pos))
        return "&" + name + " "

    def alias(self, pos, kinds=("scalar", "seq", "map")):
        c = [a for a in self.anchors if a[1] in kinds]
        if not c:
            return None
        name, kind = self.r.choice(c)
        self.stats.add("alias:%s:%s" % (kind, pos))
        return "*" + name

    def node_lines(self, depth, pos):
        """A block node as a list of lines (first line continues the parent's line)."""
        r = self.r
        k = r.random()
        if k < 0.15:
            al = self.alias(pos)
            if al:
                return [al]
        if depth <= 0 or k < 0.5:
            a = self.anchor("scalar", pos) if r.random() < 0.35 else ""
            return [a + self.scalar()]
        if k < 0.6:
            # flow collection on one line
            a = self.anchor("seq", pos) if r.random() < 0.3 else ""
            items = []
            for _ in range(r.randint(0, 3)):
                al = self.alias("flowitem", ("scalar",)) if r.random() < 0.3 else None
                items.append(al or ((self.anchor("scalar", "flowitem") if r.random() < 0.3 else "") + self.scalar_flow()))
            return [a + "[" + ", ".join(items) + "]"]
        if k < 0.68:
            a = self.anchor("map", pos) if r.random() < 0.3 else ""
            items = []
            for i in range(r.randint(0, 3)):
                key = (self.anchor("scalar", "flowkey") if r.random() < 0.3 else "") + "fk%d%s" % (i, r.choice(["", "", "1e999"]))
                if r.random() < 0.2:
                    key = (self.anchor("scalar", "flowkey") if r.random() < 0.5 else "") + r.choice(HUGE[:12])
                al = self.alias("flowval", ("scalar",)) if r.random() < 0.3 else None
                items.append(key + ": " + (al or self.scalar_flow()))
            return [a + "{" + ", ".join(items) + "}"]
        if k < 0.84:
            a = self.anchor("seq", pos) if r.random() < 0.3 else ""
            out = [a.rstrip()] if a else [""]
            for _ in range(r.randint(1, 3)):
                sub = self.node_lines(depth - 1, "item")
                out.append("- " + sub[0])
                out.extend("  " + x for x in sub[1:])
            return out
        a = self.anchor("map", pos) if r.random() < 0.3 else ""
        out = [a.rstrip()] if a else [""]
        used = set()
        for i in range(r.randint(1, 3)):
            kk = r.random()
            if kk < 0.25:
                key = self.anchor("scalar", "key") + r.choice(HUGE[:14] + ["k", "1", "true"])
            elif kk < 0.35:
                key = self.alias("key", ("scalar",)) or "k%d" % i
            else:
                key = "k%d" % i
            if key in used:
                key = key + "x"
            used.add(key)
            sub = self.node_lines(depth - 1, "value")
            if len(sub) == 1:
                out.append(key + " : " + sub[0] if key.startswith("*") else key + ": " + sub[0])
            else:
                out.append((key + " :" if key.startswith("*") else key + ":") + (" " + sub[0] if sub[0] else ""))
                out.extend("  " + x for x in sub[1:])
        return out

    def scalar_flow(self):
        s = self.scalar()
        return s if s and not any(c in s for c in ",[]{}") else "x"

    def document(self, depth=3):
        self.anchors = []
        lines = self.node_lines(depth, "root")
        if lines and lines[0] == "":
            lines = lines[1:]
        return "\n".join(lines) + "\n"

    def stream(self):
        r = self.r
        docs = [self.document(r.choice([1, 2, 3, 4])) for _ in range(r.choice([1, 1, 1, 2, 3]))]
        if len(docs) == 1 and r.random() < 0.7:
            return docs[0]
        return "".join("---\n" + d for d in docs)

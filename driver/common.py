"""Shared machinery of the rsjsonnet runtime monitors: building, the evalsrv client,
process pool, verdicts, evidence, known findings."""
import hashlib
import json
import multiprocessing
import os
import random
import re
import select
import signal
import subprocess
import sys
import tempfile
import time
import traceback

VERIF = os.path.dirname(os.path.dirname(os.path.abspath(__file__)))
# VERIF_REPO: only for background exploration on a snapshot of the repository (vp run --with-repo); the registered
# checks always use /repo
REPO = os.environ.get("VERIF_REPO") or "/repo"
TARGET = os.path.join(VERIF, "target")
HARNESS_DIR = os.path.join(VERIF, "harness")
EVALSRV = os.path.join(TARGET, "harness", "release", "evalsrv")
GCHEAP = os.path.join(TARGET, "harness", "release", "gcheap")
CLI = os.path.join(TARGET, "cli", "release", "rsjsonnet")
EVIDENCE_DIR = os.path.join(VERIF, "evidence")
REPLAY_DIR = os.path.join(EVIDENCE_DIR, "replay")
SCRATCH = os.path.join(TARGET, "scratch")
NPROC = int(os.environ.get("VERIF_NPROC") or min(16, os.cpu_count() or 1))   # VERIF_NPROC: tools/psweep.py runs several checks side by side

CARGO_ENV = dict(os.environ, CARGO_NET_OFFLINE="true")


class Broken(Exception):
    """The run itself is broken / inconclusive beyond thresholds (exit 2, never a VIOLATION)."""


# ------------------------------------------------------------------------------------------------
# building (always from /repo's current working tree: path dependencies + --manifest-path)

def _run_build(cmd, env, what):
    t0 = time.time()
    p = subprocess.run(cmd, env=env, stdout=subprocess.PIPE, stderr=subprocess.STDOUT, text=True)
    if p.returncode != 0:
        sys.stderr.write(p.stdout[-6000:])
        raise Broken(f"building {what} failed")
    return time.time() - t0


def _harness_manifest():
    """The harness depends on the repository by path; for a repository snapshot a patched copy of the crate is used."""
    if REPO == "/repo":
        return os.path.join(HARNESS_DIR, "Cargo.toml")
    dst = os.path.join(TARGET, "harness_src")
    import shutil
    shutil.rmtree(dst, ignore_errors=True)
    shutil.copytree(HARNESS_DIR, dst, ignore=shutil.ignore_patterns("target"))
    with open(os.path.join(dst, "Cargo.toml")) as f:
        t = f.read()
    with open(os.path.join(dst, "Cargo.toml"), "w") as f:
        f.write(t.replace('"/repo/', '"' + REPO.rstrip("/") + "/"))
    return os.path.join(dst, "Cargo.toml")


def build_harness():
    lock_src = os.path.join(REPO, "Cargo.lock")
    lock_dst = os.path.join(HARNESS_DIR, "Cargo.lock")
    if not os.path.exists(lock_dst):
        with open(lock_src, "rb") as f, open(lock_dst, "wb") as g:
            g.write(f.read())
    env = dict(CARGO_ENV, CARGO_TARGET_DIR=os.path.join(TARGET, "harness"))
    return _run_build(["cargo", "build", "--release", "--offline", "--manifest-path", _harness_manifest()], env, "harness")


ASAN_EVALSRV = os.path.join(TARGET, "asan", "x86_64-unknown-linux-gnu", "release", "evalsrv")


def build_asan():
    """evalsrv under AddressSanitizer/LeakSanitizer (nightly toolchain, offline)."""
    env = dict(CARGO_ENV, CARGO_TARGET_DIR=os.path.join(TARGET, "asan"),
               RUSTFLAGS="-Zsanitizer=address -Cforce-frame-pointers=yes")
    return _run_build(["cargo", "+nightly", "build", "--release", "--offline", "--target", "x86_64-unknown-linux-gnu",
                       "--manifest-path", _harness_manifest(), "--bin", "evalsrv"], env, "ASan evalsrv")


def build_cli():
    env = dict(CARGO_ENV, CARGO_TARGET_DIR=os.path.join(TARGET, "cli"))
    return _run_build(["cargo", "build", "--release", "--offline", "--manifest-path",
                       os.path.join(REPO, "Cargo.toml"), "-p", "rsjsonnet"], env, "rsjsonnet CLI")


# ------------------------------------------------------------------------------------------------
# hex helpers

def hx(b):
    if isinstance(b, str):
        b = b.encode("utf-8", "surrogatepass")
    return "x" + b.hex()


def unhx(s):
    assert s[0] == "x", s[:20]
    return bytes.fromhex(s[1:])


def unhx_s(s):
    return unhx(s).decode("utf-8")


def unhx_list(s):
    if s == "-" or s == "":
        return []
    return [unhx(x).decode("utf-8", "replace") for x in s.split(",")]


# ------------------------------------------------------------------------------------------------
# evalsrv client

class Crashed(Exception):
    def __init__(self, kind, detail, partial=None):
        super().__init__(f"{kind}: {detail}")
        self.kind = kind          # 'crash' | 'timeout' | 'oom'
        self.detail = detail
        self.partial = partial or []


def _limits(mem_bytes):
    def f():
        import resource
        if mem_bytes:
            resource.setrlimit(resource.RLIMIT_AS, (mem_bytes, mem_bytes))
        resource.setrlimit(resource.RLIMIT_CORE, (0, 0))
    return f


class Record(dict):
    """One `R idx STATUS k=v ...` record."""
    __slots__ = ("status", "raw")

    def s(self, key, default=None):
        v = self.get(key)
        if v is None or v == "-":
            return default
        return unhx(v).decode("utf-8", "replace")


def parse_record(line):
    parts = line.split(" ")
    r = Record()
    r.raw = line
    r.status = parts[2] if len(parts) > 2 else "?"
    for p in parts[3:]:
        k, sep, v = p.partition("=")
        if sep:
            r[k] = v
    return r


class Server:
    def __init__(self, mem_gib=4, binary=None, env=None, want_stderr=True):
        self.binary = binary or EVALSRV
        self.mem = int(mem_gib * (1 << 30)) if mem_gib else None
        self.env = env
        self.want_stderr = want_stderr
        self.proc = None
        self.errf = None
        self.restarts = 0
        self._buf = b""
        self._start()

    def _start(self):
        os.makedirs(SCRATCH, exist_ok=True)
        if self.errf is not None:
            try:
                self.errf.close()
            except Exception:
                pass
        self.errf = tempfile.TemporaryFile(dir=SCRATCH)
        self.proc = subprocess.Popen([self.binary], stdin=subprocess.PIPE, stdout=subprocess.PIPE,
                                     stderr=self.errf, preexec_fn=_limits(self.mem), env=self.env,
                                     bufsize=0)
        self._buf = b""
        self.err_off = 0

    def close(self):
        if self.proc is not None:
            try:
                self.proc.stdin.close()
            except Exception:
                pass
            try:
                self.proc.kill()
            except Exception:
                pass
            self.proc.wait()
            self.proc = None
        if self.errf is not None:
            self.errf.close()
            self.errf = None

    def quit(self, timeout=120):
        """Asks the server to exit normally (so that leak checkers report); returns (exit status, stderr tail)."""
        try:
            os.write(self.proc.stdin.fileno(), b"QUIT\n")
            self.proc.stdin.close()
        except OSError:
            pass
        try:
            rc = self.proc.wait(timeout=timeout)
        except subprocess.TimeoutExpired:
            self._kill()
            rc = None
        err = self.stderr_since()[-6000:].decode("utf-8", "replace")
        self.proc = None
        self.errf.close()
        self.errf = None
        return rc, err

    def _readline(self, deadline):
        while True:
            i = self._buf.find(b"\n")
            if i >= 0:
                line = self._buf[:i]
                self._buf = self._buf[i + 1:]
                return line.decode("ascii", "replace")
            left = deadline - time.time()
            if left <= 0:
                return None
            r, _, _ = select.select([self.proc.stdout], [], [], min(left, 5.0))
            if r:
                chunk = os.read(self.proc.stdout.fileno(), 1 << 16)
                if not chunk:
                    return ""
                self._buf += chunk

    def stderr_since(self):
        """stderr bytes written since the last call."""
        self.errf.seek(0, 2)
        end = self.errf.tell()
        self.errf.seek(self.err_off)
        data = self.errf.read(end - self.err_off)
        self.err_off = end
        return data

    def request(self, lines, timeout=60.0, case_id="c"):
        """Sends one script; returns the list of Records.  Raises Crashed."""
        payload = ("BEGIN %s\n" % case_id + "\n".join(lines) + "\nEND\n").encode("ascii")
        self.stderr_since()
        try:
            # large payloads: interleave write and read to avoid pipe deadlock
            view = memoryview(payload)
            fd = self.proc.stdin.fileno()
            while len(view):
                _, w, _ = select.select([], [fd], [], 5.0)
                if w:
                    n = os.write(fd, view[:1 << 16])
                    view = view[n:]
                r, _, _ = select.select([self.proc.stdout], [], [], 0)
                if r:
                    chunk = os.read(self.proc.stdout.fileno(), 1 << 16)
                    if chunk:
                        self._buf += chunk
                    elif self.proc.poll() is not None:
                        raise BrokenPipeError()
        except (BrokenPipeError, OSError):
            pass
        deadline = time.time() + timeout
        recs = []
        while True:
            line = self._readline(deadline)
            if line is None:
                self._kill()
                self.restarts += 1
                self._start()
                raise Crashed("timeout", f"no answer within {timeout}s", recs)
            if line == "":
                rc = self.proc.wait()
                err = self.stderr_since()[-2000:].decode("utf-8", "replace")
                self.restarts += 1
                self._start()
                kind = "crash"
                if "memory allocation of" in err or (rc == -9):
                    kind = "oom"
                raise Crashed(kind, f"exit={rc} stderr={err!r}", recs)
            if line.startswith("R "):
                recs.append(parse_record(line))
            elif line == "DONE":
                return recs
            # CASE lines ignored

    def _kill(self):
        try:
            self.proc.kill()
        except Exception:
            pass
        self.proc.wait()


def run_lines(src, path="<src>", stack=None, gcmode=None, multiline=1, walk=0, with_std=1,
              manifest=True, exts=(), session=None, vfiles=()):
    """Script for: new state, load, eval, manifest.  Records: [NEW, (opts...), LOAD, EVAL, MANI]."""
    L = ["NEW" if session is None else "SESS %d %s" % session]
    if stack is not None:
        L.append(f"STACK {stack}")
    if gcmode is not None:
        L.append(f"GCMODE {gcmode}")
    for (p, data) in vfiles:
        L.append(f"VFILE {hx(p)} {hx(data)}")
    slot = 100
    for (kind, name, val) in exts:
        if kind == "str":
            L.append(f"STRTHUNK {slot} {hx(val)}")
        else:
            L.append(f"LOAD {slot} {hx('<ext:' + name + '>')} {hx(val)} 1")
        L.append(f"EXTVAR {hx(name)} {slot}")
        slot += 1
    L.append(f"LOAD 0 {hx(path)} {hx(src)} {with_std}")
    L.append(f"EVAL 0 0 {walk}")
    if manifest:
        L.append(f"MANI 0 {multiline}")
    return L


class Outcome:
    """Summary of a run_lines() script."""
    __slots__ = ("cls", "out", "rec", "recs", "stage")

    def __init__(self, recs, manifest=True):
        self.recs = recs
        self.out = None
        self.rec = None
        self.stage = None
        self.cls = "value"
        # first non-OK record decides
        for r in recs:
            if r.status == "OK":
                continue
            if r.status == "SKIP":
                continue
            self.rec = r
            if r.status == "ERR":
                self.cls = r.get("fam", "err")
            elif r.status == "PANIC":
                self.cls = "panic"
            else:
                self.cls = "herr"
            break
        if self.cls == "value":
            last = recs[-1]
            self.rec = last
            if "out" in last:
                self.out = unhx(last["out"]).decode("utf-8")

    def describe(self):
        if self.cls == "value":
            return {"class": "value", "out": (self.out or "")[:300]}
        r = self.rec
        d = {"class": self.cls, "kind": r.get("kind")}
        if r.status == "PANIC":
            d["panic"] = r.s("msg")
            d["loc"] = r.s("loc")
        elif "dbg" in r:
            d["dbg"] = r.s("dbg")[:300]
        return d


# ------------------------------------------------------------------------------------------------
# walk decoding (the Value API walk emitted by evalsrv)

class Func:
    def __repr__(self):
        return "<function>"


class TooDeep:
    pass


def decode_walk(s):
    import struct
    pos = 0

    def num():
        nonlocal pos
        j = s.index(":", pos)
        n = int(s[pos:j])
        pos = j + 1
        return n

    def val():
        nonlocal pos
        c = s[pos]
        pos += 1
        if c == "z":
            return None
        if c == "t":
            return True
        if c == "f":
            return False
        if c == "F":
            return Func()
        if c == "D":
            return TooDeep()
        if c == "n":
            bits = int(s[pos:pos + 16], 16)
            pos += 16
            return struct.unpack("<d", struct.pack("<Q", bits))[0]
        if c == "s":
            n = num()
            b = bytes.fromhex(s[pos:pos + 2 * n])
            pos += 2 * n
            return b.decode("utf-8")
        if c == "a":
            n = num()
            return [val() for _ in range(n)]
        if c == "o":
            n = num()
            items = []
            for _ in range(n):
                k = val()
                items.append((k, val()))
            return WObj(items)
        raise ValueError("bad walk at %d: %r" % (pos, s[pos - 1:pos + 20]))

    v = val()
    assert pos == len(s)
    return v


class WObj(dict):
    """Object from a walk; keeps field order as delivered."""

    def __init__(self, items):
        super().__init__(items)
        self.order = [k for k, _ in items]
        self.dup = len(self.order) != len(self)


# ------------------------------------------------------------------------------------------------
# parallel execution: each worker process owns its servers

def _worker_entry(args):
    fn, shard = args
    try:
        return ("ok", fn(shard))
    except Broken as e:
        return ("broken", str(e))
    except Exception:
        return ("exc", traceback.format_exc())


def pmap(fn, shards, nproc=None):
    """Runs fn(shard) for each shard in worker processes; returns results in order.
    fn must be a module-level function."""
    nproc = nproc or NPROC
    if nproc == 1 or len(shards) == 1:
        res = [_worker_entry((fn, s)) for s in shards]
    else:
        ctx = multiprocessing.get_context("fork")
        with ctx.Pool(min(nproc, len(shards))) as pool:
            res = pool.map(_worker_entry, [(fn, s) for s in shards], chunksize=1)
    out = []
    for kind, val in res:
        if kind == "ok":
            out.append(val)
        elif kind == "broken":
            raise Broken(val)
        else:
            raise Broken("worker exception:\n" + val)
    return out


# ------------------------------------------------------------------------------------------------
# verdicts, evidence, known findings

def load_known_findings():
    p = os.path.join(VERIF, "known_findings.json")
    if not os.path.exists(p):
        return []
    with open(p) as f:
        return json.load(f)["findings"]


def sig_matches(entry_sig, sig):
    """All fields of the entry's signature must be present and equal (regex for keys ending _re)."""
    for k, v in entry_sig.items():
        if k.endswith("_re"):
            base = k[:-3]
            if base not in sig or re.search(v, str(sig[base])) is None:
                return False
        elif k.endswith("_ge"):
            base = k[:-3]
            if base not in sig or not (sig[base] >= v):
                return False
        else:
            if sig.get(k) != v:
                return False
    return True


def h64(*parts):
    h = hashlib.blake2b(digest_size=8)
    for p in parts:
        if isinstance(p, str):
            p = p.encode("utf-8", "surrogatepass")
        h.update(p)
        h.update(b"\0")
    return int.from_bytes(h.digest(), "little")


class Agg:
    """Per-shard aggregate that can be merged."""

    def __init__(self):
        self.evaluations = 0
        self.nontrivial = set()
        self.counters = {}
        self.sets = {}
        self.samples = []
        self.violations = []   # dicts: {sig:{...}, detail:{...}, replay:{...}}
        self.inconclusive = {}

    def count(self, key, n=1):
        self.counters[key] = self.counters.get(key, 0) + n

    def add(self, name, item):
        self.sets.setdefault(name, set()).add(item)

    def inconc(self, cause, n=1):
        self.inconclusive[cause] = self.inconclusive.get(cause, 0) + n

    def sample(self, s, cap=8):
        if len(self.samples) < cap:
            self.samples.append(s)

    def violation(self, sig, detail, replay=None, cap=40):
        if len(self.violations) < cap:
            self.violations.append({"sig": sig, "detail": detail, "replay": replay})
        self.count("violations_seen")

    def merge(self, other):
        self.evaluations += other.evaluations
        self.nontrivial |= other.nontrivial
        for k, v in other.counters.items():
            self.counters[k] = self.counters.get(k, 0) + v
        for k, v in other.sets.items():
            self.sets.setdefault(k, set()).update(v)
        for k, v in other.inconclusive.items():
            self.inconclusive[k] = self.inconclusive.get(k, 0) + v
        for s in other.samples:
            if len(self.samples) < 400:
                self.samples.append(s)
        self.violations.extend(other.violations)
        return self


def jsonable(x):
    if isinstance(x, (str, int, bool)) or x is None:
        return x
    if isinstance(x, float):
        return x if x == x and abs(x) != float("inf") else repr(x)
    if isinstance(x, bytes):
        return x.decode("utf-8", "replace")
    if isinstance(x, dict):
        return {str(k): jsonable(v) for k, v in x.items()}
    if isinstance(x, (list, tuple, set, frozenset)):
        return [jsonable(v) for v in x]
    return repr(x)


def finish(prop, tier, seed, agg, rule, t0, level="exploration", assumptions=(), extra=None,
           min_nontrivial=2, max_inconclusive_share=0.05, exhaustive=None):
    """Writes evidence, prints verdict lines, returns the exit status."""
    os.makedirs(EVIDENCE_DIR, exist_ok=True)
    known = [k for k in load_known_findings() if k.get("property") == prop and k.get("status") == "open"]
    unlisted = []
    listed = {}
    for v in agg.violations:
        hit = None
        for k in known:
            if sig_matches(k["signature"], v["sig"]):
                hit = k
                break
        if hit is not None:
            listed.setdefault(hit["key"], (hit, []))[1].append(v)
        else:
            unlisted.append(v)
    for key, (k, vs) in listed.items():
        print(f"KNOWN-FINDING: property={prop} {k['text']} [{key}; witnessed {len(vs)}x this run]")
    # deduplicate unlisted by signature
    seen = set()
    status = 0
    nviol = 0
    for v in unlisted:
        sk = json.dumps(jsonable(v["sig"]), sort_keys=True)
        if sk in seen:
            continue
        seen.add(sk)
        nviol += 1
        os.makedirs(REPLAY_DIR, exist_ok=True)
        name = "%s-%016x.json" % (prop, h64(sk, json.dumps(jsonable(v["detail"]), sort_keys=True)))
        path = os.path.join(REPLAY_DIR, name)
        with open(path, "w") as f:
            json.dump(jsonable({"property": prop, "seed": seed, "tier": tier, "signature": v["sig"],
                                "detail": v["detail"], "replay": v["replay"]}), f, indent=1)
        print(f"VIOLATION property={prop} replay={path}")
        d = json.dumps(jsonable(v["detail"]))
        print("  signature:", sk[:600])
        print("  detail:", d[:1200])
        status = 1
    inconc_total = sum(agg.inconclusive.values())
    # pick samples of as many different shapes (legs) as possible
    by_shape = {}
    for smp in agg.samples:
        shape = tuple(sorted(smp.keys())) + (smp.get("leg"), smp.get("family")) if isinstance(smp, dict) else ("?",)
        by_shape.setdefault(shape, []).append(smp)
    picked = []
    while len(picked) < 12 and any(by_shape.values()):
        for shape in list(by_shape):
            if by_shape[shape] and len(picked) < 12:
                picked.append(by_shape[shape].pop(0))
    agg.samples = picked
    coverage = {
        "evaluations": agg.evaluations,
        "distinct_nontrivial": len(agg.nontrivial),
        "rule": rule,
        "samples": jsonable(agg.samples[:12]),
        "counters": jsonable(dict(sorted(agg.counters.items()))),
        "distinct_sets": {k: len(v) for k, v in sorted(agg.sets.items())},
        "set_members": {k: sorted(map(str, v))[:80] for k, v in sorted(agg.sets.items()) if len(v) <= 400},
        "inconclusive": agg.inconclusive,
        "known_findings_witnessed": {k: len(vs) for k, (_, vs) in listed.items()},
    }
    if exhaustive is not None:
        coverage["exhaustive"] = exhaustive
    if extra:
        coverage.update(jsonable(extra))
    ev = {
        "property_id": prop, "tier": tier, "seed": seed, "level": level,
        "coverage": coverage, "assumptions": list(assumptions),
        "wall_s": round(time.time() - t0, 2), "violations": nviol,
    }
    with open(os.path.join(EVIDENCE_DIR, prop + ".json"), "w") as f:
        json.dump(ev, f, indent=1, sort_keys=True)
    print(f"[{prop}] tier={tier} seed={seed} evaluations={agg.evaluations} "
          f"distinct_nontrivial={len(agg.nontrivial)} inconclusive={inconc_total} "
          f"violations={nviol} known={len(listed)} wall={ev['wall_s']}s")
    if status == 0:
        if agg.evaluations == 0 or len(agg.nontrivial) < min_nontrivial:
            print(f"[{prop}] BROKEN: observed too little (nontrivial={len(agg.nontrivial)})")
            return 2
        if inconc_total > max_inconclusive_share * max(1, agg.evaluations):
            print(f"[{prop}] BROKEN: inconclusive share too high: {agg.inconclusive}")
            return 2
    return status


# ------------------------------------------------------------------------------------------------
# Jsonnet source helpers

def jstr(s):
    """A Jsonnet double-quoted literal for the Python string s (no surrogates)."""
    out = ['"']
    for ch in s:
        o = ord(ch)
        if ch == '"':
            out.append('\\"')
        elif ch == "\\":
            out.append("\\\\")
        elif ch == "\n":
            out.append("\\n")
        elif ch == "\r":
            out.append("\\r")
        elif ch == "\t":
            out.append("\\t")
        elif o < 0x20 or o == 0x7F:
            out.append("\\u%04x" % o)
        else:
            out.append(ch)
    out.append('"')
    return "".join(out)


def jstr_esc(s):
    """Like jstr but every non-ASCII character as \\uXXXX escapes (surrogate pairs for astral)."""
    out = ['"']
    for ch in s:
        o = ord(ch)
        if ch == '"':
            out.append('\\"')
        elif ch == "\\":
            out.append("\\\\")
        elif 0x20 <= o < 0x7F:
            out.append(ch)
        elif o < 0x10000:
            out.append("\\u%04x" % o)
        else:
            o -= 0x10000
            out.append("\\u%04x\\u%04x" % (0xD800 + (o >> 10), 0xDC00 + (o & 0x3FF)))
    out.append('"')
    return "".join(out)


def jnum(x):
    """Jsonnet source for the double x (exact: repr round-trips; negative via unary minus)."""
    import math
    if x == 0:
        return "-0" if math.copysign(1, x) < 0 else "0"
    r = repr(float(x))
    if r.startswith("-"):
        return "(" + r + ")"
    return r


def jval(v):
    """Jsonnet source for a JSON-like Python value (dict/list/str/float/int/bool/None)."""
    if v is None:
        return "null"
    if v is True:
        return "true"
    if v is False:
        return "false"
    if isinstance(v, (int, float)):
        return jnum(float(v))
    if isinstance(v, str):
        return jstr(v)
    if isinstance(v, list):
        return "[" + ", ".join(jval(x) for x in v) + "]"
    if isinstance(v, dict):
        return "{" + ", ".join("%s: %s" % (jstr(k), jval(x)) for k, x in v.items()) + "}"
    raise TypeError(type(v))


# hostile alphabets and boundary doubles --------------------------------------------------------

C0 = [chr(i) for i in range(32)]
HOSTILE_CHARS = C0 + ["\x7f", "\x80", "\x85", "\x9f", "\xa0", '"', "\\", "/", "'", " ", "a", "Z", "0",
                      "\u00e9", "\u00df", "\u2028", "\u2029", "\ud7ff", "\ue000", "\ufffd", "\ufffe", "\uffff",
                      "\U00010000", "\U0001f600", "\U0010ffff", "e\u0301", "\u0301", "\u20ac", "\U0001d11e",
                      "#", ":", "-", "?", "[", "]", "{", "}", ",", "&", "*", "!", "|", ">", "%", "@", "`", "=",
                      "~", "$", "<", "\ufeff"]

BOUNDARY_DOUBLES = [
    0.0, -0.0, 5e-324, -5e-324, 1e-323, 2.2250738585072014e-308, 2.225073858507201e-308,
    2.2250738585072019e-308, 1.0, -1.0, 1.0000000000000002, 0.9999999999999999, 0.5, 0.1, 0.2, 0.3,
    1 / 3, 2.5, 3.5, 0.125, 1e-7, 9.999999999999999e-8, 1e-6, 1e-5, 123456789.0, 1e15, 1e16, 1e17,
    1e20, 1e21, 9.999999999999999e20, 1e22, 1e23, 9007199254740991.0, 9007199254740992.0,
    9007199254740993.0, 9007199254740994.0, -9007199254740991.0, -9007199254740992.0,
    4294967295.0, 4294967296.0, 2147483647.0, 2147483648.0, -2147483648.0, -2147483649.0,
    1.7976931348623157e308, -1.7976931348623157e308, 8.98846567431158e307, 1e308, 1e-308, 1e300,
    1e-300, 3.141592653589793, 2.718281828459045, 255.0, 256.0, 65535.0, 65536.0, 1e100, 1.5, -1.5,
    -0.5, 2.0, 3.0, 10.0, 100.0, 1000.0, 0.30000000000000004, 4.35, 0.000001, 1e-10, 7.0, -7.0,
    1.7976931348623155e308, 4.9406564584124654e-324, 6.02214076e23, 1.2345678901234567e-5,
]


def rand_double(rng):
    import struct
    k = rng.random()
    if k < 0.3:
        return rng.choice(BOUNDARY_DOUBLES)
    if k < 0.5:
        return float(rng.randint(-1000, 1000))
    if k < 0.6:
        return rng.randint(-1000, 1000) / rng.choice([2, 4, 8, 10, 100, 3, 7])
    if k < 0.7:
        return float(rng.randint(-2 ** 53, 2 ** 53))
    while True:
        bits = rng.getrandbits(64)
        x = struct.unpack("<d", struct.pack("<Q", bits))[0]
        if x == x and abs(x) != float("inf"):
            return x


def rand_string(rng, maxlen=8, alphabet=None):
    alphabet = alphabet or HOSTILE_CHARS
    k = rng.random()
    if k < 0.1:
        return ""
    n = rng.randint(1, maxlen)
    if k < 0.5:
        return "".join(rng.choice("abcXYZ019 _-") for _ in range(n))
    return "".join(rng.choice(alphabet) for _ in range(n))


def rand_value(rng, depth=0, maxdepth=4, strings=None):
    """A JSON-representable value with hostile content."""
    k = rng.random()
    if depth >= maxdepth:
        k *= 0.6
    if k < 0.08:
        return None
    if k < 0.16:
        return rng.random() < 0.5
    if k < 0.36:
        return rand_double(rng)
    if k < 0.6:
        return (strings or rand_string)(rng)
    if k < 0.8:
        n = rng.choice([0, 0, 1, 1, 2, 3, 5])
        return [rand_value(rng, depth + 1, maxdepth, strings) for _ in range(n)]
    n = rng.choice([0, 0, 1, 1, 2, 3, 5])
    d = {}
    for _ in range(n):
        d[(strings or rand_string)(rng)] = rand_value(rng, depth + 1, maxdepth, strings)
    return d


def same_value(a, b, strict_zero=True):
    """Structural equality with doubles compared bitwise (or numerically if not strict_zero)."""
    import math
    if isinstance(a, bool) or isinstance(b, bool) or a is None or b is None:
        return type(a) is type(b) and a == b
    if isinstance(a, (int, float)) and isinstance(b, (int, float)):
        a = float(a)
        b = float(b)
        if a != b:
            return False
        if strict_zero and a == 0 and math.copysign(1, a) != math.copysign(1, b):
            return False
        return True
    if isinstance(a, str) and isinstance(b, str):
        return a == b
    if isinstance(a, list) and isinstance(b, list):
        return len(a) == len(b) and all(same_value(x, y, strict_zero) for x, y in zip(a, b))
    if isinstance(a, dict) and isinstance(b, dict):
        if set(a.keys()) != set(b.keys()):
            return False
        return all(same_value(a[k], b[k], strict_zero) for k in a)
    return False


def tier_seed(argv_tier=None):
    tier = argv_tier or os.environ.get("VERIF_TIER") or "quick"
    seed = int(os.environ.get("VERIF_SEED", "0") or 0)
    return tier, seed


# ------------------------------------------------------------------------------------------------
# one-shot evaluation helper used by the oracle checks

class Res:
    __slots__ = ("cls", "value", "out", "kind", "msg", "rec", "lines", "trace")

    def __init__(self):
        self.cls = None      # value | error | panic | crash | inconclusive
        self.value = None    # decoded walk (Python value) when requested
        self.out = None      # manifested text
        self.kind = None     # error variant / family
        self.msg = None
        self.rec = None
        self.lines = None
        self.trace = None

    def brief(self):
        if self.cls == "value":
            return {"class": "value", "out": (self.out or "")[:200]}
        return {"class": self.cls, "kind": self.kind, "msg": (self.msg or "")[:200]}


class Ev:
    """Owns one server; evaluates sources and classifies outcomes."""

    def __init__(self, agg):
        self.agg = agg
        self.srv = Server()

    def close(self):
        self.srv.close()

    def run(self, src, walk=1, multiline=0, timeout=30.0, **kw):
        lines = run_lines(src, walk=walk, multiline=multiline, **kw)
        return self.run_lines(lines, timeout)

    def run_lines(self, lines, timeout=30.0):
        r = Res()
        r.lines = lines
        self.agg.evaluations += 1
        try:
            recs = self.srv.request(lines, timeout=timeout)
        except Crashed as e:
            if e.kind in ("timeout", "oom"):
                r.cls = "inconclusive"
                r.kind = e.kind
                self.agg.inconc(e.kind)
            else:
                r.cls = "crash"
                r.kind = "crash"
                r.msg = e.detail[-400:]
            return r
        o = Outcome(recs)
        r.rec = o.rec
        tr = []
        for rec in recs:
            t = rec.get("trace")
            if t and t != "-":
                tr.extend(unhx_list(t))
        r.trace = tr
        if o.cls == "value":
            r.cls = "value"
            r.out = o.out
            for rec in recs:
                if "walk" in rec:
                    r.value = decode_walk(rec["walk"])
                    if rec.get("nonfinite") == "1":
                        r.kind = "nonfinite"
        elif o.cls == "panic":
            r.cls = "panic"
            r.kind = "panic"
            r.msg = (o.rec.s("msg") or "") + " @ " + (o.rec.s("loc") or "")
        elif o.cls == "herr":
            raise Broken("harness error: " + (o.rec.s("msg") or o.rec.raw[:200]))
        else:
            r.cls = "error"
            r.kind = o.rec.get("kind")
            r.msg = o.rec.s("msg")
        return r


def panic_signature(r, extra=None):
    msg = (r.msg or "")
    msg = msg.split(" of `")[0].split("; it is inside")[0]
    sig = {"kind": r.cls, "msg": re.sub(r"[0-9]+", "N", msg)[:140]}
    if extra:
        sig.update(extra)
    return sig


def f2bits(x):
    import struct
    return struct.unpack("<Q", struct.pack("<d", float(x)))[0]


def bits2f(b):
    import struct
    return struct.unpack("<d", struct.pack("<Q", b))[0]

"""Reference interpreter for core Jsonnet, written from the specification's semantics
(jsonnet.org/ref/spec.html), NOT from rsjsonnet's code.  It works on the generator's syntax trees
(driver/genast.py forms), is deliberately naive (recursive, dict environments, explicit thunks) and total only
over the generator's fragment.  See DESIGN.md Appendix B/G for the rules."""
import math
import sys

sys.setrecursionlimit(30000)


class RErr(Exception):
    """A Jsonnet-level failure.  kind: 'error' (explicit), 'assert', 'runtime'."""

    def __init__(self, kind, msg=None):
        super().__init__(kind, msg)
        self.kind = kind
        self.msg = msg


class Unmodelled(Exception):
    """The program left the fragment on which the model and the conventions coincide (e.g. printing a
    number whose decimal rendering differs between languages)."""


class Thunk:
    __slots__ = ("expr", "env", "val", "state", "fn")

    def __init__(self, expr=None, env=None, fn=None, val=None, done=False):
        self.expr = expr
        self.env = env
        self.fn = fn
        self.val = val
        self.state = 2 if done else 0

    def force(self):
        if self.state == 2:
            return self.val
        if self.state == 1:
            raise RErr("runtime", "infinite recursion")
        self.state = 1
        try:
            v = self.fn() if self.fn else ev(self.expr, self.env)
        except BaseException:
            self.state = 0
            raise
        self.val = v
        self.state = 2
        return v


def done(v):
    return Thunk(val=v, done=True)


class Func:
    def __init__(self, params, body, env):
        self.params = params      # [(name, default_expr|None)]
        self.body = body
        self.env = env


class Builtin:
    def __init__(self, name, params, fn):
        self.name = name
        self.params = [(p, None) for p in params]
        self.fn = fn


class Layer:
    def __init__(self, fields, locals_, asserts, env, is_top):
        # fields: name -> (plus, vis, value_expr, extra_env|None)   vis in 1,2,3
        self.fields = fields
        self.locals = locals_     # [bind]
        self.asserts = asserts    # [(cond, msg|None)]
        self.env = env
        self.is_top = is_top
        self.removed = set()      # names removed by objectRemoveKey at this layer boundary


class Obj:
    def __init__(self, layers):
        self.layers = layers      # index 0 = leftmost (deepest super)
        self.cache = {}
        self.envs = {}
        self.asserts_ok = False

    def layer_env(self, i, extra=None):
        key = (i, id(extra) if extra is not None else None)
        if key in self.envs:
            return self.envs[key]
        L = self.layers[i]
        base = extra if extra is not None else L.env
        env = dict(base)
        env["$self"] = self
        env["$super"] = i
        env["$dollar"] = self if L.is_top else base.get("$dollar")
        for b in L.locals:
            bind_into(env, b)
        self.envs[key] = env
        return env

    def find(self, name, below):
        for i in range(below - 1, -1, -1):
            L = self.layers[i]
            if name in L.removed:
                return None
            if name in L.fields:
                return i
        return None

    def field_thunk(self, name, below=None):
        if below is None:
            below = len(self.layers)
        i = self.find(name, below)
        if i is None:
            return None
        key = (i, name)
        if key not in self.cache:
            plus, vis, vexpr, extra = self.layers[i].fields[name]
            env = self.layer_env(i, extra)
            if vexpr[0] == "$thunk":
                self.cache[key] = vexpr[1]
            elif plus:
                def mk(i=i, name=name, vexpr=vexpr, env=env):
                    sup = self.field_thunk(name, i)
                    if sup is None:
                        return ev(vexpr, env)
                    a = sup.force()
                    b = ev(vexpr, env)
                    return binop("+", a, b)
                self.cache[key] = Thunk(fn=mk)
            else:
                self.cache[key] = Thunk(vexpr, env)
        return self.cache[key]

    def visibility(self):
        vis = {}
        for L in self.layers:
            for n in L.removed:
                vis.pop(n, None)
            for n, (plus, v, _, _) in L.fields.items():
                if v == 2:
                    vis[n] = False
                elif v == 3:
                    vis[n] = True
                elif n not in vis:
                    vis[n] = True
        return vis

    def all_fields(self):
        return sorted(self.visibility().keys())

    def visible_fields(self):
        return sorted(n for n, v in self.visibility().items() if v)

    def check_asserts(self):
        if self.asserts_ok:
            return
        self.asserts_ok = True
        try:
            for i, L in enumerate(self.layers):
                for (c, m) in L.asserts:
                    env = self.layer_env(i)
                    cv = ev(c, env)
                    if cv is not True:
                        if not isinstance(cv, bool):
                            raise RErr("runtime", "assert condition is not a boolean")
                        if m is None:
                            raise RErr("assert", None)
                        raise RErr("assert", tostr(ev(m, env)))
        except BaseException:
            self.asserts_ok = False
            raise

    def get(self, name, below=None):
        t = self.field_thunk(name, below)
        if t is None:
            raise RErr("runtime", "unknown field " + name)
        if below is None:
            self.check_asserts()
        return t.force()


def bind_into(env, b):
    """('bind', name, params|None, e): the binding sees env itself (recursive scope)."""
    _, name, params, e = b
    if params is None:
        env[name] = Thunk(e, env)
    else:
        env[name] = Thunk(("func", params, e), env)


# ------------------------------------------------------------------------------------------------
# printing of values (string coercion / toString / manifestation)

def numstr(x):
    if x == int(x) and abs(x) < 1e15:
        if x == 0 and math.copysign(1, x) < 0:
            return "-0"
        return str(int(x))
    if x == int(x) or abs(x) < 1e-4 or abs(x) >= 1e15:
        raise Unmodelled("number rendering convention")
    r = repr(x)
    if "e" in r or "E" in r:
        raise Unmodelled("number rendering convention")
    return r


def jstr(s):
    out = ['"']
    for ch in s:
        o = ord(ch)
        if ch == '"':
            out.append('\\"')
        elif ch == "\\":
            out.append("\\\\")
        elif ch == "\n":
            out.append("\\n")
        elif ch == "\t":
            out.append("\\t")
        elif ch == "\r":
            out.append("\\r")
        elif ch == "\b":
            out.append("\\b")
        elif ch == "\f":
            out.append("\\f")
        elif o < 0x20 or 0x7F <= o <= 0x9F:
            out.append("\\u%04x" % o)
        else:
            out.append(ch)
    out.append('"')
    return "".join(out)


def manifest_text(v):
    if v is None:
        return "null"
    if v is True:
        return "true"
    if v is False:
        return "false"
    if isinstance(v, float):
        return numstr(v)
    if isinstance(v, str):
        return jstr(v)
    if isinstance(v, list):
        if not v:
            return "[ ]"
        return "[" + ", ".join(manifest_text(t.force()) for t in v) + "]"
    if isinstance(v, Obj):
        v.check_asserts()
        fs = v.visible_fields()
        if not fs:
            return "{ }"
        return "{" + ", ".join(jstr(n) + ": " + manifest_text(v.get(n)) for n in fs) + "}"
    raise RErr("runtime", "cannot manifest a function")


def tostr(v):
    return v if isinstance(v, str) else manifest_text(v)


def to_python(v, depth=0):
    """Deep manifestation to a JSON-like Python value (dict/list/str/float/bool/None)."""
    if depth > 400:
        raise Unmodelled("too deep")
    if v is None or isinstance(v, (bool, float, str)):
        return v
    if isinstance(v, list):
        return [to_python(t.force(), depth + 1) for t in v]
    if isinstance(v, Obj):
        v.check_asserts()
        return {n: to_python(v.get(n), depth + 1) for n in v.visible_fields()}
    raise RErr("runtime", "cannot manifest a function")


def typeof(v):
    if v is None:
        return "null"
    if isinstance(v, bool):
        return "boolean"
    if isinstance(v, float):
        return "number"
    if isinstance(v, str):
        return "string"
    if isinstance(v, list):
        return "array"
    if isinstance(v, Obj):
        return "object"
    return "function"


# ------------------------------------------------------------------------------------------------
# operators

def equals(a, b):
    ta, tb = typeof(a), typeof(b)
    if ta != tb:
        return False
    if ta == "function":
        raise RErr("runtime", "cannot compare functions")
    if ta == "array":
        if len(a) != len(b):
            return False
        for x, y in zip(a, b):
            if not equals(x.force(), y.force()):
                return False
        return True
    if ta == "object":
        fa, fb = a.visible_fields(), b.visible_fields()
        if fa != fb:
            return False
        # (object asserts run on field access, so objects without visible fields are never checked here)
        for n in fa:
            if not equals(a.get(n), b.get(n)):
                return False
        return True
    return a == b


def compare(a, b):
    ta, tb = typeof(a), typeof(b)
    if ta != tb or ta in ("null", "boolean", "object", "function"):
        raise RErr("runtime", "values cannot be ordered")
    if ta == "number":
        return (a > b) - (a < b)
    if ta == "string":
        ka, kb = [ord(c) for c in a], [ord(c) for c in b]
        return (ka > kb) - (ka < kb)
    for x, y in zip(a, b):
        c = compare(x.force(), y.force())
        if c:
            return c
    return (len(a) > len(b)) - (len(a) < len(b))


def chknum(r):
    if not math.isfinite(r):
        raise RErr("runtime", "numeric overflow")
    return r


def toint(x):
    if abs(x) > 2 ** 53 - 1:
        raise RErr("runtime", "not a safe integer")
    return int(x)


def binop(op, a, b):
    ta, tb = typeof(a), typeof(b)
    if op == "+":
        if ta == "number" and tb == "number":
            return chknum(a + b)
        if ta == "string" and tb == "string":
            return a + b
        if ta == "string":
            return a + tostr(b)
        if tb == "string":
            return tostr(a) + b
        if ta == "array" and tb == "array":
            return a + b
        if ta == "object" and tb == "object":
            return Obj(a.layers + b.layers)
        raise RErr("runtime", "invalid operand types for +")
    if op in ("-", "*", "/", "%"):
        if op == "%" and ta == "string":
            raise Unmodelled("string formatting")
        if ta != "number" or tb != "number":
            raise RErr("runtime", "invalid operand types for arithmetic")
        if op == "-":
            return chknum(a - b)
        if op == "*":
            return chknum(a * b)
        if b == 0:
            raise RErr("runtime", "division by zero")
        if op == "/":
            return chknum(a / b)
        return chknum(math.fmod(a, b))
    if op in ("<", "<=", ">", ">="):
        c = compare(a, b)
        return {"<": c < 0, "<=": c <= 0, ">": c > 0, ">=": c >= 0}[op]
    if op == "==":
        return equals(a, b)
    if op == "!=":
        return not equals(a, b)
    if op in ("&", "|", "^", "<<", ">>"):
        if ta != "number" or tb != "number":
            raise RErr("runtime", "invalid operand types for bitwise operator")
        ia = toint(a)
        if op in ("<<", ">>"):
            if b < 0:
                raise RErr("runtime", "shift by negative")
            ib = toint(b) & 63
            if op == "<<":
                r = ((ia << ib) + 2 ** 63) % 2 ** 64 - 2 ** 63
                if (r >> ib) != ia or abs(r) > 2 ** 53 - 1:
                    raise Unmodelled("shift overflow convention")
                return float(r)
            return float(ia >> ib)
        ib = toint(b)
        return float({"&": ia & ib, "|": ia | ib, "^": ia ^ ib}[op])
    if op == "in":
        if ta != "string" or tb != "object":
            raise RErr("runtime", "invalid operand types for in")
        return a in b.visibility()
    raise Unmodelled("operator " + op)


def call(f, pos, named):
    if not isinstance(f, (Func, Builtin)):
        raise RErr("runtime", "callee is not a function")
    params = f.params
    if len(pos) > len(params):
        raise RErr("runtime", "too many arguments")
    bound = {}
    for (p, _), a in zip(params, pos):
        bound[p] = a
    names = [p for p, _ in params]
    for n, a in named:
        if n not in names:
            raise RErr("runtime", "unknown parameter")
        if n in bound:
            raise RErr("runtime", "parameter bound twice")
        bound[n] = a
    if isinstance(f, Builtin):
        for p, _ in params:
            if p not in bound:
                raise RErr("runtime", "parameter not bound")
        return f.fn(*[bound[p] for p, _ in params])
    env = dict(f.env)
    for p, d in params:
        if p in bound:
            env[p] = bound[p]
        elif d is None:
            raise RErr("runtime", "parameter not bound")
        else:
            env[p] = Thunk(d, env)
    return ev(f.body, env)


def int_index(x, what):
    if typeof(x) != "number":
        raise RErr("runtime", what + " is not a number")
    if x != int(x):
        raise RErr("runtime", what + " is not an integer")
    return int(x)


def do_slice(v, a, b, c):
    if typeof(v) not in ("string", "array"):
        raise RErr("runtime", "cannot slice this type")
    a = None if a is None else int_index(a, "slice start")
    b = None if b is None else int_index(b, "slice end")
    c = None if c is None else int_index(c, "slice step")
    if c is not None and c < 1:
        raise RErr("runtime", "slice step must be >= 1")
    return v[slice(a, b, c)]


# ------------------------------------------------------------------------------------------------
# evaluation

def ev(e, env):
    k = e[0]
    if k == "null":
        return None
    if k == "true":
        return True
    if k == "false":
        return False
    if k == "num":
        return float(e[1].replace("_", ""))
    if k == "str":
        return e[1]
    if k == "paren":
        return ev(e[1], env)
    if k == "arr":
        return [Thunk(x, env) for x in e[1]]
    if k == "var":
        return env[e[1]].force()
    if k == "self":
        return env["$self"]
    if k == "dollar":
        return env["$dollar"]
    if k == "local":
        env2 = dict(env)
        for b in e[1]:
            bind_into(env2, b)
        return ev(e[2], env2)
    if k == "func":
        return Func([(p[1], p[2]) for p in e[1]], e[2], env)
    if k == "if":
        c = ev(e[1], env)
        if not isinstance(c, bool):
            raise RErr("runtime", "condition is not a boolean")
        if c:
            return ev(e[2], env)
        return ev(e[3], env) if e[3] is not None else None
    if k == "error":
        raise RErr("error", tostr(ev(e[1], env)))
    if k == "assert":
        c = ev(e[1], env)
        if not isinstance(c, bool):
            raise RErr("runtime", "condition is not a boolean")
        if not c:
            raise RErr("assert", None if e[2] is None else tostr(ev(e[2], env)))
        return ev(e[3], env)
    if k == "un":
        v = ev(e[2], env)
        op = e[1]
        if op == "!":
            if not isinstance(v, bool):
                raise RErr("runtime", "invalid operand type for !")
            return not v
        if typeof(v) != "number":
            raise RErr("runtime", "invalid operand type for unary operator")
        if op == "-":
            return -v
        if op == "+":
            return v
        return float(~toint(v))
    if k == "bin":
        op = e[1]
        if op == "&&":
            a = ev(e[2], env)
            if a is False:
                return False
            if a is not True:
                raise RErr("runtime", "invalid operand type for &&")
            b = ev(e[3], env)
            if not isinstance(b, bool):
                raise RErr("runtime", "invalid operand type for &&")
            return b
        if op == "||":
            a = ev(e[2], env)
            if a is True:
                return True
            if a is not False:
                raise RErr("runtime", "invalid operand type for ||")
            b = ev(e[3], env)
            if not isinstance(b, bool):
                raise RErr("runtime", "invalid operand type for ||")
            return b
        a = ev(e[2], env)
        b = ev(e[3], env)
        return binop(op, a, b)
    if k == "obj":
        return make_obj(e[1], env)
    if k == "objcomp":
        return make_objcomp(e, env)
    if k == "objext":
        a = ev(e[1], env)
        b = ev(e[2], env)
        return binop("+", a, b)
    if k == "arrcomp":
        return [Thunk(e[1], env2) for env2 in comp_envs(e[2], env)]
    if k == "dot":
        o = ev(e[1], env)
        if not isinstance(o, Obj):
            raise RErr("runtime", "field access on a non-object")
        return o.get(e[2])
    if k == "index":
        o = ev(e[1], env)
        i = ev(e[2], env)
        if isinstance(o, Obj):
            if not isinstance(i, str):
                raise RErr("runtime", "object index is not a string")
            return o.get(i)
        if isinstance(o, (list, str)):
            if typeof(i) != "number":
                raise RErr("runtime", "index is not a number")
            if i != int(i) or i < 0:
                raise RErr("runtime", "invalid index")
            if i >= len(o):
                raise RErr("runtime", "index out of range")
            return o[int(i)].force() if isinstance(o, list) else o[int(i)]
        raise RErr("runtime", "value cannot be indexed")
    if k == "slice":
        v = ev(e[1], env)
        a = ev(e[2], env) if e[2] is not None else None
        b = ev(e[3], env) if e[3] is not None else None
        c = ev(e[4], env) if e[4] is not None else None
        return do_slice(v, a, b, c)
    if k in ("superdot", "superidx"):
        o = env["$self"]
        i = env["$super"]
        if k == "superidx":
            name = ev(e[1], env)
            if not isinstance(name, str):
                raise RErr("runtime", "super index is not a string")
        else:
            name = e[1]
        if i == 0:
            raise RErr("runtime", "super used without a super object")
        return o.get(name, below=i)
    if k == "insuper":
        a = ev(e[1], env)
        if not isinstance(a, str):
            raise RErr("runtime", "left operand of in is not a string")
        o = env["$self"]
        i = env["$super"]
        return o.find(a, i) is not None
    if k == "call":
        f = ev(e[1], env)
        pos = [Thunk(a[1], env) for a in e[2] if a[0] == "pos"]
        named = [(a[1], Thunk(a[2], env)) for a in e[2] if a[0] == "named"]
        return call(f, pos, named)
    raise Unmodelled("node " + k)


def comp_envs(specs, env):
    envs = [env]
    for s in specs:
        if s[0] == "sfor":
            new = []
            for en in envs:
                arr = ev(s[2], en)
                if not isinstance(arr, list):
                    raise RErr("runtime", "for-spec value is not an array")
                for t in arr:
                    e2 = dict(en)
                    e2[s[1]] = t
                    new.append(e2)
            envs = new
        else:
            new = []
            for en in envs:
                c = ev(s[1], en)
                if not isinstance(c, bool):
                    raise RErr("runtime", "if-spec condition is not a boolean")
                if c:
                    new.append(en)
            envs = new
    return envs


def field_name(n, env):
    """('id', s) | ('sname', s, style) | ('ename', e) -> str or None (null name drops the field)."""
    if n[0] in ("id", "sname"):
        return n[1]
    v = ev(n[1], env)
    if v is None:
        return None
    if not isinstance(v, str):
        raise RErr("runtime", "field name is not a string")
    return v


def make_obj(members, env):
    fields = {}
    locals_ = []
    asserts = []
    for m in members:
        if m[0] == "mlocal":
            locals_.append(m[1])
        elif m[0] == "massert":
            asserts.append((m[1], m[2]))
    for m in members:
        if m[0] == "field":
            _, name, plus, vis, val = m
            n = field_name(name, env)
            if n is None:
                continue
            if n in fields:
                raise RErr("runtime", "duplicate field name")
            fields[n] = (plus, vis, val, None)
        elif m[0] == "ffunc":
            _, name, params, vis, body = m
            n = field_name(name, env)
            if n is None:
                continue
            if n in fields:
                raise RErr("runtime", "duplicate field name")
            fields[n] = (False, vis, ("func", params, body), None)
    return Obj([Layer(fields, locals_, asserts, env, env.get("$self") is None)])


def make_objcomp(e, env):
    _, l1, kexpr, plus, vexpr, l2, specs = e
    fields = {}
    for env2 in comp_envs(specs, env):
        n = ev(kexpr, env2)
        if n is None:
            continue
        if not isinstance(n, str):
            raise RErr("runtime", "field name is not a string")
        if n in fields:
            raise RErr("runtime", "duplicate field name")
        fields[n] = (plus, 1, vexpr, env2)
    return Obj([Layer(fields, list(l1) + list(l2), [], env, env.get("$self") is None)])


# ------------------------------------------------------------------------------------------------
# the few std members the checks need

class Runtime:
    """Holds the per-run std object and the trace log."""

    def __init__(self):
        self.trace_log = []
        self.env = self._std_env()

    def _std_env(self):
        rt = self

        def mk(name, params, fn):
            return done(Builtin(name, params, fn))

        def length(x):
            v = x.force()
            if isinstance(v, (str, list)):
                return float(len(v))
            if isinstance(v, Obj):
                return float(len(v.visible_fields()))
            if isinstance(v, (Func, Builtin)):
                return float(len(v.params))
            raise RErr("runtime", "length of this type")

        def fields(o, h):
            v = o.force()
            hh = h.force()
            if not isinstance(v, Obj) or not isinstance(hh, bool):
                raise RErr("runtime", "objectFieldsEx argument types")
            return [done(n) for n in (v.all_fields() if hh else v.visible_fields())]

        def has(o, f, h):
            v = o.force()
            ff = f.force()
            hh = h.force()
            if not isinstance(v, Obj) or not isinstance(ff, str) or not isinstance(hh, bool):
                raise RErr("runtime", "objectHasEx argument types")
            vis = v.visibility()
            return ff in vis and (hh or vis[ff])

        def trace(s, rest):
            m = s.force()
            if not isinstance(m, str):
                raise RErr("runtime", "trace message is not a string")
            rt.trace_log.append(m)
            return rest.force()

        def remove_key(o, k):
            v = o.force()
            kk = k.force()
            if not isinstance(v, Obj) or not isinstance(kk, str):
                raise RErr("runtime", "objectRemoveKey argument types")
            # the result behaves like the object extended by a layer that hides every trace of the field,
            # also from super lookups of later layers
            L = Layer({}, [], [], {}, False)
            L.removed = {kk}
            return Obj(v.layers + [L])

        def make_array(n, f):
            nn = n.force()
            ff = f.force()
            if typeof(nn) != "number" or not isinstance(ff, (Func, Builtin)):
                raise RErr("runtime", "makeArray argument types")
            if nn != int(nn) or nn < 0:
                raise RErr("runtime", "makeArray size")
            if len(ff.params) != 1:
                raise RErr("runtime", "makeArray function arity")
            return [Thunk(fn=(lambda i=i: call(ff, [done(float(i))], []))) for i in range(int(nn))]

        def map_(f, a):
            ff = f.force()
            aa = a.force()
            if not isinstance(ff, (Func, Builtin)) or not isinstance(aa, list):
                raise Unmodelled("std.map over non-arrays")
            return [Thunk(fn=(lambda t=t: call(ff, [t], []))) for t in aa]

        def filter_(f, a):
            ff = f.force()
            aa = a.force()
            if not isinstance(ff, (Func, Builtin)) or not isinstance(aa, list):
                raise RErr("runtime", "filter argument types")
            out = []
            for t in aa:
                c = call(ff, [t], [])
                if not isinstance(c, bool):
                    raise RErr("runtime", "filter function must return a boolean")
                if c:
                    out.append(t)
            return out

        def foldl(f, a, init):
            ff = f.force()
            aa = a.force()
            if not isinstance(ff, (Func, Builtin)) or not isinstance(aa, list):
                raise Unmodelled("foldl over non-arrays")
            acc = init
            for t in aa:
                acc = Thunk(fn=(lambda acc=acc, t=t: call(ff, [acc, t], [])))
                acc.force()
            return acc.force()

        def range_(a, b):
            x, y = a.force(), b.force()
            if typeof(x) != "number" or typeof(y) != "number" or x != int(x) or y != int(y):
                raise RErr("runtime", "range argument types")
            return [done(float(i)) for i in range(int(x), int(y) + 1)]

        def join(sep, arr):
            s = sep.force()
            a = arr.force()
            if not isinstance(a, list):
                raise RErr("runtime", "join second argument")
            items = [t.force() for t in a]
            items = [x for x in items if x is not None]
            if isinstance(s, str):
                if not all(isinstance(x, str) for x in items):
                    raise RErr("runtime", "join of non-strings")
                return s.join(items)
            raise Unmodelled("array join")

        stdo = Obj([Layer({}, [], [], {}, True)])
        L = stdo.layers[0]

        def addf(n, params, fn):
            L.fields[n] = (False, 2, ("$thunk", mk(n, params, fn)), None)
        addf("length", ["x"], length)
        addf("objectFieldsEx", ["obj", "inc_hidden"], fields)
        addf("objectHasEx", ["obj", "f", "inc_hidden"], has)
        addf("objectFields", ["o"], lambda o: fields(o, done(False)))
        addf("objectFieldsAll", ["o"], lambda o: fields(o, done(True)))
        addf("objectHas", ["o", "f"], lambda o, f: has(o, f, done(False)))
        addf("objectHasAll", ["o", "f"], lambda o, f: has(o, f, done(True)))
        addf("type", ["x"], lambda x: typeof(x.force()))
        addf("toString", ["a"], lambda a: tostr(a.force()))
        addf("trace", ["str", "rest"], trace)
        addf("objectRemoveKey", ["obj", "key"], remove_key)
        addf("makeArray", ["sz", "func"], make_array)
        addf("map", ["func", "arr"], map_)
        addf("filter", ["func", "arr"], filter_)
        addf("foldl", ["func", "arr", "init"], foldl)
        addf("range", ["from", "to"], range_)
        addf("join", ["sep", "arr"], join)
        addf("isString", ["v"], lambda v: isinstance(v.force(), str))
        addf("isNumber", ["v"], lambda v: isinstance(v.force(), float))
        addf("isObject", ["v"], lambda v: isinstance(v.force(), Obj))
        addf("isArray", ["v"], lambda v: isinstance(v.force(), list))
        addf("isBoolean", ["v"], lambda v: isinstance(v.force(), bool))
        addf("isFunction", ["v"], lambda v: isinstance(v.force(), (Func, Builtin)))
        return {"std": done(stdo), "$self": None, "$super": 0, "$dollar": None}


def run(ast):
    """-> ('V', python_value, trace_log) | ('E', kind, msg, trace_log) | ('U', reason)"""
    rt = Runtime()
    try:
        v = ev(ast, rt.env)
        return ("V", to_python(v), rt.trace_log)
    except RErr as r:
        return ("E", r.kind, r.msg, rt.trace_log)
    except Unmodelled as u:
        return ("U", str(u))
    except RecursionError:
        return ("U", "python recursion limit")
    except KeyError as k:
        return ("U", "unbound name in the model: %s" % (k,))

"""Documented parameter names of standard-library functions (upstream's std.jsonnet / the stdlib reference), with sample
arguments.  A call that binds every argument by name, in reversed textual order, must give what the positional call gives: the
binding of names to slots is part of each function's interface.  (The table is written from the documentation, not read from
rsjsonnet's registration table - a swapped pair of names there must show up as a difference.)"""

SETS = ("[[1, 0], [3, 1], [5, 2]]", "[[3, 7], [4, 8]]")
TABLE = {
    # comparison / equality (C08)
    "__compare": (["v1", "v2"], [("[1, 2]", "[1, 3]"), ("'a'", "'b'"), ("2", "1"), ("[2]", "[1, 9]")]),
    "__compare_array": (["arr1", "arr2"], [("[1, 2]", "[1, 3]"), ("[2]", "[1, 9]"), ("[]", "[0]")]),
    "__array_less": (["arr1", "arr2"], [("[1, 2]", "[1, 3]"), ("[2]", "[1, 9]")]),
    "__array_greater": (["arr1", "arr2"], [("[1, 2]", "[1, 3]"), ("[2]", "[1, 9]")]),
    "__array_less_or_equal": (["arr1", "arr2"], [("[1, 2]", "[1, 3]"), ("[2]", "[1, 9]")]),
    "__array_greater_or_equal": (["arr1", "arr2"], [("[1, 2]", "[1, 3]"), ("[2]", "[1, 9]")]),
    "equals": (["a", "b"], [("[1, {x: 2}]", "[1, {x: 2}]"), ("1", "'1'")]),
    "assertEqual": (["a", "b"], [("[1]", "[1]")]),
    # sort / set family (C17)
    "sort": (["arr", "keyF"], [("[[2, 0], [1, 1], [2, 2]]", "function(e) e[0]")]),
    "uniq": (["arr", "keyF"], [("[[1, 0], [1, 1], [2, 2]]", "function(e) e[0]")]),
    "set": (["arr", "keyF"], [("[[2, 0], [1, 1], [2, 2]]", "function(e) e[0]")]),
    "setUnion": (["a", "b", "keyF"], [SETS + ("function(e) e[0]",)]),
    "setInter": (["a", "b", "keyF"], [SETS + ("function(e) e[0]",)]),
    "setDiff": (["a", "b", "keyF"], [SETS + ("function(e) e[0]",)]),
    "setMember": (["x", "arr", "keyF"], [("[3, 9]", SETS[0], "function(e) e[0]")]),
    "minArray": (["arr", "keyF", "onEmpty"], [("[[2, 0], [1, 1]]", "function(e) e[0]", "'empty'"), ("[]", "function(e) e", "'empty'")]),
    "maxArray": (["arr", "keyF", "onEmpty"], [("[[2, 0], [1, 1]]", "function(e) e[0]", "'empty'"), ("[]", "function(e) e", "'empty'")]),
    # strings (C18)
    "substr": (["str", "from", "len"], [("'héllo'", "1", "3")]),
    "findSubstr": (["pat", "str"], [("'ab'", "'abcab'"), ("'abcab'", "'ab'")]),
    "startsWith": (["a", "b"], [("'abc'", "'ab'"), ("'ab'", "'abc'")]),
    "endsWith": (["a", "b"], [("'abc'", "'bc'"), ("'bc'", "'abc'")]),
    "split": (["str", "c"], [("'a,b,c'", "','"), ("','", "'a,b'")]),
    "splitLimit": (["str", "c", "maxsplits"], [("'a,b,c'", "','", "1")]),
    "splitLimitR": (["str", "c", "maxsplits"], [("'a,b,c'", "','", "1")]),
    "strReplace": (["str", "from", "to"], [("'abcabc'", "'b'", "'xy'"), ("'b'", "'abcabc'", "'xy'")]),
    "stripChars": (["str", "chars"], [("'xxabxx'", "'x'"), ("'x'", "'xxabxx'")]),
    "lstripChars": (["str", "chars"], [("'xxabxx'", "'x'")]),
    "rstripChars": (["str", "chars"], [("'xxabxx'", "'x'")]),
    "join": (["sep", "arr"], [("','", "['a', 'b']"), ("[0]", "[[1], [2]]")]),
    "repeat": (["what", "count"], [("'ab'", "3"), ("[1]", "2")]),
    "slice": (["indexable", "index", "end", "step"], [("'abcdef'", "1", "5", "2"), ("[1, 2, 3, 4]", "0", "3", "1")]),
    "member": (["arr", "x"], [("[1, 2]", "2"), ("'abc'", "'b'")]),
    "count": (["arr", "x"], [("[1, 2, 1]", "1")]),
    "map": (["func", "arr"], [("function(x) x * 2", "[1, 2]")]),
    "filter": (["func", "arr"], [("function(x) x > 1", "[1, 2, 3]")]),
    "foldl": (["func", "arr", "init"], [("function(a, x) a + [x]", "[1, 2]", "[0]")]),
    "foldr": (["func", "arr", "init"], [("function(x, a) a + [x]", "[1, 2]", "[0]")]),
    "mapWithIndex": (["func", "arr"], [("function(i, x) [i, x]", "[5, 6]")]),
    "mapWithKey": (["func", "obj"], [("function(k, v) [k, v]", "{a: 1}")]),
    "flatMap": (["func", "arr"], [("function(x) [x, x]", "[1, 2]")]),
    "filterMap": (["filter_func", "map_func", "arr"], [("function(x) x > 1", "function(x) x * 10", "[1, 2, 3]")]),
    "makeArray": (["sz", "func"], [("3", "function(i) i * i")]),
    "range": (["from", "to"], [("2", "5")]),
    "format": (["str", "vals"], [("'%s-%d'", "['a', 2]")]),
    "objectHas": (["o", "f"], [("{a: 1}", "'a'")]),
    "objectHasAll": (["o", "f"], [("{a:: 1}", "'a'")]),
    "objectRemoveKey": (["obj", "key"], [("{a: 1, b: 2}", "'a'")]),
    "get": (["o", "f", "default", "inc_hidden"], [("{a:: 1}", "'a'", "7", "false"), ("{a:: 1}", "'a'", "7", "true")]),
    "mergePatch": (["target", "patch"], [("{a: 1, b: 2}", "{a: null, c: 3}")]),
    "pow": (["x", "n"], [("2", "10"), ("10", "2")]),
    "atan2": (["y", "x"], [("1", "2")]),
    "mod": (["a", "b"], [("7", "3")]),
    "clamp": (["x", "minVal", "maxVal"], [("5", "1", "3"), ("0", "1", "3")]),
    "max": (["a", "b"], [("1", "2")]),
    "min": (["a", "b"], [("1", "2")]),
    "xor": (["x", "y"], [("true", "false")]),
    "parseInt": (["str"], [("'-12'",)]),
    "base64": (["input"], [("'hello'",)]),
    "manifestJsonEx": (["value", "indent", "newline", "key_val_sep"], [("{a: [1]}", "'  '", "'\\n'", "' : '")]),
    "manifestYamlDoc": (["value", "indent_array_in_object", "quote_keys"], [("{a: [1]}", "true", "false")]),
    "trace": (["str", "rest"], [("'t'", "5")]),
}


def named_cases(names=None):
    """-> (family, source, expected True) : named (reversed order) == positional, and mixed positional-then-named == positional."""
    out = []
    for fn, (params, samples) in TABLE.items():
        if names is not None and fn not in names:
            continue
        for args in samples:
            k = len(args)
            pos = "std.%s(%s)" % (fn, ", ".join(args))
            named = "std.%s(%s)" % (fn, ", ".join("%s=%s" % (params[i], args[i]) for i in reversed(range(k))))
            out.append(("named_args:" + fn, "(%s) == (%s)" % (named, pos), True))
            if k >= 2:
                mixed = "std.%s(%s, %s)" % (fn, args[0], ", ".join("%s=%s" % (params[i], args[i]) for i in reversed(range(1, k))))
                out.append(("named_args_mixed:" + fn, "(%s) == (%s)" % (mixed, pos), True))
    return out

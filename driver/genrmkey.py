"""Histories of object construction: literals, inheritance, std.objectRemoveKey, sharing, prior observation.

A term denotes an object; the *model* is written from the statement of C07, not from rsjsonnet's representation:
an object is a sequence of layers, `x + y` concatenates them, and std.objectRemoveKey(x, k) is x with the definitions
of k deleted from each of x's layers ("removes exactly the named field", every other field untouched).  Field values
are distinct integer constants (so the value observed identifies the layer that won) or `k+: c`, which adds c to the
inherited value when one exists to the left.  No field value reads another field, so nothing here depends on how a
field that reads a removed key behaves (the statement leaves that open).

Visibility: fold over the layers from the left - `::` hides, `:::` shows, `:` keeps what was inherited (visible if
nothing was).  What is compared: the manifested object, std.objectFields / objectFieldsAll / length, objectHas(All)
and `in` for every key of the alphabet.
"""

KEYS = ["a", "b", "c"]
VIS = [":", ":", ":", "::", ":::"]


class Hist:
    """binds: list of terms (bind i may refer to binds < i); root: term.
    term := ('lit', [(key, vis, plus, const)]) | ('plus', t, t) | ('rm', t, key) | ('ref', i) | ('obs', t, how)
            const is an integer, or ('insuper', k) = `"k" in super`, or ('superor', k, c) = `if "k" in super then super.k else c`
            (presence / guarded value of a key in the layers to the left: after a removal the key must be gone for every observer)
          | ('comp', [(key, const)])        object comprehension: all fields visible
    """

    def __init__(self, binds, root):
        self.binds = binds
        self.root = root


def gen(rng, size=None, keys=KEYS):
    counter = [0]

    def const():
        counter[0] += 1
        return counter[0] * 10 + rng.randint(0, 9)

    def lit():
        n = rng.choice([0, 1, 1, 2, 2, 3])
        ks = rng.sample(keys, min(n, len(keys)))
        fs = []
        for k in ks:
            r = rng.random()
            if r < 0.12:
                fs.append((k, rng.choice(VIS), False, ("insuper", rng.choice(keys))))
            elif r < 0.24:
                fs.append((k, rng.choice(VIS), False, ("superor", rng.choice(keys), const())))
            else:
                fs.append((k, rng.choice(VIS), rng.random() < 0.2, const()))
        return ("lit", fs)

    def term(budget, nb):
        k = rng.random()
        if budget <= 0:
            if nb and k < 0.3:
                return ("ref", rng.randrange(nb))
            if k < 0.4:
                return ("comp", [(kk, const()) for kk in rng.sample(keys, rng.randint(0, 2))])
            return lit()
        if k < 0.45:
            cut = rng.randint(0, budget - 1)
            return ("plus", term(cut, nb), term(budget - 1 - cut, nb))
        if k < 0.8:
            return ("rm", term(budget - 1, nb), rng.choice(keys))
        if k < 0.9:
            return ("obs", term(budget - 1, nb), rng.randrange(4))
        if nb:
            return ("ref", rng.randrange(nb))
        return lit()

    def sanitize(t, banned):
        """A field that observes key k (presence or guarded value in super) inside an object from which k is removed later
        'reads the removed one': the statement promises nothing about it, so such observers are replaced by constants.
        Observers to the right of / outside the removal stay: for them the key must be gone."""
        k = t[0]
        if k == "lit":
            return ("lit", [(key, vis, plus, (c[-1] if c[0] == "superor" else 7) if isinstance(c, tuple) and c[1] in banned else c)
                            for key, vis, plus, c in t[1]])
        if k == "plus":
            return ("plus", sanitize(t[1], banned), sanitize(t[2], banned))
        if k == "rm":
            return ("rm", sanitize(t[1], banned | {t[2]}), t[2])
        if k == "obs":
            return ("obs", sanitize(t[1], banned), t[2])
        return t

    size = size if size is not None else rng.choice([2, 3, 4, 5, 6, 8])
    binds = []
    for i in range(rng.choice([0, 1, 2, 3])):
        # shared sub-objects may end up under any removal: no observers in them
        binds.append(sanitize(term(rng.randint(0, 3), i), set(keys)))
    return Hist(binds, sanitize(term(size, len(binds)), set()))


# ---------------------------------------------------------------------------------------------- printing

OBS = ["std.length(std.objectFieldsAll(%s)) >= 0", "std.length(std.toString(%s)) >= 0", "(%s == %s) == true",
       "std.length(%s) >= 0"]


def render_term(t):
    k = t[0]
    if k == "lit":
        def val(c):
            if isinstance(c, tuple) and c[0] == "insuper":
                return '(if "%s" in super then 1 else 0)' % c[1]
            if isinstance(c, tuple):
                return '(if "%s" in super then super.%s else %d)' % (c[1], c[1], c[2])
            return "%d" % c
        return "{" + ", ".join("%s%s%s %s" % (key, "+" if plus else "", vis, val(c)) for key, vis, plus, c in t[1]) + "}"
    if k == "comp":
        return "{[kv[0]]: kv[1] for kv in [%s]}" % ", ".join('["%s", %d]' % (key, c) for key, c in t[1])
    if k == "plus":
        return "(%s + %s)" % (render_term(t[1]), render_term(t[2]))
    if k == "rm":
        return 'std.objectRemoveKey(%s, "%s")' % (render_term(t[1]), t[2])
    if k == "ref":
        return "B%d" % t[1]
    if k == "obs":
        inner = render_term(t[1])
        return "(local T = %s; if %s then T else null)" % (inner, OBS[t[2]].replace("%s", "T"))
    raise ValueError(k)


def render(h):
    head = "".join("local B%d = %s; " % (i, render_term(t)) for i, t in enumerate(h.binds))
    return head, render_term(h.root)


# ---------------------------------------------------------------------------------------------- model

def layers_of(h, t, memo):
    k = t[0]
    if k == "lit":
        return [dict((key, (vis, plus, c)) for key, vis, plus, c in t[1])]
    if k == "comp":
        return [dict((key, (":", False, c)) for key, c in t[1])]
    if k == "plus":
        return layers_of(h, t[1], memo) + layers_of(h, t[2], memo)
    if k == "rm":
        return [{kk: v for kk, v in layer.items() if kk != t[2]} for layer in layers_of(h, t[1], memo)]
    if k == "ref":
        if t[1] not in memo:
            memo[t[1]] = layers_of(h, h.binds[t[1]], memo)
        return memo[t[1]]
    if k == "obs":
        return layers_of(h, t[1], memo)
    raise ValueError(k)


def observe_failure(h, t, memo):
    """An 'obs' wrapper stringifies / compares the object: that fails only if a field value fails; with constant
    fields nothing can fail, so observation is always the identity here."""
    return False


def model(h):
    """-> (visible: {key: number}, all_keys: sorted list, hidden values {key: number})."""
    layers = layers_of(h, h.root, {})
    vis = {}
    val = {}
    for layer in layers:
        before = dict(val)          # what the layers to the left define (all fields of a layer see the same super)
        for key, (v, plus, c) in layer.items():
            if isinstance(c, tuple) and c[0] == "insuper":
                c = 1 if c[1] in before else 0
            elif isinstance(c, tuple):
                c = before[c[1]] if c[1] in before else c[2]
            if v == "::":
                vis[key] = False
            elif v == ":::":
                vis[key] = True
            else:
                vis.setdefault(key, True)
            if plus and key in val:
                val[key] = val[key] + c
            else:
                val[key] = c
    visible = {k: float(val[k]) for k in val if vis[k]}
    return visible, sorted(val), {k: float(v) for k, v in val.items()}


def count_ops(t, acc=None):
    acc = acc if acc is not None else {}
    acc[t[0]] = acc.get(t[0], 0) + 1
    for x in t[1:]:
        if isinstance(x, tuple):
            count_ops(x, acc)
    return acc


def shape_key(h):
    """A coarse description of the history (for evidence: which kinds of histories were seen)."""
    acc = {}
    for t in h.binds + [h.root]:
        count_ops(t, acc)
    return "rm%d/plus%d/ref%d/obs%d" % (min(acc.get("rm", 0), 4), min(acc.get("plus", 0), 4), min(acc.get("ref", 0), 3),
                                        min(acc.get("obs", 0), 2))

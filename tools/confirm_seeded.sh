#!/bin/sh
# tools/confirm_seeded.sh <worktree> <variant A|B>  - independent confirmation of a seeded change in its scratch worktree:
# compiles, passes the existing suite, demo fails with it and passes without.  Prints CONFIRMED or the reason.
wt="$1"; v="$2"; d="$wt/SEEDED/$v"
cd "$wt" || exit 2
export CARGO_TARGET_DIR="$wt/target" CARGO_NET_OFFLINE=true
git checkout -q -- . ; git apply "$d/patch.diff" || { echo "NOT-CONFIRMED $wt $v: patch does not apply"; exit 1; }
out=$(cargo test --workspace --no-fail-fast --offline 2>&1)
fails=$(echo "$out" | grep -E "^test result" | awk '{f+=$6} END {print f+0}')
passes=$(echo "$out" | grep -E "^test result" | awk '{p+=$4} END {print p+0}')
if [ "$fails" != "0" ] || [ "$passes" -lt 754 ]; then git checkout -q -- .; echo "NOT-CONFIRMED $wt $v: suite $passes passed $fails failed"; exit 1; fi
cargo build --offline -p rsjsonnet >/dev/null 2>&1
sh "$d/demo.sh" >/dev/null 2>&1; with=$?
git checkout -q -- .
cargo build --offline -p rsjsonnet >/dev/null 2>&1
sh "$d/demo.sh" >/dev/null 2>&1; without=$?
if [ "$with" != "0" ] && [ "$without" = "0" ]; then echo "CONFIRMED $wt $v: suite $passes/0, demo with=$with without=$without"; exit 0; fi
echo "NOT-CONFIRMED $wt $v: demo with=$with without=$without"; exit 1

#!/bin/sh
# tools/ingest_seeded.sh <worktree root e.g. /tmp/wt2> <Cxx> <variant>  - confirms one sub-agent change in its scratch worktree
# (tools/confirm_seeded.sh) and, if confirmed, stores it as /verif/seeded/<Cxx>-<variant>/ (patch.diff, demo.sh, notes.md, extra files).
root="$1"; prop="$2"; v="$3"
line=$(/verif/tools/confirm_seeded.sh "$root/$prop" "$v" 2>&1 | tail -1)
echo "$line"
case "$line" in
  CONFIRMED*)
    dst="/verif/seeded/$prop-$v"; mkdir -p "$dst"
    cp -r "$root/$prop/SEEDED/$v/." "$dst/"
    find "$dst" -type f -size +200k -delete
    echo "$line" >> /verif/seeded/CONFIRMATION.log ;;
esac

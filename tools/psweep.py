#!/usr/bin/env python3
"""tools/psweep.py [-j N] [--tier quick] [--seed 0] [--all-props] <seeded ids...|all>

Tries stored seeded changes against the checks *without touching /repo*: each of N slots under /tmp/sw holds a git
worktree of /repo's HEAD (the change is applied there) and a copy of /verif's working tree (own target/ and evidence/),
and the check runs with VERIF_REPO pointing at the slot's repository.  Builds inside a slot are incremental.
Results: seeded/RESULTS.tsv rows (id, tier, exit, violations, first signatures) are replaced for the ids tried; the full
log of each run is kept as /verif/target/psweep/<id>[.<prop>].log.  The slots are removed at the end (--keep to keep).
This is exploration tooling: the registered checks and the committed evidence always come from /verif against /repo."""
import os
import queue
import re
import shutil
import subprocess
import sys
import threading

VERIF = os.path.dirname(os.path.dirname(os.path.abspath(__file__)))
ROOT = os.environ.get("PSWEEP_ROOT") or "/tmp/sw"
ALL_PROPS = ["C%02d" % i for i in range(1, 21)]


def sh(cmd, **kw):
    return subprocess.run(cmd, shell=isinstance(cmd, str), stdout=subprocess.PIPE, stderr=subprocess.STDOUT, text=True, **kw)


def setup_slot(k):
    d = os.path.join(ROOT, "slot%d" % k)
    repo = os.path.join(d, "repo")
    if not os.path.isdir(repo):
        os.makedirs(d, exist_ok=True)
        r = sh(["git", "-C", "/repo", "worktree", "add", "--detach", repo, "HEAD"])
        if r.returncode:
            raise SystemExit(r.stdout)
    else:
        sh(["git", "-C", repo, "checkout", "-q", "--detach", sh(["git", "-C", "/repo", "rev-parse", "HEAD"]).stdout.strip()])
        sh(["git", "-C", repo, "checkout", "-q", "--", "."])
    return d


def sync_verif(d):
    r = sh(["rsync", "-a", "--delete", "--exclude", "/target", "--exclude", "/.git", "--exclude", "__pycache__",
            "--exclude", "/evidence/replay", "--exclude", "/harness/target", VERIF + "/", os.path.join(d, "verif") + "/"])
    if r.returncode:
        raise SystemExit(r.stdout)


def run_one(d, sid, prop, tier, seed, nproc, outdir, tag):
    repo = os.path.join(d, "repo")
    sh(["git", "-C", repo, "checkout", "-q", "--", "."])
    patch = os.path.join(VERIF, "seeded", sid, "patch.diff")
    r = sh(["git", "-C", repo, "apply", patch])
    if r.returncode:
        return (sid, prop, 2, 0, "patch does not apply: " + r.stdout[:200])
    env = dict(os.environ, VERIF_REPO=repo, VERIF_SEED=str(seed), VERIF_NPROC=str(nproc), CARGO_NET_OFFLINE="true")
    r = sh(["./check", prop, "--tier", tier], cwd=os.path.join(d, "verif"), env=env)
    sh(["git", "-C", repo, "checkout", "-q", "--", "."])
    log = os.path.join(outdir, tag + ".log")
    with open(log, "w") as f:
        f.write(r.stdout)
    nv = len(re.findall(r"^VIOLATION", r.stdout, re.M))
    sigs = re.findall(r"^VIOLATION.*\n\s*signature: (.*)", r.stdout, re.M)[:3]
    return (sid, prop, r.returncode, nv, " ".join(sigs)[:400])


def main():
    args = sys.argv[1:]
    j, tier, seed, allp, keep, ids = 4, "quick", 0, False, False, []
    i = 0
    while i < len(args):
        a = args[i]
        if a == "-j":
            j = int(args[i + 1]); i += 2
        elif a == "--tier":
            tier = args[i + 1]; i += 2
        elif a == "--seed":
            seed = int(args[i + 1]); i += 2
        elif a == "--all-props":
            allp = True; i += 1
        elif a == "--keep":
            keep = True; i += 1
        else:
            ids.append(a); i += 1
    if ids == ["all"] or not ids:
        ids = sorted(x for x in os.listdir(os.path.join(VERIF, "seeded")) if re.fullmatch(r"C\d+-[A-Z]", x))
    jobs = queue.Queue()
    for sid in ids:
        for prop in (ALL_PROPS if allp else [sid.split("-")[0]]):
            jobs.put((sid, prop))
    outdir = os.path.join(VERIF, "target", "psweep")
    os.makedirs(outdir, exist_ok=True)
    nproc = max(2, 16 // j)
    results, lock = [], threading.Lock()

    def worker(k):
        d = setup_slot(k)
        sync_verif(d)
        while True:
            try:
                sid, prop = jobs.get_nowait()
            except queue.Empty:
                return
            tag = sid if not allp else sid + "." + prop
            res = run_one(d, sid, prop, tier, seed, nproc, outdir, tag)
            with lock:
                results.append(res)
                print("%s\t%s\trc=%d\tviolations=%d\t%s" % (res[0], res[1], res[2], res[3], res[4][:160]), flush=True)

    ts = [threading.Thread(target=worker, args=(k,)) for k in range(j)]
    for t in ts:
        t.start()
    for t in ts:
        t.join()
    if not keep:
        for k in range(j):
            d = os.path.join(ROOT, "slot%d" % k)
            sh(["git", "-C", "/repo", "worktree", "remove", "--force", os.path.join(d, "repo")])
            shutil.rmtree(d, ignore_errors=True)
        sh(["git", "-C", "/repo", "worktree", "prune"])
    if not allp:
        rp = os.path.join(VERIF, "seeded", "RESULTS.tsv")
        rows = {}
        if os.path.exists(rp):
            for line in open(rp):
                f = line.rstrip("\n").split("\t")
                if len(f) >= 5:
                    rows[f[0]] = f
        for sid, prop, rc, nv, sig in results:
            rows[sid] = [sid, tier, str(rc), str(nv), sig]
        with open(rp, "w") as f:
            for sid in sorted(rows):
                f.write("\t".join(rows[sid]) + "\n")
    else:
        with open(os.path.join(VERIF, "seeded", "CROSS.tsv"), "a") as f:
            for sid, prop, rc, nv, sig in sorted(results):
                f.write("\t".join([sid, prop, tier, str(rc), str(nv), sig]) + "\n")
    return 0


if __name__ == "__main__":
    sys.exit(main())

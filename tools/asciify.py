#!/usr/bin/env python3
"""Rewrites non-ASCII characters in the given Python files as \\u escapes (keeps sources robust)."""
import re, sys
for p in sys.argv[1:]:
    s = open(p, encoding="utf-8").read()
    def esc(m):
        o = ord(m.group(0))
        return "\\u%04x" % o if o < 0x10000 else "\\U%08x" % o
    s2 = re.sub(r"[^\x00-\x7f]", esc, s)
    if s2 != s:
        open(p, "w", encoding="utf-8").write(s2)
        print("asciified", p)

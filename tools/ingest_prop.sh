#!/bin/sh
# tools/ingest_prop.sh <root> <Cxx> <variants...>   - the variants of one property one after another (they share a worktree)
root="$1"; prop="$2"; shift; shift
for v in "$@"; do /verif/tools/ingest_seeded.sh "$root" "$prop" "$v"; done

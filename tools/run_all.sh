#!/bin/sh
# tools/run_all.sh <tier> <seed> [props...]  - runs the checks one after another against /repo as it stands and prints
# one line per check; full output in /verif/target/runall_<tier>_<seed>/<Cxx>.log.  Exit 1 if any check did.
tier="${1:-quick}"; seed="${2:-0}"; shift; shift
cd /verif || exit 2
props="$*"; [ -n "$props" ] || props="C01 C02 C03 C04 C05 C06 C07 C08 C09 C10 C11 C12 C13 C14 C15 C16 C17 C18 C19 C20"
out="/verif/target/runall_${tier}_${seed}"; mkdir -p "$out"
bad=0
for p in $props; do
  VERIF_SEED="$seed" ./check "$p" --tier "$tier" > "$out/$p.log" 2>&1
  rc=$?
  [ "$rc" = 0 ] || bad=1
  echo "rc=$rc $(grep -E "^\[$p\]" "$out/$p.log" | tail -1)"
  grep -E "^VIOLATION|BROKEN" "$out/$p.log" | head -3
done
exit $bad

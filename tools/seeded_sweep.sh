#!/bin/sh
# tools/seeded_sweep.sh [tier] [ids...]  - tries every stored seeded change against its property's check and writes
# /verif/seeded/RESULTS.tsv (id, exit status, violations, first signatures).  /repo is restored after each.
tier="${1:-quick}"; shift
cd /verif || exit 2
ids="$*"; [ -n "$ids" ] || ids=$(ls seeded | grep -E '^C[0-9]+-[A-Z]$')
out=/verif/seeded/RESULTS.tsv
[ -n "$*" ] || : > "$out"
for id in $ids; do
  prop=${id%-*}
  tools/try_seeded.sh "/verif/seeded/$id/patch.diff" "$prop" "$tier" > /dev/null 2>&1
  rc=$?
  log="/verif/target/seeded_$prop.log"
  nv=$(grep -c '^VIOLATION' "$log")
  sig=$(grep -A1 '^VIOLATION' "$log" | grep 'signature:' | head -3 | sed 's/^ *signature: //' | tr '\n' ' ' | cut -c1-400)
  printf '%s\t%s\t%s\t%s\t%s\n' "$id" "$tier" "$rc" "$nv" "$sig" >> "$out"
  cp "$log" "/verif/target/seeded_$id.log"
done
git -C /repo status --short

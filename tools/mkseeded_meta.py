#!/usr/bin/env python3
"""Writes /verif/seeded/<id>/meta.json for every stored seeded change and the table for DESIGN.md section 8.

Inputs: seeded/<id>/{patch.diff,notes.md}, seeded/CONFIRMATION.log (tools/confirm_seeded.sh output),
seeded/RESULTS.tsv (tools/seeded_sweep.sh output) and the first-trial record below (kept by hand while working)."""
import json
import os
import re
import sys

ROOT = os.path.join(os.path.dirname(os.path.abspath(__file__)), "..", "seeded")

# what happened the first time the change was tried against the check as it then was, and what was changed afterwards.
# "caught" = the check as built before the change existed reported a violation at tier quick, seed 0.
FIRST = {
    "C01-A": ("missed", "c01 gained a leg feeding generated heterogeneous nested values (mixed arrays such as [{x: 1}, 2]) to every builtin and manifester"),
    "C01-B": ("caught", None),
    "C02-A": ("missed", "genprog gained a both-operands-observed form and c02 an assert-history family (objects with invariants compared/read/converted, or not, before being combined with +)"),
    "C02-B": ("missed", "genprog slices gained negative and fractional-free out-of-range bounds and non-ASCII strings"),
    "C03-A": ("missed", "the schedule-independence workloads gained programs that leave thunks unforced at collection time"),
    "C03-B": ("caught", None),
    "C04-A": ("missed", "genprog gained a form whose unused binding sits behind a forced sibling; LAZY_BUILTINS table extended"),
    "C04-B": ("missed", "LAZY_BUILTINS table extended (builtins whose arguments/elements must stay unforced)"),
    "C05-A": ("caught", None),
    "C05-B": ("caught", None),
    "C06-A": ("caught", None),
    "C06-B": ("missed", "literals are also evaluated in thunk position (array element, field, argument, local) before being compared"),
    "C07-A": ("caught", None),
    "C07-B": ("missed", "new prior_use leg: the operands are observed (fields listed, manifested) before the combination is made"),
    "C08-A": ("caught", None),
    "C08-B": ("caught", None),
    "C09-A": ("caught", None),
    "C09-B": ("missed", "new callback sweep: every std function x argument position given a callback whose defaulted parameter mentions a captured local / std / self / $"),
    "C10-A": ("missed", "new shape family: the recursive call in 31 syntactic positions with and without tailstrict (the first trial's alarm came from an unrelated false alarm of mine in the cyclic-argument sweep, since corrected, so it is counted as a miss)"),
    "C10-B": ("caught", None),
    "C11-A": ("missed", "library gained objects whose failing assert lives in an inherited layer; histories are drawn half the time from one cluster of related requests"),
    "C11-B": ("missed", "library gained self-counting objects and requests deriving new objects from shared ones (objectRemoveKey, +, mergePatch, mapWithKey) after their fields were forced"),
    "C12-A": ("caught", None),
    "C12-B": ("caught", None),
    "C13-A": ("missed", "new two-importers scenario: the same relative string imported from two directories, in both evaluation orders, x every placement x -J sequence"),
    "C13-B": ("missed", "-J sequences with repeated directories, in generated trees and exhaustively up to length 4"),
    "C14-A": ("missed", "the reference lexer models CR LF inside text blocks (was: not modelled, payload skipped) and the generator emits LF / CR LF / mixed blocks with blank lines"),
    "C14-B": ("caught", None),
    "C15-A": ("caught", None),
    "C15-B": ("caught", None),
    "C16-A": ("caught", None),
    "C16-B": ("missed", "45 templates whose error sits at the very end of the input; a panic while the diagnostic is built (span.rs, lexer, parser, report) is a violation rather than inconclusive"),
    "C17-A": ("caught", None),
    "C17-B": ("caught", None),
    "C18-A": ("caught", None),
    "C18-B": ("missed", "std.trim inputs now contain Unicode white space that is not in the trim set (U+000B, U+1680, U+2000..200A, U+2028/9, U+202F, U+205F, U+3000, U+FEFF); trim == stripChars relation"),
    "C19-A": ("caught", None),
    "C19-B": ("caught", None),
    "C20-A": ("missed", "parseHex/parseOctal results must be correctly rounded up to 32/42 significant digits (was: exact up to 15 decimal digits, 1 ulp beyond), plus rounding-tie inputs"),
    "C20-B": ("caught", None),
}


def needs(notes):
    paras = re.split(r"\n(?=- |\n|\*\*)", notes)
    for p in paras:
        if re.search(r"need(ed|s) to manifest", p, re.I):
            t = re.sub(r"\s+", " ", p).strip(" -*")
            return t[:1800]
    return ""


def main():
    conf = {}
    for line in open(os.path.join(ROOT, "CONFIRMATION.log")):
        m = re.match(r"CONFIRMED /tmp/wt/(C\d+) ([AB]): (.*)", line.strip())
        if m:
            conf[m.group(1) + "-" + m.group(2)] = m.group(3)
    results = {}
    rp = os.path.join(ROOT, "RESULTS.tsv")
    if os.path.exists(rp):
        for line in open(rp):
            f = line.rstrip("\n").split("\t")
            if len(f) >= 5:
                results[f[0]] = {"tier": f[1], "exit": int(f[2]), "violations": int(f[3]), "first_signatures": f[4]}
    rows = []
    for sid in sorted(FIRST):
        d = os.path.join(ROOT, sid)
        notes = open(os.path.join(d, "notes.md"), encoding="utf-8").read()
        patch = open(os.path.join(d, "patch.diff"), encoding="utf-8").read()
        files = sorted(set(re.findall(r"^\+\+\+ b/(\S+)", patch, re.M)))
        title = notes.strip().splitlines()[0].lstrip("# ").strip()
        first, strengthening = FIRST[sid]
        res = results.get(sid)
        meta = {
            "id": sid,
            "breaks_property": sid.split("-")[0],
            "title": title,
            "files_changed": files,
            "patch_lines": sum(1 for ln in patch.splitlines() if ln[:1] in "+-" and ln[:3] not in ("+++", "---")),
            "needs_to_manifest": needs(notes),
            "author": "a fresh sub-agent that was given only the text of the property and its own scratch worktree of /repo "
                      "(nothing from /verif); see seeded/BRIEF.txt",
            "confirmed_by_me": {
                "how": "tools/confirm_seeded.sh in the scratch worktree (since removed): apply patch, cargo test --workspace "
                       "--no-fail-fast --offline, cargo build, demo.sh; git checkout, cargo build, demo.sh",
                "result": conf.get(sid, "missing"),
            },
            "tried_against_check": {
                "how": "tools/try_seeded.sh: git -C /repo apply patch.diff; ./check %s --tier quick; git -C /repo checkout -- ."
                       % sid.split("-")[0],
                "first_trial": first,
                "strengthening_after_first_trial": strengthening,
                "current": res,
                "detected_now": bool(res and res["exit"] == 1 and res["violations"] > 0),
            },
        }
        with open(os.path.join(d, "meta.json"), "w", encoding="utf-8") as f:
            json.dump(meta, f, indent=1, sort_keys=True)
            f.write("\n")
        rows.append(meta)
    # markdown table
    out = ["| change | area (files) | first trial | now (quick, seed 0) | violation kinds reported | strengthened by |", "|---|---|---|---|---|---|"]
    for m in rows:
        t = m["tried_against_check"]
        cur = t["current"]
        kinds = ", ".join(sorted(set(re.findall(r'"kind": "([^"]+)"', cur["first_signatures"]))))[:90] if cur else ""
        out.append("| %s | %s | %s | %s | %s | %s |" % (
            m["id"], ", ".join(os.path.basename(x) for x in m["files_changed"]), t["first_trial"],
            ("caught (%d)" % cur["violations"]) if t["detected_now"] else ("MISSED" if cur else "not run"), kinds,
            (t["strengthening_after_first_trial"] or "-")))
    with open(os.path.join(ROOT, "TABLE.md"), "w", encoding="utf-8") as f:
        f.write("\n".join(out) + "\n")
    missed = [m["id"] for m in rows if not m["tried_against_check"]["detected_now"]]
    print("wrote %d meta.json; detected now: %d; not detected: %s" % (len(rows), len(rows) - len(missed), missed))
    return 0


if __name__ == "__main__":
    sys.exit(main())

#!/usr/bin/env python3
"""Writes /verif/seeded/<id>/meta.json for every stored seeded change and the table for DESIGN.md section 8.

Inputs: seeded/<id>/{patch.diff,notes.md}, seeded/CONFIRMATION.log (tools/confirm_seeded.sh output),
seeded/RESULTS.tsv (tools/seeded_sweep.sh output) and the first-trial record below (kept by hand while working)."""
import json
import os
import re
import sys

ROOT = os.path.join(os.path.dirname(os.path.abspath(__file__)), "..", "seeded")

# what happened the first time the change was tried against the check as it then was, and what was changed afterwards.
# "caught" = the check as built before the change existed reported a violation at tier quick, seed 0.
FIRST = {
    "C01-A": ("missed", "c01 gained a leg feeding generated heterogeneous nested values (mixed arrays such as [{x: 1}, 2]) to every builtin and manifester"),
    "C01-B": ("caught", None),
    "C02-A": ("missed", "genprog gained a both-operands-observed form and c02 an assert-history family (objects with invariants compared/read/converted, or not, before being combined with +)"),
    "C02-B": ("missed", "genprog slices gained negative and fractional-free out-of-range bounds and non-ASCII strings"),
    "C03-A": ("missed", "the schedule-independence workloads gained programs that leave thunks unforced at collection time"),
    "C03-B": ("caught", None),
    "C04-A": ("missed", "genprog gained a form whose unused binding sits behind a forced sibling; LAZY_BUILTINS table extended"),
    "C04-B": ("missed", "LAZY_BUILTINS table extended (builtins whose arguments/elements must stay unforced)"),
    "C05-A": ("caught", None),
    "C05-B": ("caught", None),
    "C06-A": ("caught", None),
    "C06-B": ("missed", "literals are also evaluated in thunk position (array element, field, argument, local) before being compared"),
    "C07-A": ("caught", None),
    "C07-B": ("missed", "new prior_use leg: the operands are observed (fields listed, manifested) before the combination is made"),
    "C08-A": ("caught", None),
    "C08-B": ("caught", None),
    "C09-A": ("caught", None),
    "C09-B": ("missed", "new callback sweep: every std function x argument position given a callback whose defaulted parameter mentions a captured local / std / self / $"),
    "C10-A": ("missed", "new shape family: the recursive call in 31 syntactic positions with and without tailstrict (the first trial's alarm came from an unrelated false alarm of mine in the cyclic-argument sweep, since corrected, so it is counted as a miss)"),
    "C10-B": ("caught", None),
    "C11-A": ("missed", "library gained objects whose failing assert lives in an inherited layer; histories are drawn half the time from one cluster of related requests"),
    "C11-B": ("missed", "library gained self-counting objects and requests deriving new objects from shared ones (objectRemoveKey, +, mergePatch, mapWithKey) after their fields were forced"),
    "C12-A": ("caught", None),
    "C12-B": ("caught", None),
    "C13-A": ("missed", "new two-importers scenario: the same relative string imported from two directories, in both evaluation orders, x every placement x -J sequence"),
    "C13-B": ("missed", "-J sequences with repeated directories, in generated trees and exhaustively up to length 4"),
    "C14-A": ("missed", "the reference lexer models CR LF inside text blocks (was: not modelled, payload skipped) and the generator emits LF / CR LF / mixed blocks with blank lines"),
    "C14-B": ("caught", None),
    "C15-A": ("caught", None),
    "C15-B": ("caught", None),
    "C16-A": ("caught", None),
    "C16-B": ("missed", "45 templates whose error sits at the very end of the input; a panic while the diagnostic is built (span.rs, lexer, parser, report) is a violation rather than inconclusive"),
    "C17-A": ("caught", None),
    "C17-B": ("caught", None),
    "C18-A": ("caught", None),
    "C18-B": ("missed", "std.trim inputs now contain Unicode white space that is not in the trim set (U+000B, U+1680, U+2000..200A, U+2028/9, U+202F, U+205F, U+3000, U+FEFF); trim == stripChars relation"),
    "C19-A": ("caught", None),
    "C19-B": ("caught", None),
    "C20-A": ("missed", "parseHex/parseOctal results must be correctly rounded up to 32/42 significant digits (was: exact up to 15 decimal digits, 1 ulp beyond), plus rounding-tie inputs"),
    "C20-B": ("caught", None),
}

# round 2 (C/D): first trial = tools/psweep.py against the checks as they were at commit f921e2a (seeded/ROUND2_FIRST_TRIALS.log)
FIRST.update({
    "C01-C": ("missed", "c01 gained a whole-program leg that evaluates the other checks' generator families (programs with an injected scoping fault, binders renamed to a small pool, the C09 binder matrix, objectRemoveKey histories through 28 consumers)"),
    "C01-D": ("missed", "new shared generator genrmkey (histories of literals / + / std.objectRemoveKey of the same key / shared sub-objects / prior observation) consumed by 28 builtins and manifesters in c01's program leg"),
    "C02-C": ("missed", "c02 gained an operand matrix (every operator and construct x 12 operand values of every type, both short-circuit states) and typed programs with one sub-expression replaced by a value of another type"),
    "C02-D": ("missed", "c02 gained nesting towers: objects nested 1-5 deep through 10 carriers, the innermost reading $ / self in 8 reader positions"),
    "C03-C": ("caught", None),
    "C03-D": ("missed", "hook change af399ae: scripted-heap nodes keep their edges in Vec / boxed slice / Option+Vec / OnceCell+boxed slice (every container tracer of the collector is driven); random histories with bursts of 20-70 edges; wide-array schedule workloads (widths 31..257)"),
    "C04-C": ("caught", None),
    "C04-D": ("missed", "laziness table extended by 45 entries from upstream's definitions and a generated family: a '*' precision taken by %s/%c must stay unevaluated for every flag/width/entry point"),
    "C05-C": ("caught", None),
    "C05-D": ("missed", "c05 gained a history leg: genrmkey objects through every emitter against the layer-deletion model's visible fields"),
    "C06-C": ("missed", "c06 gained boundary texts: for every text->number path, every length around the overflow threshold x leading digit x filler x leading zeros x sign, and decimal texts on both sides of the rounding boundary"),
    "C06-D": ("missed", "new generator genyaml: structured YAML with anchors on values / keys / items / collections and aliases in every position over scalars that read as out-of-range numbers"),
    "C07-C": ("caught", None),
    "C07-D": ("missed", "c07 gained the objectRemoveKey-history leg against a layer-deletion model written from the statement (manifest, objectFields(All), length, objectHas(All), in, hidden values, ==, objectValues, objectKeysValues)"),
    "C08-C": ("caught", None),
    "C08-D": ("caught", None),
    "C09-C": ("missed", "c09 gained a binder matrix: every scope kind x every pair of binder slots (equal / distinct names; object-comprehension locals split before/after the field in every way) x nested scopes x 8 contexts, verdicts by the scope oracle"),
    "C09-D": ("caught", None),
    "C10-C": ("missed", "c10 gained 49 shapes: thunk chains through inheritance layers (13 ways a layer reads its predecessor x foldl/foldr/object-extension) and through lazily built containers"),
    "C10-D": ("missed", "c10 gained import cycles through the CLI: 11 directory layouts (.., ./, -J, file and directory symlinks, entry in a sub-directory) x 5 import positions x limits"),
    "C11-C": ("missed", "c11 gained a matrix library of 515 fields: every way a delayed computation arises x every way it fails (incl. arity mismatches of lazily created calls), re-evaluated in random histories"),
    "C11-D": ("missed", "same matrix library: failing objects behind wrappers that add nothing (+ {}, {} +, objext, ...) inside 4 holders, observed shallowly then deeply"),
    "C12-C": ("missed", "string values that begin/end the way the output framing does (newlines, ..., ---); -m combined with -S / -y"),
    "C12-D": ("missed", "fault enumeration extended to the k-th step of multi-step outputs (-m where exactly the k-th file cannot be written / fails to evaluate / has the wrong type; -y where the k-th element fails)"),
    "C13-C": ("caught", None),
    "C13-D": ("caught", None),
    "C14-C": ("missed", "harness accepts run-length encoded inputs; c14 gained giant tokens (9 token kinds x span lengths 2^25-1 .. 2^26+1) with extents and payload checksums known by construction"),
    "C14-D": ("caught", None),
    "C15-C": ("caught", None),
    "C15-D": ("missed", "c15 gained giant nodes: generated programs with one inter-token gap widened to ~2^25 / ~2^26 bytes; dump must equal the one-byte-gap dump shifted"),
    "C16-C": ("caught", None),
    "C16-D": ("caught", None),
    "C17-C": ("missed", "c17 gained dataflow programs: DAGs of set/sort operations whose operands are earlier results or the very same value (aliasing)"),
    "C17-D": ("missed", "c17 gained re-entrant comparisons: the deciding element is lazy and itself runs sort/set/fold/filter/format (nested up to twice)"),
    "C18-C": ("caught", None),
    "C18-D": ("caught", None),
    "C19-C": ("caught", None),
    "C19-D": ("missed", "every count/type/key mismatch through all three entry points (std.format, %, std.mod) and directive-free format strings x every argument shape"),
    "C20-C": ("missed", "c20 gained a sign/prefix grid: 29 prefixes (doubled/mixed signs, blanks, radix prefixes, look-alikes) x 15 bodies x 10 suffixes for the three integer parsers"),
    "C20-D": ("missed", "c20 gained the whole RFC 8259 number grammar (e/E, exponent signs, leading zeros) alone / in arrays / in objects: parseJson correctly rounded, parseYaml == parseJson"),
})
# round 3 (E/F): filled from seeded/ROUND3_FIRST_TRIALS.log (first trial = tools/psweep.py before any change prompted by the round)
ROUND3 = os.path.join(ROOT, "ROUND3_FIRST_TRIALS.log")
ROUND3_NOTES = {
    # what was generalised after the first trial of round 3 (only consulted for changes the first trial missed)
    "C01-E": "c04's generated '*'-precision family and c19's star cases already evaluate '%.*s'; c01's grid gained every conversion x '*' width/precision",
    "C01-F": "c12's mode matrix writes values with hidden / forced-visible / inherited / computed fields (c05's fancy()) instead of plain literals, also under -m",
    "C02-E": "c02 gained a call-binding matrix: 0-4 parameters x every mask of defaults x every positional count x every subset bound by name in both orders",
    "C02-F": "c02 gained a scope-reference matrix: binder i's value mentions binder j for every pair, in every scope kind incl. object-comprehension locals before/after the field",
    "C03-F": "conservation leg gained programs in which one heap object is referenced from 255..70000 places (limits of 8/16-bit counters)",
    "C04-E": "(cross-property) c13 reports it as file_loaded_more_than_once; c04 itself has no import workload - see section 8",
    "C04-F": "laziness table rows for every kind of container a lazy builtin walks (strings and objects, not only arrays)",
    "C05-F": "c12's mode matrix runs into output targets that already exist with longer / shorter / empty content (and an unrelated file that must stay)",
    "C06-F": "printing leg gained every power of two and of ten with both neighbours and negated",
    "C07-E": "prior-use leg observes operands and the combination in every way, incl. calling each one-argument method",
    "C07-F": "genrmkey fields may observe the layers to the left (\"k\" in super, guarded super.k) outside the removal",
    "C08-E": "unordered arrays must error through every entry point (__compare_array, __array_*), and reflexive pairs are also run on one aliased value",
    "C08-F": "operands reach the operators in rotating forms: locals, inline literals, literal on one side only, parameters, elements, fields",
    "C10-E": "cyclic-argument sweep already covers manifestPython(cyclic object); deep_manifestPython gained an object tower next to the array tower",
    "C10-F": "c10 gained very large limits (10^7 .. 2^64-1) through the API and -s, one child per run",
    "C11-E": "matrix library gained failures that arise when an aliased value is compared (functions inside shared arrays / objects)",
    "C11-F": "c11 gained histories through rsjsonnet_front::Session over real files (import/importstr/importbin of the same files in every order)",
    "C12-E": "failing runs with -o: the file must not be created, and an existing one must keep its exact content",
    "C12-F": "mode matrix: the value also reaches the modes as the result of a top-level function (defaults, no parameters, --tla-code, --tla-str)",
    "C13-E": "c13 gained importer kinds: file / -e / stdin / --ext-code / --tla-code / code files x relative, absolute, -J-only paths x 0-2 -J",
    "C13-F": "same importer-kind leg: code files resolve against their own directory and are loaded once when also imported",
    "C15-F": "the syntactic generator emits every list-valued element (object-comprehension locals, local binds) in lengths 0-3+",
    "C16-F": "19 templates whose error span covers several lines and straddles the lines 9|10, 99|100, 999|1000",
    "C18-E": "every 6th case draws its strings from an ASCII character and the code points sharing its low byte / low 16 bits",
    "C20-E": "base64Decode of arbitrary payloads incl. valid multi-byte UTF-8 text: one code point per decoded byte",
    "C20-F": "codec inputs around every power of two up to 65536 with a multi-byte (or broken) sequence straddling the boundary",
}


# round 4 (G/H): same protocol as round 3 (frozen copy at bcd381e); notes filled in after the first trial
ROUND4_NOTES = {
    "C01-H": "c01's grid gained escapes in every pairing (high / low / non-surrogate) inside JSON / YAML strings and Jsonnet literals, blanks around JSON tokens, and every code point up to U+00A1 through the escaping functions",
    "C02-G": "the +: cell of the operand matrix is the full product (inherited value x added value), as a fixed, a computed and a comprehension field",
    "C02-H": "17 shadowing templates: an inner binder of the same name for every pair of binder kinds (later for of one comprehension, nested comprehension, object local, parameter, method parameter, ...)",
    "C04-H": "c04's CLI leg: code given with --tla-code / --ext-code (text or file) is evaluated only as far as the result needs it, and once",
    "C05-H": "c05's CLI leg gained -m -y (several files x several documents, also none)",
    "C08-G": "all pairs of 45 containers that differ (or, for 0 / -0, do not differ) in exactly one position - first, middle, last, nested - compared repeatedly in one program",
    "C08-H": "documented parameter names of 61 std functions (driver/stdparams.py): every argument bound by name, reversed and positional-then-named, equals the positional call",
    "C10-G": "recursion through the callback of 22 higher-order builtins / constructs, for the first and for the last element - which does NOT catch this change: it lowers the charge per level from 3 frames to 2, and the check only demands at least one frame per level within a factor of three (the exact accounting is not part of the statement); recorded as a miss, see DESIGN.md section 8",
    "C12-H": "objects built by a construction history (genrmkey: hidden below, default above, +:, removed keys) under -m against the layer-deletion model",
    "C13-G": "files of 4 KiB .. 128 KiB with a multi-byte or truncated sequence straddling the power-of-two boundary through importstr / importbin / import",
    "C13-H": "the same failing path imported at four sites of one file of which only the k-th is evaluated: the error must point at that site",
    "C16-G": "end-of-input matrix: 30 prefixes that leave a lexical construct open x 14 invalid / truncated UTF-8 tails x 7 closers",
    "C16-H": "several distinct sources under one display path (also '<stdlib>') rendered by one Session: each diagnostic must quote and locate its own source",
    "C18-G": "periodic subjects and patterns (a unit repeated with a proper border, so that occurrences overlap at every shift)",
    "C19-G": "flag subsets in canonical, reversed and random order; random cases also repeat flags",
    "C20-H": "escapeStringJson / escapeStringPython compared with upstream's exact definition for every code point up to U+00A1 (was: round trip only)",
}


def needs(notes):
    paras = re.split(r"\n(?=- |\n|\*\*)", notes)
    for p in paras:
        if re.search(r"need(ed|s) to manifest", p, re.I):
            t = re.sub(r"\s+", " ", p).strip(" -*")
            return t[:1800]
    return ""


def main():
    conf = {}
    for line in open(os.path.join(ROOT, "CONFIRMATION.log")):
        m = re.match(r"CONFIRMED /tmp/wt\d*/(C\d+) ([A-Z]): (.*)", line.strip())
        if m:
            conf[m.group(1) + "-" + m.group(2)] = m.group(3)
    results = {}
    rp = os.path.join(ROOT, "RESULTS.tsv")
    if os.path.exists(rp):
        for line in open(rp):
            f = line.rstrip("\n").split("\t")
            if len(f) >= 5:
                results[f[0]] = {"tier": f[1], "exit": int(f[2]), "violations": int(f[3]), "first_signatures": f[4]}
    for logname, letters, notes in ((ROUND3, "EF", ROUND3_NOTES), (os.path.join(ROOT, "ROUND4_FIRST_TRIALS.log"), "GH", ROUND4_NOTES)):
        if os.path.exists(logname):
            for line in open(logname):
                f = line.rstrip("\n").split("\t")
                if len(f) >= 4 and re.fullmatch(r"C\d+-[%s]" % letters, f[0]):
                    caught = f[2] == "rc=1" and f[3] != "violations=0"
                    FIRST[f[0]] = ("caught" if caught else "missed", notes.get(f[0]))
    rows = []
    for sid in sorted(FIRST):
        if not os.path.isdir(os.path.join(ROOT, sid)):
            continue
        d = os.path.join(ROOT, sid)
        notes = open(os.path.join(d, "notes.md"), encoding="utf-8").read()
        patch = open(os.path.join(d, "patch.diff"), encoding="utf-8").read()
        files = sorted(set(re.findall(r"^\+\+\+ b/(\S+)", patch, re.M)))
        title = notes.strip().splitlines()[0].lstrip("# ").strip()
        first, strengthening = FIRST[sid]
        res = results.get(sid)
        meta = {
            "id": sid,
            "breaks_property": sid.split("-")[0],
            "title": title,
            "files_changed": files,
            "patch_lines": sum(1 for ln in patch.splitlines() if ln[:1] in "+-" and ln[:3] not in ("+++", "---")),
            "needs_to_manifest": needs(notes),
            "author": "a fresh sub-agent that was given only the text of the property (from round 2 on also one-line titles of the "
                      "changes already stored for it, to avoid repeats) and its own scratch worktree of /repo (nothing from /verif); "
                      "see seeded/BRIEF.txt, BRIEF2.txt, BRIEF3.txt, BRIEF4.txt",
            "confirmed_by_me": {
                "how": "tools/confirm_seeded.sh in the scratch worktree (since removed): apply patch, cargo test --workspace "
                       "--no-fail-fast --offline, cargo build, demo.sh; git checkout, cargo build, demo.sh",
                "result": conf.get(sid, "missing"),
            },
            "tried_against_check": {
                "how": "tools/try_seeded.sh: git -C /repo apply patch.diff; ./check %s --tier quick; git -C /repo checkout -- ."
                       % sid.split("-")[0],
                "first_trial": first,
                "strengthening_after_first_trial": strengthening,
                "current": res,
                "detected_now": bool(res and res["exit"] == 1 and res["violations"] > 0),
            },
        }
        with open(os.path.join(d, "meta.json"), "w", encoding="utf-8") as f:
            json.dump(meta, f, indent=1, sort_keys=True)
            f.write("\n")
        rows.append(meta)
    # markdown table
    out = ["| change | area (files) | first trial | now (quick, seed 0) | violation kinds reported | strengthened by |", "|---|---|---|---|---|---|"]
    for m in rows:
        t = m["tried_against_check"]
        cur = t["current"]
        kinds = ", ".join(sorted(set(re.findall(r'"kind": "([^"]+)"', cur["first_signatures"]))))[:90] if cur else ""
        out.append("| %s | %s | %s | %s | %s | %s |" % (
            m["id"], ", ".join(os.path.basename(x) for x in m["files_changed"]), t["first_trial"],
            ("caught (%d)" % cur["violations"]) if t["detected_now"] else ("MISSED" if cur else "not run"), kinds,
            (t["strengthening_after_first_trial"] or "-")))
    with open(os.path.join(ROOT, "TABLE.md"), "w", encoding="utf-8") as f:
        f.write("\n".join(out) + "\n")
    # DESIGN.md section 8: the table lives between two markers
    dp = os.path.join(ROOT, "..", "DESIGN.md")
    text = open(dp, encoding="utf-8").read()
    begin, end = "<!-- SEEDED-TABLE-BEGIN (generated by tools/mkseeded_meta.py) -->", "<!-- SEEDED-TABLE-END -->"
    summary = []
    for rnd, letters in (("1", "AB"), ("2", "CD"), ("3", "EF"), ("4", "GH")):
        rs = [m for m in rows if m["id"][-1] in letters]
        if rs:
            summary.append("round %s (%s): %d changes, first trial caught %d, caught now %d" % (
                rnd, "/".join(letters), len(rs), sum(1 for m in rs if m["tried_against_check"]["first_trial"] == "caught"),
                sum(1 for m in rs if m["tried_against_check"]["detected_now"])))
    block = begin + "\n\n" + "; ".join(summary) + ".\n\n" + "\n".join(out) + "\n\n" + end
    if begin in text:
        text = text[:text.index(begin)] + block + text[text.index(end) + len(end):]
    else:
        text = text.replace("@@TABLE@@", block)
    with open(dp, "w", encoding="utf-8") as f:
        f.write(text)
    missed = [m["id"] for m in rows if not m["tried_against_check"]["detected_now"]]
    print("wrote %d meta.json; detected now: %d; not detected: %s" % (len(rows), len(rows) - len(missed), missed))
    return 0


if __name__ == "__main__":
    sys.exit(main())

HOOK_COMMITS = ["9db45bf", "af399ae"]
ENGINES = [
    {"name": "cli-driver", "path": "/verif/driver/checks/c12.py, c13.py (+ CLI legs of c01, c05)",
     "serves_properties": ["C01", "C05", "C12", "C13"], "kind_free_text": "the real release binary (built from /repo's working tree into /verif/target/cli), one child process per case, exit status / stdout / stderr / files observed, faults injected through the file system, /dev/full, closed descriptors and a setuid child"},
    {"name": "evalsrv+python-monitors", "path": "/verif/harness/src/bin/evalsrv.rs + /verif/driver",
     "serves_properties": ["C01", "C02", "C03", "C04", "C05", "C06", "C07", "C08", "C09", "C10", "C11", "C13", "C14", "C15", "C16", "C17", "C18", "C19", "C20"], "kind_free_text": "batch evaluation server over the public rsjsonnet API (Program/Session/Lexer/Parser/SpanManager) observed by Python oracles (reference models, independent decoders, metamorphic relations)"},
    {"name": "gcheap", "path": "/verif/harness/src/bin/gcheap.rs",
     "serves_properties": ["C03"], "kind_free_text": "scripted-heap driver over the real collector (hook 2) with a reference reachability model; exhaustive small scope + random large scope; also run under Miri"},
]
NOTES = "Runtime monitoring only: every verdict is 'held on the executions observed'. See DESIGN.md."
NOT_CLAIMED = {}

_BASE_NOTE = ("Trusted base: the harness (evalsrv) faithfully reports what the public API returned; the Python oracle "
              "named in 'technique'; generators reach only the input classes listed in the evidence file's rule.")

CHECKS = {
    "C01": {
        "technique": "runtime monitoring: crash/panic monitor (catch_unwind + child-process death + CLI exit status) over byte-level fuzz, builtin x boundary-argument matrix, generated heterogeneous values into every builtin, function-specific grids and nesting towers; ASan build of the harness in the thorough tier",
        "text": "Exploration: every execution produced (mutated corpus / token soup / random bytes; every std function on boundary argument tuples (closures capturing outer locals, defaulted parameters) and on generated mixed nested values; CLI with ext vars/TLAs; deep towers) ended in a value or a typed, rendered error; any panic, abort, native stack overflow or exit status outside {0,1,2} is a violation. Held on the inputs observed, not a proof of totality.",
        "note": _BASE_NOTE + " Resource exhaustion (timeouts/OOM) is inconclusive. Two open known findings (parser native stack overflow on deep nesting; sourceannot assertion on zero-width spans).",
        "design_ref": "DESIGN.md section 2 C01",
    },
    "C05": {
        "technique": "runtime monitoring: independent decoders (own strict RFC 8259 parser, Python json/ast/tomllib, own YAML-subset reader, PyYAML) on every emitted document vs the value seen through the Value API",
        "text": "Exploration with exhaustive sub-spaces (all code points U+0000..U+02FF and boundary code points as value/key/first/last char; sensitive plain keys): every document emitted by 15 emitters and the CLI decoded to the same value (doubles bitwise, strings by code point, keys sorted, visible fields only).",
        "note": _BASE_NOTE + " YAML restricted as the property states; PyYAML is a YAML 1.1 reader, documents with characters that are line breaks/non-printable only in 1.1 are not shown to it.",
        "design_ref": "DESIGN.md section 2 C05",
    },
    "C06": {
        "technique": "runtime monitoring: finiteness gate on the Value API walk for every operator/builtin over a boundary grid; literal reading vs Python float() bitwise; printing round-trip + shortest digit count",
        "text": "Exploration: operators (all pairs of a ~200 point boundary grid in thorough), every std function on number tuples, array folds, parse functions never produced NaN/inf as a value; literals (halfway cases, 400 digits, underscores) read as the correctly rounded double; numbers printed on 10 paths read back bitwise with the shortest digit count.",
        "note": _BASE_NOTE + " Python float()/repr correctly rounded; libm-dependent builtins only gated for finiteness.",
        "design_ref": "DESIGN.md section 2 C06",
    },
    "C19": {
        "technique": "runtime monitoring: differential oracle (Python % operator, digit for digit on the shared printf subset) + width/shape invariants on generated directive x flags x width x precision x value",
        "text": "Exploration with an exhaustive sub-space (all 32 flag subsets x 14 conversions x small widths/precisions): rendered fields equal Python's on the shared subset, are never shorter than their width in characters, g/G and >= 2^53 magnitudes satisfy value/shape invariants, malformed formats and count/type/key mismatches are errors.",
        "note": _BASE_NOTE + " -0.0 under e/f normalised (conventions differ); #o, %.Ns and %(k) with array arguments excluded (upstream conventions differ from Python).",
        "design_ref": "DESIGN.md section 2 C19",
    },
    "C08": {
        "technique": "runtime monitoring: executable model of JSON equality and the spec's ordering vs ==, !=, std.equals, <, <=, >, >=, std.__compare(_array) on all pairs of a hostile value pool; algebraic laws on triples evaluated in-language",
        "text": "Exploration, exhaustive over all ordered pairs of a ~140-value pool in the thorough tier (sampled in quick): equality/order vectors equal the model's, unordered kinds error, exactly one of < == > on orderable values, transitivity on sampled triples, lazily failing tails beyond the deciding position are not forced.",
        "note": _BASE_NOTE,
        "design_ref": "DESIGN.md section 2 C08",
    },
    "C17": {
        "technique": "runtime monitoring: differential oracle (Python stable sorted/dedupe/set algebra by key on index-tagged elements) for sort/uniq/set/setUnion/Inter/Diff/Member/minArray/maxArray",
        "text": "Exploration with exhaustive sub-spaces (every length 0..200; all 4096 pairs of subsets of a 6-key universe): results equal the reference including stability and which operand's element is kept; lengths up to 1200; some runs with a collection every 3 evaluator steps.",
        "note": _BASE_NOTE,
        "design_ref": "DESIGN.md section 2 C17",
    },
    "C18": {
        "technique": "runtime monitoring: differential oracle (Python code-point string operations) and defining identities for ~60 string function families over a mixed-width alphabet",
        "text": "Exploration: every observed result of length/index/slice/substr/findSubstr/split*/join/strReplace/strip*/trim (white space outside the trim set must stay)/case/startsWith/map/flatMap/codepoint/char/format widths on ASCII, 2-/3-/4-byte, combining and overlapping-separator strings equals the code-point reference; out-of-range, negative, fractional and huge arguments give errors.",
        "note": _BASE_NOTE,
        "design_ref": "DESIGN.md section 2 C18",
    },
    "C20": {
        "technique": "runtime monitoring: differential oracles (Python int/base64/codecs/hashlib/json/ast/shlex + own strict RFC 8259 decoder), inverse laws, totality monitor for parseYaml on a mutated YAML corpus",
        "text": "Exploration: parseInt exact up to 15 digits and within 1 ulp to 400 digits, parseHex/parseOctal correctly rounded up to 32/42 significant digits (rounding ties included), non-digits at every position rejected; parseJson accept/reject and value equal a strict reference decoder on generated+mutated documents; parseYaml answers every input and equals parseJson on JSON documents; base64/UTF-8/md5/sha*/escapeString* equal the standard functions incl. block-boundary lengths and corrupted encodings.",
        "note": _BASE_NOTE + " Lone-surrogate escapes are excluded from the parseJson accept/reject comparison.",
        "design_ref": "DESIGN.md section 2 C20",
    },
    "C03": {
        "technique": "runtime monitoring: (a) scripted-heap driver over the real collector vs a reachability model using a freed-event log (exhaustive small scope + random), (b) schedule-independence monitor replaying each program under never/default/every-n/random collection schedules via the GC-mode hook, (c) object-count conservation on a long-lived Program, (d) Miri on the heap driver (thorough)",
        "engine": "gcheap + evalsrv",
        "text": "Exploration with exhaustive sub-spaces (all op sequences up to length 6-7 over <= 3-4 nodes and <= 4-6 external weak/strong handles): after every collection exactly the unreachable nodes were destroyed, nothing outside a collection, bookkeeping reset, every held handle/edge viewable; complete outcome records (value, error, stack trace, traces) identical under 10 collection schedules for heap-stress templates (incl. thunks left unforced at collection time) and corpus mutants; a long-lived state returned to its baseline object count after every round.",
        "note": _BASE_NOTE + " The facade's test node traces exactly its edge list; collection points are the evaluator's maybe_gc calls (one per evaluator step).",
        "design_ref": "DESIGN.md section 2 C03",
    },
    "C10": {
        "technique": "runtime monitoring: outcome-class monitor over (recursion shape x depth x frame limit) sweeps with monotonicity and limit-enforcement invariants; the recursive call in 31 syntactic positions x tailstrict; every std function given a self-referential argument in every position, each in a dedicated child (10 s / 1 GiB); server death = native stack exhaustion",
        "text": "Exploration over a grid: 94 recursion shapes x depths (0..10^5 in thorough) x 19 limits (0..10^6), 12 cycle shapes x lengths x limits, 23 flat workloads, ~700 cyclic-argument programs: outcomes only value/StackOverflow (cycles: InfiniteRecursion/StackOverflow), expected values, never a crash, success persists with the same value for every larger limit, a recursion d deep never succeeds with limit s when d >= 3s+20 (only a tailstrict call in genuine tail position may go uncharged); one open known finding (five natively traversing builtins never stop on a cyclic argument).",
        "note": _BASE_NOTE + " 'However deeply or endlessly' is restated as bounded sweeps; builtins that traverse natively (prune, flattenDeepArray, deepJoin, mergePatch) are only required not to crash and to be monotone.",
        "design_ref": "DESIGN.md section 2 C10",
    },
    "C11": {
        "technique": "runtime monitoring: history checker against the sequential model 'fresh state per request' on recorded request/response histories of one long-lived Program; cross-process determinism replay",
        "text": "Exploration with exhaustive sub-spaces (all permutations of nine 4-request pools built around failure-then-reuse shapes): every response on the shared state equals the fresh-state response (value walk, manifest text, error kind/message/in-source spans, stack length), objects derived from shared ones (+, objectRemoveKey, mergePatch, mapWithKey) and inherited asserts behave as on a fresh state whatever was forced before, re-evaluating a thunk repeats its first outcome, and every history replays byte-identically in a second process.",
        "note": _BASE_NOTE + " std.trace output is excluded (memoised values are rightly not traced again); a value obtained where the fresh state reports StackOverflow because earlier requests memoised the work is not counted as a changed answer.",
        "design_ref": "DESIGN.md section 2 C11",
    },
    "C14": {
        "technique": "runtime monitoring: tiling/EOF/filter invariants on the token stream of every input + differential oracle (independent reference lexer written from the lexical grammar: kinds, extents, decoded payloads, lossy UTF-8)",
        "text": "Exploration with exhaustive sub-spaces (all pairs and triples of the 15 operator characters in 5 contexts; every BMP scalar value in thorough + 2000 astral in 8 string/comment forms; every class of invalid 1-3 byte UTF-8 prefix in 7 forms): token spans tile the input up to an EOF token, the filtered list equals the full list minus whitespace/comments, failures carry exactly one in-range location, number forms with '_' in every position, LF / CR LF / mixed text blocks with blank lines, and every token equals the reference lexer's.",
        "note": _BASE_NOTE + " Text blocks containing CR are only checked for tiling (not modelled by the reference).",
        "design_ref": "DESIGN.md section 2 C14",
    },
    "C15": {
        "technique": "runtime monitoring: print/re-parse round trip of generated syntax trees in three parenthesisation styles against the generator's own tree and byte extents; operator-table oracle (independent precedence climbing); token-mutation error-location monitor",
        "text": "Exploration with exhaustive sub-spaces (all ordered pairs, and in thorough all triples, of the 19 binary operators, plain and with unary/postfix operands): minimal, fully parenthesised and noisy printings parse to the same tree as generated, node spans equal the printed extents, lie inside their parents and on token boundaries; syntax errors of token-level mutants point at a token; every ui-tests file re-prints to an equal tree.",
        "note": _BASE_NOTE + " The printer's precedence table is my reading of the specification.",
        "design_ref": "DESIGN.md section 2 C15",
    },
    "C16": {
        "technique": "runtime monitoring: span-in-source monitor on every structured error and stack-trace item; rendered-report checker (Session plain/coloured x max_trace) against line/column computed from the span; in-process SpanManager round-trip monitor with a reference table",
        "text": "Exploration: 115 failing templates (45 with the error at the very end of the input) x paddings (CRLF, tabs, multi-byte, invalid UTF-8, 10^5-column lines) and corpus mutants covering ~60 error kinds: all spans inside their source, reports render (a panic while the diagnostic is built is a violation) with an error header, right file/line/(ASCII) column, consistent cropping arithmetic, colour-stripped == plain; 10^6-10^8 span registrations over contexts up to 2^40 bytes round-trip unchanged.",
        "note": _BASE_NOTE + " One open known finding (sourceannot assertion on zero-width spans). Columns compared only where display width equals byte offset.",
        "design_ref": "DESIGN.md section 2 C16",
    },
    "C02": {
        "technique": "runtime monitoring: differential oracle = reference interpreter written from the specification, on typed random programs generated as syntax trees and printed in two styles; plus an assert-history family (objects with invariants observed or not before being combined) and hand-derived feature-interaction templates",
        "text": "Exploration: for every generated program (all core features: operators, strings/arrays, slices, locals, functions with default/named arguments and recursion, conditionals, both comprehension kinds, objects with inheritance, self/super/$, visibilities, +:, object locals, asserts, error, in, in super) the manifested value, or the failure class with the message for error/assert, equals the reference interpreter's; ~80 templates with values derived by hand from the specification.",
        "note": _BASE_NOTE + " driver/refinterp.py is the trusted reading of the specification; programs whose number rendering conventions differ are skipped and counted.",
        "design_ref": "DESIGN.md section 2 C02, Appendix B/G",
    },
    "C04": {
        "technique": "runtime monitoring: std.trace instrumentation of every binding site with the trace multiset checked against the reference interpreter's force log; metamorphic rewrites (8 kinds) and dead-binding replacement compared on value, error and trace sequence",
        "text": "Exploration: each thunk instance is evaluated at most once and dead instances never (label multisets equal the call-by-need model's), every binding that was not evaluated can be replaced by a failing expression, and 3 random meaning-preserving rewrites per program leave value, error message and trace output unchanged; a table of ~50 builtins/constructs with failing unused elements and traced-once used elements.",
        "note": _BASE_NOTE + " Trace order is only compared between a program and its rewrites.",
        "design_ref": "DESIGN.md section 2 C04",
    },
    "C07": {
        "technique": "runtime monitoring: metamorphic relations (all bracketings of + chains, {} identity) on manifestation and an introspection vector; agreement laws between manifestation/length/in/objectHas/objectFields; reference-model visibility tables; objectRemoveKey field-table and unrelated-value monitors; the same laws with operands observed before being combined",
        "text": "Exploration: chains of 2-5 generated objects (incl. results of objectRemoveKey/mergePatch/prune/mapWithKey) manifest and introspect identically in every bracketing and with {} on either side, also when operands were listed/manifested beforehand; the ways of asking which fields exist agree; visibility follows the : :: ::: rules of the reference model; objectRemoveKey removes exactly the key, keeps other visibilities and the values of fields that do not read it.",
        "note": _BASE_NOTE + " A field 'does not read' key K iff it still evaluates when K is overridden by a failing field.",
        "design_ref": "DESIGN.md section 2 C07",
    },
    "C09": {
        "technique": "runtime monitoring: differential oracle = scope checker written from the specification's static rules, on load-only runs of generated programs with renamed binders (shadowing/duplicates/captures) and 13 kinds of injected faults at random positions; evaluation of accepted programs, and of every std function x argument position given a callback whose default mentions captured local/std/self/$, monitored for unbound-variable panics",
        "text": "Exploration: accept/reject, AnalyzeError variant, reported name and (for unbound variables, self, $) the exact span equal the oracle's on typed programs, pool-renamed programs, fault injections at every syntactic role (dead branches, unused locals, defaults, comprehension specs, field-name expressions, object locals) and arbitrary syntactic trees; nothing is evaluated at load; accepted programs never hit an unbound variable at run time, including when a builtin rather than user code calls a closure with defaulted parameters.",
        "note": _BASE_NOTE,
        "design_ref": "DESIGN.md section 2 C09",
    },
    "C12": {
        "technique": "runtime monitoring with fault injection: the real CLI as a black box, one child per case, against a Python model of the output modes; injected faults (file system, /dev/full, closed stdout, setuid child)",
        "engine": "cli-driver",
        "category": "fault_enumeration",
        "text": "Fault enumeration + exploration: 16 injected I/O faults each must give exit 1 with a message; generated values x input channel x mode x -o x --no-trailing-newline against the mode model (exit status, stdout, -o file, -m files and listing); ext vars/TLAs in all eight forms with hostile values, lazy ext code, duplicates, missing/unknown TLAs; failing programs of every error family leave stdout and the -o file untouched.",
        "note": _BASE_NOTE + " One open known finding (closed stdout: the Rust standard library swallows EBADF). A closed or full stderr is outside the property's fault list.",
        "design_ref": "DESIGN.md section 2 C12",
    },
    "C13": {
        "technique": "runtime monitoring with fault injection: generated directory trees run through the real CLI against a Python model of the import search, load-once observed through one std.trace per file, content oracles (lossy UTF-8 / exact bytes)",
        "engine": "cli-driver",
        "text": "Exploration with an exhaustive sub-space (one name placed in every subset of {importer dir, J1, J2, J3} x every sequence of 0-4 -J flags, repeats included; two importers using the same relative string x placements x -J sequences x evaluation order): every import delivers the file the stated search order selects as a function of (importer directory, -J list) only, each file is evaluated once however spelled (./, ../, symlinks, absolute), std.thisFile is the first load path, importstr/importbin deliver lossy text / exact bytes, and missing/directory/dangling/looping/unreadable targets exit 1 with the error at the import expression.",
        "note": _BASE_NOTE + " Importers are real files (code given with -e has no directory of its own).",
        "design_ref": "DESIGN.md section 2 C13",
    },
}


# legs added after the second round of seeded changes: appended to technique / level text by mkmanifest.py
ADDED = {
    "C01": ("; whole programs from the other checks' generators (injected scoping faults, renamed binders, binder matrix, objectRemoveKey histories through 28 consumers) evaluated for the outcome class",
            " Also: whole programs from the other checks' generator families, judged for the outcome class only."),
    "C02": ("; operand matrix (every operator/construct x 12 operand values of all types), ill-typed sub-expression injection, nesting towers for $/self",
            " Also: an exhaustive operand-type matrix for every operator and construct, typed programs with one ill-typed sub-expression, and nesting towers (depth 1-5 x 10 carriers x 8 reader positions)."),
    "C03": ("; the scripted-heap node keeps its edges in four containers (Vec, boxed slice, Option+Vec, OnceCell+boxed slice) and histories include bursts of 20-70 edges; wide-array schedule workloads",
            " The scripted heap drives every container tracer of the collector (four edge containers rotated over the nodes) and wide nodes."),
    "C04": ("; 120-entry laziness table from upstream's definitions incl. generated '*' precision cases",
            " The laziness table covers formatting ('*' precision under %s/%c), hidden fields in every manifester/comparison and structure-only builtins."),
    "C05": ("; history objects (inheritance + repeated objectRemoveKey + sharing + prior observation) through every emitter against a layer-deletion model",
            " Also: objects that are the result of a construction history, against the layer-deletion model's visible fields."),
    "C06": ("; boundary texts for every text->number path (every length around the overflow threshold); structured YAML with anchors/aliases over out-of-range scalars",
            " Also: texts whose value crosses the largest double at their last digit for every text->number path, and YAML documents with anchors on keys/values/items/collections and aliases in every position."),
    "C07": ("; objectRemoveKey/inheritance histories against a layer-deletion model written from the statement",
            " Also: construction histories (same key removed repeatedly, removal results on either side of +, shared sub-objects, prior observation) against the layer-deletion model: manifest, objectFields(All), length, objectHas(All), in, hidden values, ==, objectValues, objectKeysValues."),
    "C09": ("; binder matrix: every scope kind x every pair of binder slots x nested scopes x 8 live/dead contexts",
            " Also: a binder matrix of 2016 programs (every scope kind x slot pair equal/distinct x 8 contexts), verdicts by the scope oracle."),
    "C10": ("; thunk chains through inheritance layers (13 reader forms x 3 constructions) and lazily built containers; import cycles of real files through the CLI in 11 directory layouts",
            " Also: 49 layer / lazy-container chain shapes under the same laws, and import cycles (1-4 files, 11 layouts, 5 import positions, 4 limits) which must always be reported as infinite recursion."),
    "C11": ("; matrix library: delayed-computation kind x failure kind, wrappers x holders, observed shallowly/deeply/again in random histories",
            " Also: a generated matrix library of 515 fields (every way a delayed computation arises x every way it fails; failing objects behind no-op wrappers inside holders)."),
    "C12": ("; framing-sensitive strings, -m with -S/-y, faults at the k-th step of multi-step outputs",
            " Also: strings that begin/end like the output framing, -m combined with -S / -y, and faults at exactly the k-th file / element of a multi-step output."),
    "C14": ("; giant tokens (span lengths around 2^25 and 2^26 bytes) via run-length encoded inputs, expected tokens by construction",
            " Also: one giant token of each of 9 kinds at span lengths 2^25-1 .. 2^26+1 (extents and payload CRC by construction)."),
    "C15": ("; giant nodes: one inter-token gap widened to ~2^25 / ~2^26 bytes, dump compared with the shifted small dump",
            " Also: generated programs with one gap widened to ~32 / ~64 MiB: every node extent must equal the small program's, shifted."),
    "C17": ("; dataflow DAGs with aliased operands; re-entrant comparisons (lazy deciding elements that run sort/set/fold themselves)",
            " Also: dataflow programs whose operands are earlier results or the same value, and comparisons that re-enter sort/set/fold through lazy elements."),
    "C19": ("; every mismatch through std.format, % and std.mod; directive-free format strings x argument shapes",
            " Count/type/key mismatches are checked through all three entry points, including format strings without directives."),
    "C20": ("; sign/prefix grid for the integer parsers; the whole RFC 8259 number grammar for parseJson and parseYaml==parseJson",
            " Also: a 29 x 15 x 10 prefix/body/suffix grid for parseInt/Octal/Hex and the complete JSON number grammar (e/E, exponent signs, leading zeros) alone, in arrays and in objects."),
}

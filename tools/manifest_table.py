HOOK_COMMITS = ["9db45bf"]
ENGINES = [
    {"name": "evalsrv+python-monitors", "path": "/verif/harness/src/bin/evalsrv.rs + /verif/driver",
     "serves_properties": [], "kind_free_text": "batch evaluation server over the public rsjsonnet API (Program/Session/Lexer/Parser/SpanManager) observed by Python oracles (reference models, independent decoders, metamorphic relations)"},
    {"name": "gcheap", "path": "/verif/harness/src/bin/gcheap.rs",
     "serves_properties": ["C03"], "kind_free_text": "scripted-heap driver over the real collector (hook 2) with a reference reachability model; exhaustive small scope + random large scope; also run under Miri"},
]
NOTES = "Runtime monitoring only: every verdict is 'held on the executions observed'. See DESIGN.md."
NOT_CLAIMED = {}
CHECKS = {}

#!/bin/sh
# tools/try_seeded.sh <patch.diff> <Cxx> [tier]   - applies a seeded change to /repo, runs the check, undoes it.
# exit status = the check's (1 = the change was caught).
patch="$1"; prop="$2"; tier="${3:-quick}"
cd /verif || exit 2
git -C /repo diff --quiet || { echo "/repo has uncommitted changes"; exit 2; }
git -C /repo apply "$patch" || { echo "patch does not apply"; exit 2; }
./check "$prop" --tier "$tier" > "/verif/target/seeded_$prop.log" 2>&1
rc=$?
git -C /repo checkout -- .
grep -E "^VIOLATION|^KNOWN-FINDING|^\[$prop\]|BROKEN" "/verif/target/seeded_$prop.log" | cut -c1-300 | head -8
exit $rc

#!/usr/bin/env python3
"""Regenerates /verif/MANIFEST.json from the table below (single source of truth)."""
import json
import os
import subprocess

VERIF = os.path.dirname(os.path.dirname(os.path.abspath(__file__)))

# property -> (technique, level text, level note, design ref)
CHECKS = {}
PENDING = {}

def load_table():
    import importlib.util
    spec = importlib.util.spec_from_file_location("table", os.path.join(VERIF, "tools", "manifest_table.py"))
    m = importlib.util.module_from_spec(spec)
    spec.loader.exec_module(m)
    return m

def main():
    t = load_table()
    props = [json.loads(l) for l in open(os.path.join(VERIF, "properties.jsonl"))]
    hooks_commits = t.HOOK_COMMITS
    checks = []
    na = []
    for p in props:
        pid = p["id"]
        if pid in t.CHECKS:
            c = dict(t.CHECKS[pid])
            extra = getattr(t, "ADDED", {}).get(pid)
            if extra:
                c["technique"] = c["technique"] + extra[0]
                c["text"] = c["text"] + extra[1]
            checks.append({
                "property_id": pid,
                "quick_cmd": f"./check {pid} --tier quick",
                "thorough_cmd": f"./check {pid} --tier thorough",
                "evidence_file": f"/verif/evidence/{pid}.json",
                "replay_cmd_template": f"./check {pid} --replay {{path}}",
                "engine": c.get("engine", "evalsrv+python-monitors"),
                "level_claimed": {"category": c.get("category", "exploration"), "text": c["text"],
                                  "design_ref": c["design_ref"]},
                "level_note": c["note"],
                "technique": c["technique"],
            })
        else:
            na.append({"property_id": pid, "reason": t.NOT_CLAIMED.get(pid, "check not built yet in this session (see DESIGN.md section 2 for the planned monitor)")})
    m = {
        "version": 1,
        "setup_cmd": "./check setup",
        "hooks": {
            "guard": "cargo feature `verif-hooks` on crate rsjsonnet-lang (off by default)",
            "enable": "the harness crate /verif/harness depends on /repo/rsjsonnet-lang by path with features=[\"verif-hooks\"]; the CLI under test is built without it",
            "baseline_off_cmd": "cd /repo && cargo test --workspace --no-fail-fast --offline",
            "source_commits": hooks_commits,
            "add_only": True,
        },
        "engines": t.ENGINES,
        "checks": checks,
        "notes": t.NOTES,
        "not_applicable": na,
    }
    with open(os.path.join(VERIF, "MANIFEST.json"), "w") as f:
        json.dump(m, f, indent=1)
    # validate
    try:
        import jsonschema
        jsonschema.validate(m, json.load(open("/root/.vp/MANIFEST.schema.json")))
        print("MANIFEST.json valid;", len(checks), "checks,", len(na), "not claimed")
    except ImportError:
        print("jsonschema not importable; wrote MANIFEST.json unvalidated")

if __name__ == "__main__":
    main()
